"""C04 — parallel string sort: no use of a self-deleting step after a release point,
add-before-enqueue, counters decided by their own RMW, phase arming, completion barrier,
copy_back on all paths of the leaf sorter and before every range is reported finished (ctx.donesize),
the classifier's descent routines agree with the bucket numbering (CLASSIFY-BUCKET), the packed byte build() writes per splitter holds the
`key ends in the terminator` flag and the common prefix with the splitter before (SPLITTER-LCP-FLAGS), work sharing retires the level it gives away (FRONT-LEVEL).

Verdict policy of this file: a violation is reported only on positive evidence (a CFG path, a row of a small
decision table, a counted registration balance, a constant mask that differs from the builder's); a shape that is
not understood raises dtable.Undecidable (exit 2).  Locals are never addressed by name: never-written locals and
reference aliases are resolved to their initialisers."""
from engine import ir, dtable, match, cfg as cfgm, mustfact
from engine.ir import kids, strip_casts, const_int, ref_of

Undecidable = dtable.Undecidable

NS = "tlx::sort_strings_detail::"
BIG = NS + "PS5BigSortStep"
SMALL = NS + "PS5SmallsortJob"
STEP = NS + "PS5SortStep"
ORDER = {0: "relaxed", 1: "consume", 2: "acquire", 3: "release", 4: "acq_rel", 5: "seq_cst"}
# functions that run while the anonymous handle (substep_add at the start of run()/distribute_finished()) is held: enqueues in them cannot
# complete the step (frozen table, confirmed by reading: run() brackets sort_sample_sort/sort_mkqs_cache and their *_free_work helpers)
UNDER_HANDLE = ("run", "sort_sample_sort", "sample_sort_free_work", "sort_mkqs_cache", "mkqs_free_work")
# job entry points that take the anonymous handle themselves (frozen table)
HANDLE_FNS = ("run", "distribute_finished")

WRAPPERS = ("ImplicitCastExpr", "CStyleCastExpr", "CXXStaticCastExpr", "CXXFunctionalCastExpr", "CXXReinterpretCastExpr", "CXXConstCastExpr",
            "ParenExpr", "MaterializeTemporaryExpr", "CXXBindTemporaryExpr", "ExprWithCleanups", "ConstantExpr")
ASSIGN_OPS = ("=", "+=", "-=", "*=", "/=", "%=", "&=", "|=", "^=", "<<=", ">>=")
WRITING_STD = ("swap", "exchange", "tie", "iter_swap")


# ---------------------------------------------------------------------------------------------- shared helpers
def peel(n):
    """looks through casts, parentheses, temporaries and same-type copies"""
    while n is not None:
        m = strip_casts(n)
        if m is not None and m["k"] in WRAPPERS and kids(m):
            m = kids(m)[0]
        if m is n:
            return n
        n = m
    return n


def _locals(fn):
    c = getattr(fn, "_c04_locals", None)
    if c is None:
        c = {}
        uses = {}
        captured = set()
        for x in fn.nodes():
            if x["k"] == "VarDecl" and "did" in x:
                c[x["did"]] = x
            elif x["k"] == "DeclRefExpr":
                uses.setdefault(x["ref"]["id"], []).append(x)
            elif x["k"] == "LambdaExpr":
                for cp in x.get("captures", []):
                    if cp.get("byref") and "id" in cp:
                        captured.add(cp["id"])
        fn._c04_locals, fn._c04_uses, fn._c04_captured = c, uses, captured
    return c


def uses_of(fn, did):
    _locals(fn)
    return fn._c04_uses.get(did, [])


def _is_write(fn, use):
    """the DeclRefExpr `use` is (possibly) written through: assignment target, ++/--, address taken, bound to a
    non-const reference parameter of a project function, handed to a std function that writes its arguments"""
    e = use
    par = fn.parent(e)
    while par is not None and par["k"] in WRAPPERS:
        e, par = par, fn.parent(par)
    if par is None:
        return False
    k = par["k"]
    if k in ("BinaryOperator", "CompoundAssignOperator") and par.get("op") in ASSIGN_OPS:
        return kids(par)[0] is e
    if k == "UnaryOperator" and par.get("op") in ("++", "--", "&"):
        return True
    if "callee" in par:
        if k == "CXXOperatorCallExpr" and par.get("op") in ASSIGN_OPS + ("++", "--") and kids(par) and kids(par)[0] is e:
            return True
        if par["callee"]["name"] in WRITING_STD:
            return True
        cal = fn.tu.by_did.get(par["callee"].get("did"))
        if cal is not None:
            args = kids(par)[1:] if par.get("member_call") or par.get("op") == "()" else kids(par)
            for a, p in zip(args, cal.params):
                if a is e:
                    t = (p.get("ty") or "").strip()
                    if t.endswith("&") and not t.endswith("&&") and not t.startswith("const "):
                        return True
    return False


def stable_local(fn, did):
    """VarDecl of a local that is initialised once and never written afterwards (a reference alias, a const local, or a
    local all of whose uses are reads); None otherwise"""
    v = _locals(fn).get(did)
    if v is None or not kids(v) or kids(v)[0] is None:
        return None
    memo = fn.__dict__.setdefault("_c04_stable", {})
    if did not in memo:
        ty = (v.get("ty") or "").strip()
        if v.get("isref") or ty.endswith("&"):
            ok = True
        elif did in fn._c04_captured:
            ok = False
        else:
            ok = not any(_is_write(fn, u) for u in uses_of(fn, did))
        memo[did] = ok
    return v if memo[did] else None


def resolve(fn, e, depth=0):
    """e with wrappers removed and never-written locals / reference aliases replaced by their initialisers"""
    e = peel(e)
    while e is not None and e["k"] == "DeclRefExpr" and depth < 8:
        v = stable_local(fn, e["ref"]["id"])
        if v is None:
            break
        e = peel(kids(v)[0])
        depth += 1
    return e


def field_r(fn, e):
    """name of the member of *this that e denotes (through aliases), else None"""
    return match.this_field(resolve(fn, e))


def where(fn, n):
    return fn.nloc(n) if n is not None else fn.loc


def this_member_access(x):
    """x reads/writes a member of *this (implicit or explicit this->)"""
    if x["k"] == "MemberExpr" and kids(x):
        b = strip_casts(kids(x)[0])
        return b is not None and b["k"] == "This"
    return False


def alias_of_own_member(fn, x):
    """x names a reference local bound to a (non-reference) data member of *this: reading it reads the object's own storage"""
    if x["k"] != "DeclRefExpr":
        return None
    v = _locals(fn).get(x["ref"]["id"])
    if v is None or not (v.get("isref") or (v.get("ty") or "").strip().endswith("&")) or not kids(v):
        return None
    r = resolve(fn, kids(v)[0])
    if r is None or not this_member_access(r):
        return None
    tys = getattr(fn.tu, "_c04_field_ty", None)
    if tys is None:
        tys = fn.tu._c04_field_ty = {f["mid"]: (f.get("ty") or "") for rec in fn.tu.records for f in rec.get("fields", []) if "mid" in f}
    t = tys.get(r.get("mid"))
    if t is None or t.strip().endswith("&"):
        return None          # a reference member: the alias names an object outside *this
    return r["member"]


def this_use(fn, x):
    """for a `This` node: 'member' (base of a member expression, judged there), 'deref' (object of a member call, *this,
    delete this), 'escape' (the pointer value is handed on)"""
    e = x
    par = fn.parent(e)
    while par is not None and par["k"] in WRAPPERS:
        e, par = par, fn.parent(par)
    if par is None:
        return "escape"
    if par["k"] == "MemberExpr":
        return "member"
    if "callee" in par and par.get("member_call") and kids(par) and kids(par)[0] is e:
        return "deref"
    if par["k"] == "UnaryOperator" and par.get("op") == "*":
        return "deref"
    if par["k"] == "CXXDeleteExpr":
        return "deref"
    return "escape"


def inst(fn):
    r = fn.rtargs
    lcp = "lcp" if any("StringShadowLcpPtr" in a for a in r) else "nolcp"
    st = "string" if any("basic_string" in a for a in r) else "cstr"
    return "%s/%s" % (st, lcp)


def is_call(x, name, on_this=True):
    if "callee" in x and x["callee"]["name"] == name and x.get("member_call") and kids(x):
        o = strip_casts(kids(x)[0])
        return (o is not None and o["k"] == "This") if on_this else True
    return False


def pool_enqueue(x):
    """ctx_.threads_.enqueue(lambda) / ctx.threads_.enqueue(lambda)"""
    if "callee" in x and x["callee"]["name"] == "enqueue" and x.get("member_call") and "ThreadPool" in (x["callee"].get("record") or ""):
        return True
    return False


def ctx_enqueue(x):
    """ctx_.enqueue(this, strptr, depth)"""
    return "callee" in x and x["callee"]["name"] == "enqueue" and x.get("member_call") and "PS5Context" in (x["callee"].get("record") or "")


def reach_after(g, p, blocked_edges=()):
    """blocks reachable strictly after position p when the given (block, successor) edges are never taken"""
    be = set(blocked_edges)
    seen = set()
    work = [s for s in g.succ[p[0]] if (p[0], s) not in be]
    while work:
        b = work.pop()
        if b in seen:
            continue
        seen.add(b)
        work.extend(s for s in g.succ[b] if (b, s) not in be)
    return seen


def reaches(g, p, q, seen):
    return (p[0] == q[0] and q[1] > p[1]) or q[0] in seen


# ---------------------------------------------------------------------------------------------- atomic read-modify-writes and their results
def atomic_rmw(fn, x):
    """(field, '+'|'-', 'new'|'old', amount, order) for an atomic read-modify-write of a member of *this:
    ++f --f f++ f-- f += n f -= n f.fetch_add(n[, order]) f.fetch_sub(n[, order]); amount/order None if not constant"""
    if "callee" not in x or not kids(x):
        return None
    if "atomic" not in (x["callee"].get("qname") or ""):
        return None
    f = field_r(fn, kids(x)[0])
    if not f:
        return None
    nm = x["callee"]["name"]
    if nm in ("operator--", "operator++"):
        return f, ("-" if nm == "operator--" else "+"), ("old" if len(kids(x)) == 2 else "new"), 1, 5
    if nm in ("operator-=", "operator+=") and len(kids(x)) == 2:
        return f, ("-" if nm == "operator-=" else "+"), "new", const_int(kids(x)[1]), 5
    if nm in ("fetch_sub", "fetch_add"):
        a = kids(x)[1:]
        o = 5
        if len(a) > 1 and a[1] is not None and a[1]["k"] != "DefaultArg":
            o = const_int(a[1])
        return f, ("-" if nm == "fetch_sub" else "+"), "old", (const_int(a[0]) if a else None), o
    return None


_CMP = {"==": lambda a, b: a == b, "!=": lambda a, b: a != b, "<": lambda a, b: a < b, "<=": lambda a, b: a <= b,
        ">": lambda a, b: a > b, ">=": lambda a, b: a >= b, "+": lambda a, b: a + b, "-": lambda a, b: a - b}


class ResultUse:
    """where the value of one expression goes inside its function: branch conditions (with the function value -> condition
    value), returned to the callers (one ResultUse per call site in `subs`), discarded, or used in a way that is not understood"""

    def __init__(self, fn, x, f=None, depth=0):
        self.fn = fn
        self.map = {}           # node id -> function (value of x) -> value of that node
        self.discarded = []
        self.unknown = []       # nodes
        self.returned = False
        self.tested = False     # operand of a condition / && / ||
        self.subs = []
        self._climb(x, f or (lambda v: v), depth)

    def _climb(self, e, f, depth):
        fn = self.fn
        while True:
            self.map[e["id"]] = f
            par = fn.parent(e)
            if par is None:
                self.unknown.append(e)
                return
            k = par["k"]
            if k in WRAPPERS:
                if par.get("cast") == "ToVoid":
                    self.discarded.append(e)
                    return
                if par.get("cast") == "IntegralToBoolean":
                    f = (lambda g: lambda v: g(v) != 0)(f)
                e = par
                continue
            if k == "UnaryOperator" and par.get("op") == "!":
                f = (lambda g: lambda v: not g(v))(f)
                e = par
                continue
            if k == "BinaryOperator" and par.get("op") in ("&&", "||"):
                self.tested = True
                return
            if k == "BinaryOperator" and par.get("op") in _CMP and len(kids(par)) == 2:
                l, r = kids(par)
                c = const_int(r if l is e else l)
                if c is None:
                    self.unknown.append(par)
                    return
                op = _CMP[par["op"]]
                f = (lambda g, op, c: lambda v: op(g(v), c))(f, op, c) if l is e else (lambda g, op, c: lambda v: op(c, g(v)))(f, op, c)
                e = par
                continue
            if k in ("IfStmt", "WhileStmt", "ConditionalOperator"):
                if kids(par)[0] is e:
                    self.tested = True
                elif k == "ConditionalOperator":
                    self.unknown.append(par)
                else:
                    self.discarded.append(e)
                return
            if k in ("DoStmt", "ForStmt"):
                if kids(par)[1] is e:
                    self.tested = True
                else:
                    self.discarded.append(e)
                return
            if k in ("CompoundStmt", "CaseStmt", "DefaultStmt", "LabelStmt", "AttributedStmt", "DeclStmt"):
                self.discarded.append(e)
                return
            if k == "VarDecl":
                if stable_local(fn, par["did"]) is None or depth > 4:
                    self.unknown.append(par)
                    return
                us = uses_of(fn, par["did"])
                if not us:
                    self.discarded.append(e)
                for u in us:
                    self._climb(u, f, depth + 1)
                return
            if k == "ReturnStmt":
                self.returned = True
                sites = [(g, c) for g in fn.tu.functions if g.body is not None and g is not fn for c in g.nodes()
                         if "callee" in c and c["callee"].get("did") == fn.did]
                if not sites or depth > 2:
                    self.unknown.append(par)
                    return
                for g, c in sites:
                    self.subs.append(ResultUse(g, c, f, depth + 3))
                return
            self.unknown.append(par)
            return

    def branches(self, g):
        """[(block, function value -> condition value)] for the branching blocks of this function's CFG whose condition is built from the value"""
        out = []
        for bid, b in g.blocks.items():
            ss = b.get("succ", [])
            if len(ss) == 2 and ss[0] is not None and ss[1] is not None and b.get("cond") in self.map and b.get("termk") != "SwitchStmt":
                out.append((bid, self.map[b["cond"]]))
        return out

    def verdict(self, last):
        """'decided': a branch separates the value `last` from the larger ones (in every caller, if the value is returned);
        'undecided': it is discarded or only tested in ways that treat the last job like another one; ('unknown', node, fn)"""
        if self.fn.cfg:
            brs = self.branches(cfgm.CFG(self.fn))
            if any(decisive(f, last) is not None for bid, f in brs):
                return "decided"
        else:
            brs = []
        if self.subs:
            vs = [s.verdict(last) for s in self.subs]
            for v in vs:
                if isinstance(v, tuple):
                    return v
            if all(v == "decided" for v in vs):
                return "decided"
            if not self.unknown:
                return "undecided"
        if self.unknown:
            return ("unknown", self.unknown[0], self.fn)
        if self.tested and not brs:
            return ("unknown", self.fn.body, self.fn)
        return "undecided"


def decisive(f, last):
    """True/False: the condition has that value exactly when the decrement yielded `last` (this job was the last one);
    None: the condition does not separate the last job from the others"""
    try:
        t = bool(f(last))
        others = [bool(f(last + k)) for k in (1, 2, 3, 7, 1000)]
    except Exception:
        return None
    if all(o != t for o in others):
        return t
    return None


def last_value(kind, amount):
    """value the decrement expression yields for the job that brings the counter to zero"""
    return 0 if kind == "new" else amount


# ---------------------------------------------------------------------------------------------- USE-AFTER-RELEASE
_RAW = {}


def raw_function(fn):
    """the same function as the extractor delivered it (before engine/normalize.py inlined new helpers and replaced new locals
    by their initialisers); None if it cannot be found"""
    if "tu" not in _RAW:
        import os
        old = os.environ.get("VERIF_NO_NORMALIZE")
        os.environ["VERIF_NO_NORMALIZE"] = "1"
        try:
            _RAW["tu"] = ir.extract("witness/C04_parallel_sample_sort.cpp")
        finally:
            if old is None:
                os.environ.pop("VERIF_NO_NORMALIZE", None)
            else:
                os.environ["VERIF_NO_NORMALIZE"] = old
    r = _RAW["tu"].by_did.get(fn.did)
    if r is None or r.qname != fn.qname or r.body is None:
        return None
    return r


def _src_key(z):
    return (z.get("f"), z.get("l"), z.get("c"), z["k"], z.get("member"))


def check_use_after_release(ck, tu, fn):
    tag = "%s::%s [%s]" % (fn.record.split("::")[-1], fn.name, inst(fn))
    sig0 = "%s::%s" % (fn.record.split("::")[-1], fn.name)
    res = uar_find(fn)
    if res[0] == "bad" and getattr(fn, "normalized", False):
        # the normaliser replaces a new local by its initialiser at the uses: a member read that really happens at the declaration
        # then appears where the local is used.  Such copies are judged where they are evaluated - in the function as written.
        rfn = raw_function(fn)
        if rfn is not None and uar_find(rfn)[0] == "ok":
            inits = set(_src_key(z) for v in rfn.nodes() if v["k"] == "VarDecl" and kids(v) for z in ir.walk(kids(v)[0]))
            own = set(z["id"] for v in fn.nodes() if v["k"] == "VarDecl" and kids(v) for z in ir.walk(kids(v)[0]))
            res = uar_find(fn, skip=lambda y: y["id"] not in own and _src_key(y) in inits)
    if res[0] == "bad":
        bad, why = res[1], res[2]
        what = dtable.describe(bad) if bad["k"] != "This" else "this"
        if bad["k"] == "DeclRefExpr":
            what = "%s (an alias of %s)" % (what, alias_of_own_member(fn, bad))
        ck.violation("USE-AFTER-RELEASE", fn.qname, "%s:%s" % (sig0, what.replace(" ", "")),
                     "member `%s` is accessed after a release point (%s): heap-use-after-free when the step completes in between" % (what, why), fn.nloc(bad))
    elif res[1]:
        ck.ok("USE-AFTER-RELEASE", tag, "%d release point(s), no member access reachable afterwards" % res[1])


def must_release(fn, memo, depth=0):
    """every path through the member function passes substep_notify_done() on this / delete this (directly or through a
    member function called on this that does)"""
    if fn.did in memo:
        return memo[fn.did]
    memo[fn.did] = False
    r = False
    if fn.body is not None and fn.cfg and depth < 6:
        g = cfgm.CFG(fn)
        pos = []
        for x in fn.nodes():
            hit = is_call(x, "substep_notify_done") or (x["k"] == "CXXDeleteExpr" and kids(x) and strip_casts(kids(x)[0])["k"] == "This")
            if not hit and "callee" in x and x.get("member_call") and kids(x) and strip_casts(kids(x)[0])["k"] == "This":
                cal = fn.tu.by_did.get(x["callee"].get("did"))
                hit = cal is not None and cal is not fn and must_release(cal, memo, depth + 1)
            if hit and g.pos(x) is not None:
                pos.append(g.pos(x))
        r = bool(pos) and g.path_avoiding((g.entry, -1), pos) is None
    memo[fn.did] = r
    return r


def loop_tests(fn, g, lp):
    """positions at which the loop decides to go on: the operands of its condition (a chain of &&), or of the negated condition of a
    leading `if (..) break;` of an endless loop; [] when the test is of another form"""
    init, cond, inc, body = match.loop_parts(lp)
    if cond is None or const_int(peel(cond)) or const_int(cond):
        et = exit_test_first(body)
        if et is None:
            return []
        c, neg = et[0], True
    else:
        c, neg = cond, False

    def ops(e, neg):
        e = peel(e)
        if e is None:
            return None
        if e["k"] == "UnaryOperator" and e.get("op") == "!" and match.binop(e, ("==", "!=")) is None:
            return ops(kids(e)[0], not neg)
        if e["k"] == "BinaryOperator" and e.get("op") in ("&&", "||"):
            # go on <=> a && b;  leave <=> a || b (go on <=> !a && !b)
            if (e["op"] == "&&") == neg:
                return None
            l, r = ops(kids(e)[0], neg), ops(kids(e)[1], neg)
            return None if l is None or r is None else l + r
        p = g.pos(e)
        return [p] if p is not None else None
    return ops(c, neg) or []


def uar_find(fn, skip=None):
    """('bad', node, why) for a member access reachable after a release point, else ('ok', number of release points)"""
    g = cfgm.CFG(fn)
    sig0 = "%s::%s" % (fn.record.split("::")[-1], fn.name)
    releases = []
    holds = fn.name in UNDER_HANDLE
    own_add = [x for x in fn.nodes() if is_call(x, "substep_add")]
    why_dec = "--pwork_ gives up this job's claim: unless it reached zero another thread may complete and delete the step"
    for x in fn.nodes():
        if is_call(x, "substep_notify_done"):
            releases.append((x, "substep_notify_done() may run substep_all_done(), which deletes this", None))
        elif "callee" in x and x.get("member_call") and kids(x) and strip_casts(kids(x)[0])["k"] == "This":
            cal = fn.tu.by_did.get(x["callee"].get("did"))
            if cal is not None and cal is not fn and must_release(cal, fn.tu.__dict__.setdefault("_c04_must_release", {})):
                releases.append((x, "%s() gives the step up on every one of its paths (substep_notify_done() / delete this)" % cal.name, None))
        if x["k"] == "CXXDeleteExpr" and kids(x) and strip_casts(kids(x)[0])["k"] == "This":
            releases.append((x, "delete this", None))
        # giving up this job's claim on a phase counter: others may finish the step afterwards
        u = match.unop(x, ("--",)) if x["k"] == "UnaryOperator" else None
        if u and field_r(fn, u[1]) == "pwork_":
            releases.append((x, why_dec, ("old" if u[2] else "new", 1)))
        r = atomic_rmw(fn, x)
        if r and r[0] == "pwork_" and r[1] == "-":
            if r[3] is None:
                raise Undecidable("%s: pwork_ is decremented by an amount that is not a constant" % fn.nloc(x))
            releases.append((x, why_dec, (r[2], r[3])))
        if pool_enqueue(x) and not holds and not (own_add and g.pos(own_add[0]) and g.pos(x) and g.dominates(g.pos(own_add[0]), g.pos(x))):
            releases.append((x, "a job enqueued while no handle is held can run the remaining phases to completion and delete the step", None))
    for (r, why, dec) in releases:
        pr = g.pos(r)
        if pr is None:
            raise Undecidable("%s: release point of %s has no position in the CFG" % (fn.nloc(r), sig0))
        blocked, ru = [], None
        if dec is not None:
            # the edges taken only by the job whose own decrement reached zero: that job owns the object
            ru = ResultUse(fn, r)
            last = last_value(*dec)
            for bid, f in ru.branches(g):
                t = decisive(f, last)
                if t is not None:
                    ss = g.blocks[bid]["succ"]
                    if ss[0] != ss[1]:
                        blocked.append((bid, ss[0] if t else ss[1]))
        seen = reach_after(g, pr, blocked)
        inside = set(z["id"] for z in ir.walk(r))
        lp = None
        if "enqueued" in why:
            lp = fn.parent(r)
            while lp is not None and lp["k"] not in ("ForStmt", "WhileStmt", "DoStmt"):
                lp = fn.parent(lp)
        bad, escapes = None, []
        for y in fn.nodes():
            if y["id"] in inside or (skip is not None and skip(y)):
                continue          # operands of the release call itself are evaluated before it
            if y["k"] == "This":
                tu_ = this_use(fn, y)
                if tu_ == "member":
                    continue
            elif this_member_access(y) or alias_of_own_member(fn, y):
                tu_ = "deref"
            else:
                continue
            py = g.pos(y)
            if py is None or py == pr or not reaches(g, pr, py, seen):
                continue
            # an unheld enqueue inside a loop: accesses in the loop body before the next enqueue are safe while iterations remain
            # (cond true => jobs still to be enqueued => the phase counter cannot reach zero); the loop condition / increment are not
            if lp is not None:
                init, cond, inc, body = match.loop_parts(lp)
                in_cond = (cond is not None and any(z is y for z in ir.walk(cond))) or (inc is not None and any(z is y for z in ir.walk(inc)))
                in_body = any(z is y for z in ir.walk(body))
                if in_body and not in_cond:
                    # safe only behind the loop's own test (it came out `continue`: jobs remain); what runs between the enqueue and that
                    # test also runs after the last job was enqueued
                    tests = loop_tests(fn, g, lp)
                    if not tests:
                        raise Undecidable("%s: a job is enqueued while no handle is held inside a loop whose continuation test is not recognised; "
                                          "whether `%s` is read only while jobs remain is not derived" % (fn.nloc(lp), dtable.describe(y)))
                    if g.path_between_avoiding(pr, py, tests) is None:
                        continue
            if tu_ == "escape":
                escapes.append(y)
                continue
            bad = y
            break
        if bad is not None:
            return ("bad", bad, why)
        if ru is not None and ru.unknown:
            # is anything of *this touched after the decrement at all?  then the unknown use of the result matters
            any_after = [y for y in fn.nodes() if (this_member_access(y) or y["k"] == "This") and y["id"] not in inside and g.pos(y) and
                         reaches(g, pr, g.pos(y), reach_after(g, pr))]
            if any_after:
                ufn, un = fn, ru.unknown[0]
                raise Undecidable("%s: the result of the decrement of pwork_ is used in a form that is not understood (%s); cannot tell which "
                                  "paths belong to the last job" % (ufn.nloc(un), un["k"]))
        if escapes:
            raise Undecidable("%s: `this` is handed on as a pointer value after a release point of %s; what the receiver does with it is not known"
                              % (fn.nloc(escapes[0]), sig0))
    return ("ok", len(releases))


# ---------------------------------------------------------------------------------------------- ADD-BEFORE-ENQUEUE / HANDLE-PAIR
LIM = 6


class Credit:
    """Counts, along every CFG path of one member function, the registrations of *this that are open:
    substep_add() +1, ctx.enqueue(this, ..) -1 (the child takes one over), substep_notify_done() -1, calls of member
    functions of the same object by their own summary.  The state is the interval [fewest, most] over all paths to a point.
    With `flag` (a never-written bool local that decides several branches) the paths are kept apart by the value of the
    flag (trace partitioning: the partitions are merged where the flag is declared, split where it is tested)."""

    def __init__(self, tu, fn, memo, stack=(), flag=None):
        self.fn, self.tu = fn, tu
        self.flag = flag
        if fn.did in stack:
            raise Undecidable("%s: %s takes part in a recursion; registrations cannot be counted" % (fn.loc, fn.name))
        g = self.g = cfgm.CFG(fn)
        self.events = {}
        self.sat = self.sat_hi = False
        for x in fn.nodes():
            ev = self._classify(x, memo, stack + (fn.did,))
            if ev is None:
                continue
            p = g.pos(x)
            if p is None:
                raise Undecidable("%s: %s of %s has no position in the CFG" % (fn.nloc(x), ev[0], fn.name))
            self.events.setdefault(p[0], []).append((p[1], ev, x))
        self.tests = {}
        if flag is not None:
            decls, brs = flag
            self.tests = dict(brs)
            for v in decls:
                p = g.pos_deep(v)
                self.events.setdefault(p[0], []).append((p[1], ("flagdecl", 0, 0, 0), v))
        for b in self.events:
            self.events[b].sort(key=lambda t: t[0])
        self.before = {}
        self._run()

    def _classify(self, x, memo, stack):
        fn = self.fn
        if x["k"] == "MemberExpr" and x.get("member") == "substep_working_" and fn.record != STEP:
            raise Undecidable("%s: substep_working_ is touched directly in %s" % (fn.nloc(x), fn.name))
        if x["k"] == "This" and this_use(fn, x) == "escape":
            par = fn.parent(x)
            while par is not None and par["k"] in WRAPPERS:
                par = fn.parent(par)
            if par is not None and "callee" in par and not ctx_enqueue(par) and par.get("op") != "<<":
                raise Undecidable("%s: `this` is handed to %s(); whether that registers or enqueues a child is not known"
                                  % (fn.nloc(x), par["callee"]["name"]))
        if "callee" not in x:
            return None
        if is_call(x, "substep_add"):
            return ("add", 1, 1, 0)
        if is_call(x, "substep_notify_done"):
            return ("notify", -1, -1, 0)
        if ctx_enqueue(x):
            a = resolve(fn, kids(x)[1]) if len(kids(x)) > 1 else None
            if a is not None and a["k"] == "This":
                return ("enqueue", -1, -1, 1)
            if a is not None and (a["k"] in ("NullPtr", "CXXNullPtrLiteralExpr", "GNUNullExpr") or const_int(a) == 0 or match.this_field(a) == "pstep_"):
                return None
            raise Undecidable("%s: the parent step handed to ctx.enqueue() is not recognised (%s)" % (fn.nloc(x), dtable.describe(a)))
        if x.get("member_call") and kids(x) and strip_casts(kids(x)[0]) is not None and strip_casts(kids(x)[0])["k"] == "This":
            cal = self.tu.by_did.get(x["callee"].get("did"))
            if cal is None or cal.body is None or not cal.cfg:
                return None
            s = summary(self.tu, cal, memo, stack)
            if s["trivial"]:
                return None
            return ("call of %s()" % cal.name, s["lo"], s["hi"], s["need"], s)
        return None

    def _clip(self, lo, hi):
        if lo < -LIM or hi > LIM:
            self.sat = True
        if hi > LIM:
            self.sat_hi = True
        return max(lo, -LIM), min(hi, LIM)

    @staticmethod
    def _join(a, b):
        """partitioned states: {flag value (None = not known): (lo, hi)}"""
        out = dict(a)
        for k, (lo, hi) in b.items():
            out[k] = (lo, hi) if k not in out else (min(out[k][0], lo), max(out[k][1], hi))
        return out

    @staticmethod
    def _flat(st):
        return (min(v[0] for v in st.values()), max(v[1] for v in st.values()))

    def _run(self):
        g = self.g
        inn = {g.entry: {None: (0, 0)}}
        work = [g.entry]
        while work:
            b = work.pop()
            st = dict(inn[b])
            for (i, ev, x) in self.events.get(b, []):
                if ev[0] == "flagdecl":
                    st = {None: self._flat(st)}
                    continue
                self.before[x["id"]] = self._flat(st)
                st = {k: self._clip(lo + ev[1], hi + ev[2]) for k, (lo, hi) in st.items()}
            ss = g.blocks[b].get("succ", [])
            for s in g.succ[b]:
                out = st
                if b in self.tests and len(ss) == 2 and ss[0] != ss[1]:
                    val = self.tests[b] if s == ss[0] else (not self.tests[b])
                    out = {}
                    for k, iv in st.items():
                        if k is None or k == val:
                            out = self._join(out, {val: iv})
                    if not out:
                        continue
                old = inn.get(s)
                new = dict(out) if old is None else self._join(old, out)
                if new != old:
                    inn[s] = new
                    if s not in work:
                        work.append(s)
        ex = inn.get(g.exit)
        self.exit = self._flat(ex) if ex else None

    def all_events(self):
        for b in self.events:
            for (i, ev, x) in self.events[b]:
                if x["id"] in self.before:
                    yield ev, x, self.before[x["id"]]


PURE_NODES = ("DeclRefExpr", "IntegerLiteral", "CXXBoolLiteralExpr", "CharacterLiteral", "BinaryOperator", "UnaryOperator") + WRAPPERS


def _never_written(fn, did):
    if did in _locals(fn):
        return stable_local(fn, did) is not None
    if any(p["did"] == did for p in fn.params):
        _locals(fn)
        return did not in fn._c04_captured and not any(_is_write(fn, u) for u in uses_of(fn, did))
    return False


def _cond_sig(fn, e, dids):
    """structural signature of a condition built only from never-written locals / parameters and constants, else None"""
    e = peel(e)
    if e is None or e["k"] not in PURE_NODES:
        return None
    c = const_int(e)
    if c is not None:
        return ("c", c)
    if e["k"] == "DeclRefExpr":
        if e["ref"].get("kind") not in ("local", "param") or not _never_written(fn, e["ref"]["id"]):
            return None
        dids.add(e["ref"]["id"])
        return ("v", e["ref"]["id"])
    if e["k"] == "UnaryOperator" and e.get("op") in ("++", "--", "&", "*"):
        return None
    if e["k"] == "BinaryOperator" and e.get("op") in ASSIGN_OPS + (",",):
        return None
    subs = [_cond_sig(fn, k, dids) for k in kids(e)]
    if any(x is None for x in subs):
        return None
    return (e["k"], e.get("op")) + tuple(subs)


def cond_classes(fn, g):
    """{signature: (locals involved, [(block, polarity)])} for conditions over never-written locals that decide two or more
    branches: on a real path all tests of one class have the same outcome between two declarations of the locals involved"""
    out = {}
    for bid, b in g.blocks.items():
        ss = b.get("succ", [])
        if len(ss) != 2 or ss[0] is None or ss[1] is None or ss[0] == ss[1] or b.get("cond") is None or b.get("termk") == "SwitchStmt":
            continue
        e, pol = peel(fn.byid(b["cond"])), True
        while e is not None and e["k"] == "UnaryOperator" and e.get("op") == "!":
            e, pol = peel(kids(e)[0]), not pol
        dids = set()
        sig = _cond_sig(fn, e, dids) if e is not None else None
        if sig is None or not dids:
            continue
        ent = out.setdefault(sig, (dids, []))
        ent[1].append((bid, pol))
    return {k: v for k, v in out.items() if len(v[1]) > 1}


def analyses(tu, fn, memo, stack=()):
    """the plain analysis and, where the plain one is not exact, one per flag that decides several branches.  Every one of them
    covers all paths of the function, so a shortfall is real only if all of them show it."""
    c = Credit(tu, fn, memo, stack)
    out = [c]
    ex = c.exit
    exact = not c.sat and (ex is None or ex[0] == ex[1]) and all(lo == hi for ev, x, (lo, hi) in c.all_events())
    if not exact:
        for sig, (dids, brs) in sorted(cond_classes(fn, c.g).items(), key=lambda kv: repr(kv[0])):
            decls = [_locals(fn)[d] for d in dids if d in _locals(fn)]
            if all(c.g.pos_deep(v) is not None for v in decls):
                out.append(Credit(tu, fn, memo, stack, (decls, brs)))
    return out


def summary(tu, fn, memo, stack=()):
    if fn.did not in memo:
        cs = analyses(tu, fn, memo, stack)

        def width(c):
            ex = c.exit if c.exit is not None else (0, 0)
            return (c.sat_hi, c.sat, ex[1] - ex[0])
        c = min(cs, key=width)
        need, has_enq, n = 0, False, 0
        for ev, x, (lo, hi) in c.all_events():
            n += 1
            if ev[3]:
                need = max(need, ev[3] - lo)
            if ev[0] == "enqueue" or (len(ev) > 4 and ev[4]["has_enq"]):
                has_enq = True
        ex = c.exit if c.exit is not None else (0, 0)
        memo[fn.did] = dict(trivial=(n == 0), need=need, lo=ex[0], hi=ex[1], has_enq=has_enq, sat=c.sat, sat_hi=c.sat_hi, credit=c, all=cs)
    return memo[fn.did]


def balance(lo, handle):
    if lo >= 1:
        return "on a path to this call only the anonymous handle is open" if handle and lo == 1 else "on a path to this call %d registration(s) are open" % lo
    if lo == 0:
        return "on a path to this call every registration taken so far has already been handed out"
    return "on a path to this call %d more registration(s) were handed out than taken" % -lo


def covered_by_callers(fn, memo, deficit):
    """every call of fn from a member function of the same object happens with at least `deficit` registrations open
    (beyond the caller's anonymous handle); False if there is no such call"""
    me = memo.get(fn.did)
    sites = []
    for s in memo.values():
        cf = s["credit"].fn
        for ev, x, (lo, hi) in s["credit"].all_events():
            if len(ev) > 4 and ev[4] is me:
                sites.append(lo - (1 if cf.name in HANDLE_FNS else 0))
    return bool(sites) and all(a >= deficit for a in sites)


def findings_of(fn, c, memo, handle):
    """[(rule, sig, message, loc, key, definite)]: definite = the shortfall exists on every path to the site, not only on some"""
    keep = 1 if handle else 0          # the anonymous handle must stay open while children are handed out
    out = []
    for ev, x, (lo, hi) in c.all_events():
        kind = ev[0]
        if kind == "enqueue":
            if lo < 1 + keep:
                if not handle and covered_by_callers(fn, memo, 1 - lo):
                    continue        # the registration is taken by every caller before it calls this function
                out.append(("ADD-BEFORE-ENQUEUE", "%s:enqueue" % fn.name,
                            "a child job is enqueued without registering it first (substep_add): it can notify before it is counted and the step "
                            "completes too early (%s)" % balance(lo, handle), fn.nloc(x), ("e", x["id"]), hi < 1 + keep))
        elif kind == "notify":
            if handle and lo < 1:
                out.append(("HANDLE-PAIR", fn.name, "the anonymous handle is not taken once (substep_add) and released once (substep_notify_done): "
                            "on a path to this substep_notify_done() no registration is open any more", fn.nloc(x), ("n<", x["id"]), hi < 1))
            elif handle and hi > 1:
                out.append(("HANDLE-PAIR", fn.name, "the anonymous handle is not taken once (substep_add) and released once (substep_notify_done): "
                            "on a path to this substep_notify_done() %d registrations are open, only one can be the handle" % hi, fn.nloc(x),
                            ("n>", x["id"]), lo > 1))
        elif kind.startswith("call"):
            # what the callee lacks itself is judged at its own enqueue (see covered_by_callers); here: the handle is still open
            if handle and ev[4]["has_enq"] and lo < keep:
                out.append(("HANDLE-PAIR", fn.name + ":order", "the anonymous handle is not released exactly once on every path after the last child "
                            "was enqueued (%s, which enqueues children, is reachable with no handle open)" % kind, fn.nloc(x), ("c", x["id"]), hi < keep))
    if handle:
        ex = c.exit
        if ex is not None and ex[1] > 0 and not any(f[0] == "HANDLE-PAIR" for f in out):
            out.append(("HANDLE-PAIR", fn.name + ":order", "the anonymous handle is not released exactly once on every path after the last child was "
                        "enqueued (a path reaches the end of %s with %d registration(s) still open)" % (fn.name, ex[1]), fn.loc, ("x", 0), ex[0] > 0))
    return out


def check_add_before_enqueue(ck, tu, fn, memo):
    tag = "%s::%s [%s]" % (fn.record.split("::")[-1], fn.name, inst(fn))
    handle = fn.name in HANDLE_FNS
    s = summary(tu, fn, memo)
    c = s["credit"]
    evs = list(c.all_events())
    if not evs and not handle:
        return
    n_enq = sum(1 for ev, x, st in evs if ev[0] == "enqueue")
    # every analysis covers all paths: a shortfall is real only if each of them shows it
    per = [findings_of(fn, a, memo, handle) for a in s["all"]]
    keys = set(f[4] for f in per[0])
    for fs in per[1:]:
        keys &= set(f[4] for f in fs)
    findings = [f for f in per[0] if f[4] in keys]
    if handle and not findings and not any(ev[0] in ("add", "notify") or ev[0].startswith("call") for ev, x, st in evs):
        raise Undecidable("%s: %s neither takes nor releases the anonymous handle in a recognised form" % (fn.loc, fn.name))

    def sat_hi(a):
        return a.sat_hi or any(ev[0].startswith("call") and ev[4]["sat_hi"] for ev, x, st in a.all_events())
    if (findings or handle) and all(sat_hi(a) for a in s["all"]):
        raise Undecidable("%s: the number of open registrations in %s is not loop-invariant (registrations and enqueues are not paired within "
                          "one iteration); the balance cannot be counted" % (fn.loc, fn.name))
    seen = set()
    for rule, sig, msg, loc, key, definite in findings:
        if (rule, sig) in seen:
            continue
        seen.add((rule, sig))
        ck.violation(rule, fn.qname, sig, msg, loc)
    if not findings and (n_enq or handle):
        ck.ok("ADD-BEFORE-ENQUEUE", tag, "%d child enqueues, each with a registration (substep_add) of its own open on every path" % n_enq, nontrivial=bool(n_enq))
        if handle:
            ck.ok("HANDLE-PAIR", tag, "anonymous handle taken first and released once after the last enqueue")


# ---------------------------------------------------------------------------------------------- RMW-RESULT
def check_rmw(ck, tu):
    n = 0
    insts, decided = set(), set()
    for fn in tu.functions:
        if not fn.record or not (fn.record.startswith(BIG) or fn.record.startswith(STEP)) or fn.body is None:
            continue
        for x in fn.nodes():
            r = atomic_rmw(fn, x)
            if not r or r[0] not in ("pwork_", "substep_working_"):
                continue
            f, sign, kind, amount, order = r
            if sign == "-":
                decided.add((fn.record, tuple(fn.rtargs or []), f))
                if amount is None:
                    raise Undecidable("%s: %s is decremented by an amount that is not a constant" % (fn.nloc(x), f))
                # the decision must be the result of this RMW
                ru = ResultUse(fn, x)
                v = ru.verdict(last_value(kind, amount))
                if isinstance(v, tuple):
                    raise Undecidable("%s: the result of the decrement of %s is used in a form that is not understood (%s)" % (v[2].nloc(v[1]), f, v[1]["k"]))
                if v != "decided":
                    # positive: the value is discarded, or every condition built from it behaves the same for the last job and for another one
                    ck.violation("RMW-RESULT", fn.qname, "%s:%s" % (fn.name, f), "the completion decision on %s does not use the result of its own atomic decrement" % f, fn.nloc(x))
                    continue
                if order is None:
                    raise Undecidable("%s: the memory order of the decrement of %s is not a constant" % (fn.nloc(x), f))
                if order < 4:
                    ck.violation("RMW-RESULT", fn.qname, "%s:%s:order" % (fn.name, f),
                                 "the decrement of %s uses memory order %s: the last decrementer must acquire what the other jobs released (needs acq_rel or stronger)"
                                 % (f, ORDER.get(order, "?")), fn.nloc(x))
                    continue
                n += 1
                ck.ok("RMW-RESULT", "%s::%s %s [%s]" % (fn.record.split("::")[-1], fn.name, f, inst(fn) if fn.rtargs else "-"), "decision = result of the atomic decrement (order %s)" % ORDER.get(order))
            else:
                if order is None:
                    raise Undecidable("%s: the memory order of the increment of %s is not a constant" % (fn.nloc(x), f))
                if order < 3 and f == "substep_working_":
                    ck.violation("RMW-RESULT", fn.qname, "%s:%s:order" % (fn.name, f),
                                 "the increment of %s uses memory order %s (needs release or stronger: the registration must be visible before the job is)" % (f, ORDER.get(order, "?")), fn.nloc(x))
                else:
                    ck.ok("RMW-RESULT", "%s::%s ++%s" % (fn.record.split("::")[-1], fn.name, f), "atomic increment", nontrivial=False)
    # per class instance (not per function: a shared helper may hold the one decrement of both phases)
    for fn in tu.functions:
        if fn.record == BIG and fn.body is not None:
            insts.add((fn.record, tuple(fn.rtargs or []), "pwork_"))
    missing = [i for i in insts if i not in decided]
    ck.require(len(insts) >= 4 and not missing, "no decrement of pwork_ found in %d of %d instances of PS5BigSortStep" % (len(missing), len(insts)))
    ck.require(any(d[2] == "substep_working_" for d in decided), "decrement of substep_working_ not found")
    return n


# ---------------------------------------------------------------------------------------------- PHASE-ARM
def pwork_stores(fn):
    """[(node, value expr)] of the stores to pwork_:  pwork_ = v  |  pwork_.store(v[, order])"""
    out = []
    for x in fn.nodes():
        if "callee" in x and x.get("op") == "=" and len(kids(x)) == 2 and field_r(fn, kids(x)[0]) == "pwork_":
            out.append((x, kids(x)[1]))
        elif "callee" in x and x.get("member_call") and x["callee"]["name"] == "store" and len(kids(x)) >= 2 and field_r(fn, kids(x)[0]) == "pwork_":
            out.append((x, kids(x)[1]))
        elif x["k"] == "BinaryOperator" and x.get("op") == "=" and field_r(fn, kids(x)[0]) == "pwork_":
            out.append((x, kids(x)[1]))
    return out


def pwork_unknown_ops(fn, stores):
    """operations on pwork_ that are neither a store, a recognised RMW nor a plain load"""
    known = set(id(s) for s, v in stores)
    out = []
    for x in fn.nodes():
        if x["k"] != "MemberExpr" or x.get("member") != "pwork_" or not this_member_access(x):
            continue
        e, par = x, fn.parent(x)
        while par is not None and par["k"] in WRAPPERS:
            e, par = par, fn.parent(par)
        if par is None:
            continue
        if id(par) in known or atomic_rmw(fn, par):
            continue
        if "callee" in par and par.get("member_call") and kids(par)[0] is e and par["callee"]["name"] in ("load", "operator unsigned long", "operator size_t"):
            continue
        if "callee" in par and par["callee"]["name"].startswith("operator ") and kids(par)[0] is e:
            continue      # conversion operator: a load
        if par["k"] == "VarDecl" and (par.get("isref") or (par.get("ty") or "").strip().endswith("&")):
            continue      # a reference alias: resolved at its uses
        if par["k"] in ("BinaryOperator",) and par.get("op") in ("==", "!=", "<", ">", "<=", ">="):
            continue
        out.append(par)
    return out


def value_key(fn, e, depth=0):
    """canonical (base, offset) of an integer expression: base ('field', name) | ('local', did) | ('param', did) | None for a constant;
    never-written locals stand for their initialiser (or for themselves when that is not of this form)"""
    e = peel(e)
    if e is None or depth > 8:
        return None
    c = const_int(e)
    if c is not None:
        return (None, c)
    f = match.this_field(e)
    if f:
        return (("field", f), 0)
    if e["k"] == "DeclRefExpr":
        did = e["ref"]["id"]
        v = stable_local(fn, did)
        if v is not None:
            k = value_key(fn, kids(v)[0], depth + 1)
            return k if k is not None else (("local", did), 0)
        if did not in _locals(fn) and _never_written(fn, did):
            return (("param", did), 0)
        return None
    b = match.binop(e, ("+", "-")) if e["k"] == "BinaryOperator" else None
    if b:
        l, r = value_key(fn, b[1], depth + 1), value_key(fn, b[2], depth + 1)
        if l is None or r is None:
            return None
        if r[0] is None:
            return (l[0], l[1] + r[1] if b[0] == "+" else l[1] - r[1])
        if l[0] is None and b[0] == "+":
            return (r[0], l[1] + r[1])
    return None


def show_key(k):
    if k is None:
        return "?"
    base, off = k
    if base is None:
        return str(off)
    s = base[1] if base[0] == "field" else "local#%s" % base[1]
    return s if not off else "%s%+d" % (s, off)


def step_of(fn, n, did):
    """+1 / -1 if n changes the local `did` by one: ++i i++ i += 1 i = i + 1 (and the mirror images), else None"""
    u = match.unop(n, ("++", "--")) if n is not None and n["k"] == "UnaryOperator" else None
    if u and ref_of(u[1]) == did:
        return 1 if u[0] == "++" else -1
    b = match.binop(n, ("+=", "-=")) if n is not None and n["k"] == "CompoundAssignOperator" else None
    if b and ref_of(b[1]) == did and const_int(b[2]) == 1:
        return 1 if b[0] == "+=" else -1
    b = match.binop(n, ("=",)) if n is not None and n["k"] == "BinaryOperator" else None
    if b and ref_of(b[1]) == did:
        r = match.binop(peel(b[2]), ("+", "-"))
        if r and ref_of(r[1]) == did and const_int(r[2]) == 1:
            return 1 if r[0] == "+" else -1
        if r and r[0] == "+" and ref_of(r[2]) == did and const_int(r[1]) == 1:
            return 1
    return None


_NEG = {"<": ">=", ">": "<=", "<=": ">", ">=": "<", "==": "!=", "!=": "=="}
_MIRROR = {"<": ">", ">": "<", "<=": ">=", ">=": "<=", "==": "==", "!=": "!="}
JUMPS = ("BreakStmt", "ContinueStmt", "ReturnStmt", "GotoStmt", "CXXThrowExpr", "CoreturnStmt")


def comparison(e, negate=False):
    """(op, lhs, rhs) of a comparison, through ! and parentheses; with negate: of its negation"""
    e = peel(e)
    while e is not None and e["k"] == "UnaryOperator" and e.get("op") == "!" and match.binop(e, ("==", "!=")) is None:
        e, negate = peel(kids(e)[0]), not negate
    c = match.binop(e, tuple(_NEG)) if e is not None else None
    if not c:
        return None
    return (_NEG[c[0]] if negate else c[0], c[1], c[2])


def exit_test_first(body):
    """(condition, break statement) when the loop body starts with `if (C) break;` (no else), else None"""
    if body is None or body["k"] != "CompoundStmt" or not kids(body):
        return None
    s = kids(body)[0]
    if s is None or s["k"] != "IfStmt" or s.get("init") or s.get("condvar"):
        return None
    ks = [k for k in kids(s)]
    if len(ks) < 2 or (len(ks) > 2 and ks[2] is not None):
        return None
    th = ks[1]
    while th is not None and th["k"] == "CompoundStmt" and len(kids(th)) == 1:
        th = kids(th)[0]
    if th is None or th["k"] != "BreakStmt":
        return None
    return ks[0], th


def field_at_least_one(fn, fname):
    """reason (str) why the member `fname` of *this cannot be shown to be >= 1 whenever a member function runs, or None when it is shown:
    the member is unsigned, every constructor of this instance leaves it non-zero on every path (branch on a comparison with a constant,
    store of a non-zero constant), and nothing else in the translation unit writes it"""
    tu = fn.tu
    recs = [r for r in tu.records if r.get("qname") == fn.record and (r.get("targs") or []) == (fn.rtargs or [])]
    fld = [f for r in recs for f in r.get("fields", []) if f.get("name") == fname and "mid" in f]
    if len(fld) != 1:
        return "the member %s is not found in the class of %s" % (fname, fn.name)
    mid, ty = fld[0]["mid"], (fld[0].get("ty") or "")
    if not (ty.startswith("unsigned ") or ty in ("size_t", "std::size_t")) or "*" in ty or "&" in ty:
        return "%s is not an unsigned integer (%s)" % (fname, ty)

    def is_f(x):
        x = peel(x)
        return x is not None and x["k"] == "MemberExpr" and x.get("mid") == mid

    ctors = []
    for f2 in tu.functions:
        if f2.body is None:
            continue
        own_ctor = f2.kind == "ctor" and f2.record == fn.record and (f2.rtargs or []) == (fn.rtargs or [])
        if own_ctor:
            ctors.append(f2)
            continue
        for x in f2.nodes():
            if x["k"] == "MemberExpr" and x.get("mid") == mid and _is_write(f2, x):
                return "%s is written in %s (%s)" % (fname, f2.name, f2.nloc(x))
    if not ctors:
        return "no constructor of %s is seen" % fn.record.split("::")[-1]

    def at_zero(e):
        """truth value of the condition e when the member is 0; None if e is not a test of the member against a constant"""
        e = peel(e)
        if e is None:
            return None
        if e["k"] == "UnaryOperator" and e.get("op") == "!" and match.binop(e, ("==", "!=")) is None:
            v = at_zero(kids(e)[0])
            return None if v is None else (not v)
        if is_f(e):
            return False
        c = match.binop(e, ("==", "!=", "<", ">", "<=", ">="))
        if c:
            for a, b, flip in ((c[1], c[2], False), (c[2], c[1], True)):
                k = const_int(peel(b)) if peel(b) is not None else None
                if k is None:
                    k = const_int(b)
                if is_f(a) and k is not None:
                    return _CMP[c[0]](k, 0) if flip else _CMP[c[0]](0, k)
        return None

    for c in ctors:
        if not c.cfg:
            return "the constructor has no CFG"
        g = cfgm.CFG(c)
        eff = {}
        for x in c.nodes():
            if x["k"] == "MemberExpr" and x.get("mid") == mid and _is_write(c, x):
                e, par = x, c.parent(x)
                while par is not None and par["k"] in WRAPPERS:
                    e, par = par, c.parent(par)
                if par is None or g.pos(par) is None:
                    return "%s: a write of %s has no position in the constructor's CFG" % (c.nloc(x), fname)
                k = None
                if par["k"] == "BinaryOperator" and par.get("op") == "=" and kids(par)[0] is e:
                    k = const_int(peel(kids(par)[1]))
                    if k is None:
                        k = const_int(kids(par)[1])
                eff[par["id"]] = "gen" if k else "kill"
        mf = mustfact.MustFact(c, g, lambda cond, truth: (lambda v: v is not None and v != truth)(at_zero(cond)), lambda n: eff.get(n["id"]))
        if not mf.inn.get(g.exit):
            return "%s: a path through the constructor is not seen to leave %s non-zero" % (c.loc, fname)
    return None


def trip_count(fn, g, lp, e):
    """value_key of the number of times the call e runs in loop lp, for counting loops whose every iteration runs e once:
    for/while (i = c0; i < B | i != B | B > i | B != i; ++i), the count-down mirror (i = B; i > c | i != c; --i), the same with the exit
    test written as a leading `if (!cond) break;` of an endless loop, and do { .. } while (cond) / while (++i < B) when the count is
    shown to be at least one.  Raises Undecidable with the reason when the loop is of another form."""
    loc = fn.nloc(lp)
    init, cond, inc, body = match.loop_parts(lp)
    is_do = lp["k"] == "DoStmt"
    # e runs exactly once per iteration: no branching statement between the loop body and e, no jump statement in the body
    par = fn.parent(e)
    while par is not None and par is not lp:
        if par["k"] in ("IfStmt", "ForStmt", "WhileStmt", "DoStmt", "SwitchStmt", "ConditionalOperator", "CXXForRangeStmt", "CXXTryStmt") or \
                (par["k"] == "BinaryOperator" and par.get("op") in ("&&", "||")):
            raise Undecidable("%s: the job is enqueued conditionally inside the loop; the number of jobs is not derived" % fn.nloc(e))
        par = fn.parent(par)
    c, exit_break = None, None
    if not is_do and (cond is None or (const_int(peel(cond)) or const_int(cond))):
        # an endless loop that is left by a test at the start of its body
        et = exit_test_first(body)
        if et is None:
            raise Undecidable("%s: the enqueuing loop has no condition and does not start with `if (..) break;`" % loc)
        c, exit_break = comparison(et[0], negate=True), et[1]
    elif cond is not None:
        c = comparison(cond)
    if any(z["k"] in JUMPS and z is not exit_break for z in ir.walk(body)):
        raise Undecidable("%s: the enqueuing loop contains a jump statement; the number of jobs is not derived" % loc)
    if not c or c[0] not in ("<", ">", "!=", "<=", ">="):
        raise Undecidable("%s: the condition of the enqueuing loop is not a comparison of the counter with a bound" % loc)
    for ctr_side, bnd_side, op in ((c[1], c[2], c[0]), (c[2], c[1], _MIRROR[c[0]])):
        # do { } while (++i < B): the step is the counter side of the condition and yields the new value
        in_cond_step = None
        if is_do:
            u = match.unop(peel(ctr_side), ("++", "--")) if peel(ctr_side) is not None and peel(ctr_side)["k"] == "UnaryOperator" else None
            if u and not u[2]:
                in_cond_step, ctr_side = peel(ctr_side), u[1]
        did = ref_of(ctr_side)
        v = _locals(fn).get(did) if did is not None else None
        if v is None:
            continue
        # all writes of the counter: its initialiser and exactly one step per iteration
        writes = [u for u in uses_of(fn, did) if _is_write(fn, u)]
        steps = []
        for u in writes:
            p = fn.parent(u)
            while p is not None and p["k"] in WRAPPERS:
                p = fn.parent(p)
            if p is not None and p["k"] in ("BinaryOperator", "CompoundAssignOperator") and p.get("op") == "=" and init is not None and any(z is p for z in ir.walk(init)):
                continue
            steps.append(p)
        if len(steps) != 1 or step_of(fn, steps[0], did) is None:
            continue
        st = step_of(fn, steps[0], did)
        sp = steps[0]
        in_inc = inc is not None and any(z is sp for z in ir.walk(inc))
        in_body_top = body is not None and ((body["k"] == "CompoundStmt" and any(k is sp for k in kids(body))) or body is sp)
        if not (in_inc or in_body_top or sp is in_cond_step):
            continue
        if in_cond_step is not None and sp is not in_cond_step:
            continue
        # the counter is a local of this function that no lambda captures by reference
        if did in fn._c04_captured:
            continue
        # start value
        start = None
        if kids(v) and kids(v)[0] is not None:
            start = value_key(fn, kids(v)[0])
        if init is not None and init["k"] in ("BinaryOperator",) and init.get("op") == "=" and ref_of(kids(init)[0]) == did:
            start = value_key(fn, kids(init)[1])
        # (a counter declared before the loop: nothing writes it in between, only the one step exists - checked above)
        bound = value_key(fn, bnd_side)
        if start is None or bound is None:
            raise Undecidable("%s: start value or bound of the enqueuing loop is not understood" % loc)
        cnt = None
        if st == 1 and op in ("<", "!="):
            if start[0] is not None:
                raise Undecidable("%s: the enqueuing loop does not start at a constant" % loc)
            cnt = (bound[0], bound[1] - start[1])
        elif st == 1 and op == "<=" and bound[1] >= 0:
            # i <= B runs for i = c0 .. B  (B is not written as `x - k`: no wrap-around of an unsigned bound)
            if start[0] is not None:
                raise Undecidable("%s: the enqueuing loop does not start at a constant" % loc)
            cnt = (bound[0], bound[1] + 1 - start[1])
        elif st == -1 and op in (">", "!="):
            if bound[0] is not None:
                raise Undecidable("%s: the counting-down enqueuing loop does not end at a constant" % loc)
            cnt = (start[0], start[1] - bound[1])
        if cnt is None:
            continue
        if is_do:
            # the body runs before the first test: max(1, count) times (with != : the counter would run past the bound)
            if cnt[0] is None:
                if cnt[1] < 1:
                    raise Undecidable("%s: the do-while loop enqueues a job although the count is %d" % (loc, cnt[1]))
            elif cnt[0][0] == "field" and cnt[1] >= 0:
                why = field_at_least_one(fn, cnt[0][1])
                if why is not None:
                    raise Undecidable("%s: a do-while loop enqueues at least one job; that %s >= 1 is not established (%s)" % (loc, show_key(cnt), why))
            else:
                raise Undecidable("%s: a do-while loop enqueues at least one job; that %s >= 1 is not established" % (loc, show_key(cnt)))
        return cnt
    raise Undecidable("%s: the enqueuing loop is not a counting loop of a recognised form (counter, bound, single step)" % loc)


def check_phase_arm(ck, tu, fn):
    """pwork_ = parts_ is stored before the first job of the phase is enqueued"""
    g = cfgm.CFG(fn)
    tag = "%s::%s [%s]" % (fn.record.split("::")[-1], fn.name, inst(fn))
    enq = [x for x in fn.nodes() if pool_enqueue(x)]
    stores = pwork_stores(fn)
    if not enq or not (fn.name in ("sample", "count_finished") or stores):
        return
    for e in enq:
        if g.pos(e) is None:
            raise Undecidable("%s: enqueue has no position in the CFG" % fn.nloc(e))
    unknown = pwork_unknown_ops(fn, stores)
    # member functions called on this that store pwork_ themselves
    helper_arms = []
    for x in fn.nodes():
        if "callee" in x and x.get("member_call") and kids(x) and strip_casts(kids(x)[0])["k"] == "This":
            cal = tu.by_did.get(x["callee"].get("did"))
            if cal is not None and cal.body is not None and pwork_stores(cal):
                helper_arms.append(x)
    arm_pos = []
    for s, v in stores:
        p = g.pos_deep(s)
        if p is None:
            raise Undecidable("%s: store to pwork_ has no position in the CFG" % fn.nloc(s))
        arm_pos.append(p)
    arm_pos += [g.pos(h) for h in helper_arms if g.pos(h)]
    for e in enq:
        if g.path_from_entry_avoiding(g.pos(e), arm_pos) is not None:
            if unknown:
                raise Undecidable("%s: pwork_ is used in a form that is not understood (%s); it may be the arming store" % (fn.nloc(unknown[0]), unknown[0]["k"]))
            ck.violation("PHASE-ARM", fn.qname, fn.name, "the phase counter pwork_ is not set before the first job that decrements it is enqueued "
                         "(a path reaches this enqueue without passing a store to pwork_)", fn.nloc(e))
            return
    if helper_arms:
        raise Undecidable("%s: pwork_ is armed inside %s(); the armed value is not compared with the number of jobs" % (fn.nloc(helper_arms[0]), helper_arms[0]["callee"]["name"]))
    # no member that takes part in the comparison is written in this function
    written = set()
    for x in fn.nodes():
        if this_member_access(x) and _is_write(fn, x):
            written.add(x["member"])
    # the loop enqueues exactly as many jobs as the counter was armed with
    counts = []
    for e in enq:
        lp = fn.parent(e)
        while lp is not None and lp["k"] not in ("ForStmt", "WhileStmt", "DoStmt", "CXXForRangeStmt"):
            lp = fn.parent(lp)
        if lp is None:
            raise Undecidable("%s: the phase's jobs are not enqueued by a loop; their number is not derived" % fn.nloc(e))
        if lp["k"] == "CXXForRangeStmt":
            raise Undecidable("%s: the jobs are enqueued by a range-for loop; its trip count is not derived" % fn.nloc(lp))
        counts.append((e, trip_count(fn, g, lp, e)))
    if len(enq) > 1:
        raise Undecidable("%s: the phase's jobs are enqueued at %d places; their total is not derived" % (fn.nloc(enq[1]), len(enq)))
    e, cnt = counts[0]
    for s, v in stores:
        if not (g.pos_deep(s) and (g.dominates(g.pos_deep(s), g.pos(e)) or g.reachable(g.pos_deep(s), g.pos(e)))):
            continue
        av = value_key(fn, v)
        if av is None:
            raise Undecidable("%s: the value pwork_ is armed with is not understood (%s)" % (fn.nloc(s), dtable.describe(v)))
        for k in (av, cnt):
            if k[0] is not None and k[0][0] == "field" and k[0][1] in written:
                raise Undecidable("%s: %s is written in %s; the armed value and the loop bound may differ" % (fn.loc, k[0][1], fn.name))
        if av != cnt:
            definite = av[0] == cnt[0] or all(k[0] is None or k[0][0] == "field" for k in (av, cnt))
            if not definite:
                raise Undecidable("%s: pwork_ is armed with %s, the loop enqueues %s jobs; whether these are equal is not known" % (fn.nloc(s), show_key(av), show_key(cnt)))
            if cnt == (("field", "parts_"), 0):
                ck.violation("PHASE-ARM", fn.qname, fn.name + ":value", "pwork_ is armed with %s, the loop enqueues parts_ jobs" % dtable.describe(v), fn.nloc(s))
            else:
                ck.violation("PHASE-ARM", fn.qname, fn.name + ":count", "the number of enqueued jobs is not the number the phase counter was armed with "
                             "(armed with %s, the loop enqueues %s jobs)" % (show_key(av), show_key(cnt)), fn.nloc(e))
            return
    ck.ok("PHASE-ARM", tag, "pwork_ = %s is stored on every path before the loop that enqueues %s jobs" % (show_key(cnt), show_key(cnt)))


# ---------------------------------------------------------------------------------------------- COMPLETION-BARRIER
POOL_KNOWN = ("enqueue", "loop_until_empty", "size", "idle", "has_idle", "done", "thread")


def waits(tu, fn, memo, depth=0):
    """'must': every path through the function passes ThreadPool::loop_until_empty() (directly or in a callee whose body is in
    this TU); 'may': some call of it exists; 'no'"""
    if fn.did in memo:
        return memo[fn.did]
    memo[fn.did] = "no"
    r = "no"
    if fn.body is not None and fn.cfg and depth < 6:
        g = cfgm.CFG(fn)
        pos, some = [], False
        for x in fn.nodes():
            if "callee" not in x:
                continue
            w = "no"
            if x["callee"]["name"] == "loop_until_empty":
                w = "must"
            else:
                cal = tu.by_did.get(x["callee"].get("did"))
                if cal is not None and cal is not fn:
                    w = waits(tu, cal, memo, depth + 1)
            if w != "no":
                some = True
            if w == "must" and g.pos(x) is not None:
                pos.append(g.pos(x))
        if pos and g.path_avoiding((g.entry, -1), pos) is None:
            r = "must"
        elif some:
            r = "may"
    memo[fn.did] = r
    return r


def check_completion(ck, tu):
    memo = {}
    for fn in tu.some(qname=NS + "parallel_sample_sort_base"):
        g = cfgm.CFG(fn)
        enq = [x for x in fn.nodes() if ctx_enqueue(x)]
        if not enq:
            raise Undecidable("%s: the root job's ctx.enqueue() is not found in parallel_sample_sort_base" % fn.loc)
        direct, helpers, maybe = [], [], []
        for x in fn.nodes():
            if "callee" not in x:
                continue
            if x["callee"]["name"] == "loop_until_empty":
                direct.append(x)
                continue
            cal = tu.by_did.get(x["callee"].get("did"))
            if cal is not None and cal.body is not None and not ctx_enqueue(x):
                w = waits(tu, cal, memo)
                if w == "must":
                    helpers.append(x)
                elif w == "may":
                    maybe.append(x)
        wpos = [g.pos(w) for w in direct + helpers]
        if any(p is None for p in wpos) or any(g.pos(e) is None for e in enq):
            raise Undecidable("%s: enqueue / wait has no position in the CFG" % fn.loc)
        tag = "parallel_sample_sort_base [%s]" % ("lcp" if len(fn.targs) > 1 and "Lcp" in fn.targs[1] else "nolcp")
        for e in enq:
            if g.path_avoiding(g.pos(e), wpos) is None:
                continue
            # closed world: everything that receives the pool (or the whole context) after the enqueue is a known operation
            seen = reach_after(g, g.pos(e))
            for x in maybe:
                if g.pos(x) and reaches(g, g.pos(e), g.pos(x), seen):
                    raise Undecidable("%s: %s() waits for the pool on some of its paths only; whether it does here is not known" % (fn.nloc(x), x["callee"]["name"]))
            for x in fn.nodes():
                if "callee" not in x or x is e or not g.pos(x) or not reaches(g, g.pos(e), g.pos(x), seen):
                    continue
                for a in kids(x):
                    ra = resolve(fn, a)
                    if ra is None:
                        continue
                    is_pool = "ThreadPool" in (ra.get("ty") or "") and ra["k"] in ("MemberExpr", "DeclRefExpr")
                    is_ctx = ra["k"] == "DeclRefExpr" and "PS5Context" in (ra.get("ty") or "")
                    if (is_pool or is_ctx) and x["callee"]["name"] not in POOL_KNOWN and not ctx_enqueue(x) and tu.by_did.get(x["callee"].get("did")) is None:
                        raise Undecidable("%s: %s() receives the thread pool / context after the root job was enqueued; whether it waits for the pool "
                                          "to drain is not known" % (fn.nloc(x), x["callee"]["name"]))
            ck.violation("COMPLETION-BARRIER", fn.qname, "base", "the sort returns (destroying the context and the shadow array) without waiting for the pool to drain "
                         "(a path from the enqueue of the root job to the end passes no loop_until_empty())", fn.loc)
            break
        else:
            ck.ok("COMPLETION-BARRIER", tag, "root job enqueued, then loop_until_empty() on every path before the context is destroyed")


# ---------------------------------------------------------------------------------------------- COPY-BACK
def check_copy_back(ck, tu):
    for fn in tu.some(qname=SMALL + "::insertion_sort_cache"):
        g = cfgm.CFG(fn)
        if not fn.params:
            raise Undecidable("%s: insertion_sort_cache has no parameter" % fn.loc)
        pd = fn.params[0]["did"]

        def is_p(e):
            r = resolve(fn, e)
            return r is not None and r["k"] == "DeclRefExpr" and r["ref"]["id"] == pd
        cb = [x for x in fn.nodes() if "callee" in x and x["callee"]["name"] == "copy_back" and kids(x) and is_p(kids(x)[0])]
        rets = [x for x in fn.nodes() if x["k"] == "ReturnStmt"]
        tag = "insertion_sort_cache<%s> [%s]" % (fn.targs[0] if fn.targs else "", inst(fn))
        pos = [g.pos(c) for c in cb]
        if any(p is None for p in pos):
            raise Undecidable("%s: copy_back() call has no position in the CFG" % fn.loc)
        if g.path_avoiding((g.entry, -1), pos) is None:
            ck.ok("COPY-BACK", tag, "copy_back() of the (possibly flipped) input on every path, %d returns" % len(rets))
            continue
        # closed world: the input pointer is not handed to anything else that could do the copying
        for x in fn.nodes():
            if "callee" not in x or any(x is c for c in cb):
                continue
            args = kids(x)[1:] if x.get("member_call") else kids(x)
            for a in args:
                if is_p(a):
                    cal = tu.by_did.get(x["callee"].get("did"))
                    if cal is None or cal.body is None or any("callee" in z and z["callee"]["name"] == "copy_back" for z in cal.nodes()):
                        raise Undecidable("%s: the input pointer is handed to %s(); whether that copies the bucket back is not known" % (fn.nloc(x), x["callee"]["name"]))
        ck.violation("COPY-BACK", fn.qname, "insertion_sort_cache", "there is a return path that skips copy_back(): a bucket living in the shadow array is never moved back "
                     "to the caller's array", fn.loc)


# ---------------------------------------------------------------------------------------------- COPY-BACK where a range is reported finished
# ctx.donesize(n) reports n strings as finished: they must be in the caller's array.  A range that is handed on (ctx.enqueue, a sorter that
# reports it itself, a stack of steps) is the receiver's business; a range that is reported here must have passed copy_back() - directly, or
# inside a callee that copies back on every one of its paths - since the iteration of the enclosing loop began / since the previous report.
# member functions of the shadow pointer that neither move strings between the two arrays nor expose them
SHADOW_NOOP = ("size", "empty", "sub", "flip", "fill_lcp", "set_lcp", "get_lcp", "lcp", "check", "operator=")
# the code tells the two arrays apart / reaches the strings itself: a copy written by hand, or a copy_back() only where flipped() holds, is not recognised
SHADOW_RAW = ("active", "shadow", "flipped")
# containers of steps: the range is stored for a later iteration
STORE_KNOWN = ("emplace_back", "push_back")


def is_copy_back(x):
    return "callee" in x and x["callee"]["name"] == "copy_back" and x.get("member_call") and "StringShadow" in (x["callee"].get("record") or "")


def is_donesize(x):
    return "callee" in x and x["callee"]["name"] == "donesize" and x.get("member_call") and "PS5Context" in (x["callee"].get("record") or "")


def shadow_typed(n):
    """the node / parameter is a shadow pointer itself (or a reference / pointer to one)"""
    t = (n.get("ty") or "").strip() if n is not None else ""
    while t.startswith("const "):
        t = t[6:]
    return t.startswith(NS + "StringShadow")


def holds_shadow(n):
    """the type mentions a shadow pointer: a step, a container of steps"""
    return n is not None and "StringShadow" in (n.get("ty") or "")


def flipped_polarity(fn, cond, depth=0):
    """True: cond <=> X.flipped() for a shadow pointer X; False: cond <=> !X.flipped(); None: something else"""
    e = resolve(fn, cond)
    if e is None or depth > 6:
        return None
    if e["k"] == "UnaryOperator" and e.get("op") == "!":
        r = flipped_polarity(fn, kids(e)[0], depth + 1)
        return None if r is None else (not r)
    if "callee" in e and e.get("member_call") and e["callee"]["name"] == "flipped" and kids(e) and shadow_typed(peel(kids(e)[0])):
        return True
    b = match.binop(e, ("==", "!="))
    if b:
        for s_, o in ((b[1], b[2]), (b[2], b[1])):
            cv = const_int(o)
            r = flipped_polarity(fn, s_, depth + 1)
            if cv is not None and r is not None:
                return (r == bool(cv)) if b[0] == "==" else (r != bool(cv))
    return None


def finishes(tu, fn, memo):
    """'must': every path through fn passes copy_back() of a shadow pointer (directly or in a callee that does on every path);
    'may': some path does / a call is not followed; 'no': nothing reachable from fn copies back.  Jobs handed to the pool run later: not followed."""
    if fn.did in memo:
        return memo[fn.did]
    memo[fn.did] = "may"             # a recursion is not followed
    r = "no"
    if fn.body is not None:
        g = cfgm.CFG(fn) if fn.cfg else None
        pos, some = [], False
        for x in fn.nodes():
            if "callee" not in x or ctx_enqueue(x) or pool_enqueue(x):
                continue
            w = "no"
            if is_copy_back(x):
                w = "must"
            else:
                cal = tu.by_did.get(x["callee"].get("did"))
                if cal is not None and cal is not fn and cal.body is not None:
                    w = finishes(tu, cal, memo)
                elif cal is fn:
                    w = "may"
            if w != "no":
                some = True
            if w == "must" and g is not None and g.pos(x) is not None:
                pos.append(g.pos(x))
        if pos and g.path_avoiding((g.entry, -1), pos) is None:
            r = "must"
        elif some:
            r = "may"
    memo[fn.did] = r
    return r


def _pgraph(g):
    """successor / predecessor relation on positions; (b, -1) stands for the entry of block b"""
    succ, pred = {}, {}
    for b in g.blocks:
        n = len(g.elements(b))
        for i in range(-1, n):
            succ[(b, i)] = [(b, i + 1)] if i + 1 < n else [(s, -1) for s in g.succ[b]]
    for p, ss in succ.items():
        for s in ss:
            pred.setdefault(s, []).append(p)
    return succ, pred


def loop_heads_around(g, blk):
    """header blocks of the natural loops (back edge u -> v, v dominates u) that contain block blk"""
    dom = g.dom()
    out = set()
    for u in g.blocks:
        for v in g.succ[u]:
            if u in dom and v in dom[u]:
                body, work = {v}, [u]
                while work:
                    b = work.pop()
                    if b in body:
                        continue
                    body.add(b)
                    work.extend(g.pred[b])
                if blk in body:
                    out.add(v)
    return out


def check_finished_ranges(ck, tu, fn, memo):
    dones = [x for x in fn.nodes() if is_donesize(x)]
    if not dones:
        return 0
    if fn.kind == "lambda" or not fn.cfg:
        raise Undecidable("%s: a range is reported finished (donesize) in a function whose paths are not followed" % fn.nloc(dones[0]))
    g = cfgm.CFG(fn)
    tag = "%s::%s [%s]" % ((fn.record or "").split("::")[-1], fn.name, inst(fn) if fn.rtargs else "-")
    gens, maybes = {}, {}
    # a branch taken only where X.flipped() is false: the range X is in the caller's array already
    home_edges, tested = set(), set()
    for bid, b in g.blocks.items():
        ss = b.get("succ", [])
        if len(ss) == 2 and ss[0] is not None and ss[1] is not None and ss[0] != ss[1] and b.get("cond") is not None and b.get("termk") != "SwitchStmt":
            cn = fn.byid(b["cond"])
            pol = flipped_polarity(fn, cn) if cn is not None else None
            if pol is not None:
                home_edges.add((bid, ss[1] if pol else ss[0]))
                tested.update(z["id"] for z in ir.walk(cn))
    for x in fn.nodes():
        if "callee" not in x or is_donesize(x) or ctx_enqueue(x) or pool_enqueue(x) or x["id"] in tested:
            continue
        p = g.pos(x)
        if is_copy_back(x):
            w = "must"
        else:
            cal = tu.by_did.get(x["callee"].get("did"))
            nm = x["callee"]["name"]
            on_shadow = x.get("member_call") and kids(x) and shadow_typed(peel(kids(x)[0]))
            gets_shadow = any(shadow_typed(peel(a)) for a in kids(x) if a is not None)
            if cal is fn:
                w = "may"
            elif on_shadow and nm in SHADOW_RAW:
                w = "may"
            elif x["k"] in ("CXXConstructExpr", "CXXTemporaryObjectExpr") and shadow_typed(x) and (cal is None or cal.body is None):
                w = "no"            # copying the pointer object moves no strings
            elif cal is not None and cal.body is not None:
                w = finishes(tu, cal, memo)
            elif on_shadow and nm in SHADOW_NOOP:
                w = "no"
            elif gets_shadow and x.get("member_call") and nm in STORE_KNOWN:
                # the element is built by a constructor of a step class that takes the range: followed
                ws = [finishes(tu, c, memo) for c in tu.functions if c.kind == "ctor" and c.body is not None and c.record not in (BIG, SMALL)
                      and "StringShadow" not in (c.record or "") and any(shadow_typed(p) for p in c.params)]
                w = "no" if all(v == "no" for v in ws) else "may"
            elif gets_shadow:
                w = "may"           # an unknown function receives the range
            elif any(holds_shadow(peel(a)) for a in kids(x) if a is not None) and not (x["callee"].get("qname") or "").startswith("std::"):
                w = "may"           # an unknown function outside the standard library receives a step
            else:
                w = "no"
        if w == "no":
            continue
        if p is None:
            maybes[("nopos", x["id"])] = x
        elif w == "must":
            gens[p] = x
        else:
            maybes[p] = x
    succ, pred = _pgraph(g)
    dpos = {}
    for d in dones:
        if g.pos(d) is None:
            raise Undecidable("%s: donesize() has no position in the CFG" % fn.nloc(d))
        dpos[g.pos(d)] = d
    for pd, d in sorted(dpos.items(), key=lambda kv: kv[1]["id"]):
        # backwards from the report, not through a copy_back; stops where the iteration began / at the previous report
        starts = set((v, -1) for v in loop_heads_around(g, pd[0])) | set(q for q in dpos if q != pd) | {(g.entry, -1)}
        back, work, hit = set(), [pd], []
        while work:
            q = work.pop()
            for r in pred.get(q, []):
                if r in back or r in gens or (q[1] == -1 and (r[0], q[0]) in home_edges):
                    continue
                back.add(r)
                if r in starts:
                    hit.append(r)
                else:
                    work.append(r)
        if pd in back and pd not in hit:
            hit.append(pd)       # the report reaches itself around a loop that is not a natural one
        what = "ctx.donesize(%s)" % (dtable.describe(kids(d)[1]) if len(kids(d)) > 1 else "")
        if not hit:
            ck.ok("COPY-BACK", "%s %s line %s" % (tag, what, d.get("l")), "the range reported finished passed copy_back() on every path since the "
                  "iteration began / since the previous report")
            continue
        # only what lies on a path from such a start to the report matters
        fwd, work = set(hit), list(hit)
        while work:
            q = work.pop()
            for r in succ.get(q, []):
                if r in back and r not in fwd and not (r[1] == -1 and (q[0], r[0]) in home_edges):
                    fwd.add(r)
                    work.append(r)
        # a witness must be a path that can be taken: it may not leave two tests of one condition by different outcomes.  Conditions over
        # never-written locals are surely the same each time ("S"); other conditions that read the same ("M") may or may not be.
        labels = {}
        for b in set(q[0] for q in fwd):
            blk = g.blocks[b]
            ss = blk.get("succ", [])
            if len(ss) != 2 or ss[0] is None or ss[1] is None or ss[0] == ss[1] or blk.get("cond") is None or blk.get("termk") == "SwitchStmt":
                continue
            e, pol = peel(fn.byid(blk["cond"])), True
            while e is not None and e["k"] == "UnaryOperator" and e.get("op") == "!":
                e, pol = peel(kids(e)[0]), not pol
            if e is None:
                continue
            dids = set()
            sig = _cond_sig(fn, e, dids)
            if sig is not None and dids:
                tier, key = "S", repr(sig)
            else:
                # a local that is written on the way has a new value at the second test
                free = False
                for z in ir.walk(e):
                    if z["k"] == "DeclRefExpr" and z["ref"].get("kind") in ("local", "param") and not _never_written(fn, z["ref"]["id"]):
                        if any(_is_write(fn, u) and g.pos_deep(u) in fwd for u in uses_of(fn, z["ref"]["id"])):
                            free = True
                if free:
                    continue
                tier, key = "M", dtable.describe(e)
            labels[(b, ss[0])] = (tier, key, pol)
            labels[(b, ss[1])] = (tier, key, not pol)

        def witness(tiers):
            for s0 in hit:
                seen, work = {(s0, ())}, [(s0, ())]
                while work:
                    q, env = work.pop()
                    for r in succ.get(q, []):
                        if (r != pd and r not in fwd) or (r[1] == -1 and (q[0], r[0]) in home_edges):
                            continue
                        env2 = env
                        lab = labels.get((q[0], r[0])) if r[1] == -1 else None
                        if lab is not None and lab[0] in tiers:
                            cur = dict(env)
                            if cur.get(lab[1], lab[2]) != lab[2]:
                                continue
                            cur[lab[1]] = lab[2]
                            env2 = tuple(sorted(cur.items()))
                        if r == pd:
                            return s0
                        if (r, env2) not in seen:
                            if len(seen) > 200000:
                                raise Undecidable("%s: too many combinations of repeated conditions on the way to %s" % (fn.nloc(d), what))
                            seen.add((r, env2))
                            work.append((r, env2))
            return None
        start = witness(("S", "M"))
        if start is None:
            if witness(("S",)) is None:
                ck.ok("COPY-BACK", "%s %s line %s" % (tag, what, d.get("l")), "the range reported finished passed copy_back() on every path that can be "
                      "taken since the iteration began / since the previous report (a condition over unchanged locals is tested twice)")
                continue
            raise Undecidable("%s: every path that reaches %s without copy_back() takes different outcomes at two tests that read the same; whether "
                              "the tested value changes in between is not derived" % (fn.nloc(d), what))
        unknown = [x for p, x in maybes.items() if p in fwd or p[0] == "nopos"]
        if unknown:
            x = unknown[0]
            raise Undecidable("%s: %s is reached without a copy_back() that is recognised, but %s() on the way may copy the range back or exposes the "
                              "string arrays; not followed" % (fn.nloc(x), what, x["callee"]["name"]))
        # a flag / counter that is set where the copy_back() happens and read on the way to the report: the path without copy_back() may not exist
        back_all, work = set(), [pd]
        while work:
            q = work.pop()
            for r in pred.get(q, []):
                if r not in back_all:
                    back_all.add(r)
                    if r not in starts:
                        work.append(r)
        readers = [fn.byid(g.blocks[b]["cond"]) for b in set(q[0] for q in fwd) if g.blocks[b].get("cond") is not None] + list(kids(d)[1:])
        for cn in readers:
            for z in ir.walk(cn) if cn is not None else []:
                if z["k"] != "DeclRefExpr" or z["ref"].get("kind") != "local" or holds_shadow(z) or _never_written(fn, z["ref"]["id"]):
                    continue
                for u in uses_of(fn, z["ref"]["id"]):
                    if _is_write(fn, u):
                        pw = g.pos_deep(u)
                        if pw is None or (pw in back_all and pw not in fwd):
                            raise Undecidable("%s: `%s` is set on a path that passes copy_back() and read on the way to %s; whether the path without "
                                              "copy_back() can be taken is not derived" % (fn.nloc(u), z["ref"].get("name"), what))
        seen, work = {(g.entry, -1)}, [(g.entry, -1)]
        while work and pd not in seen:
            q = work.pop()
            for r in succ.get(q, []):
                if r not in seen and (r == pd or r not in gens) and not (r[1] == -1 and (q[0], r[0]) in home_edges):
                    seen.add(r)
                    work.append(r)
        if pd not in seen:
            raise Undecidable("%s: %s is preceded by a copy_back() on every path from the entry, but not within the same iteration / after the previous "
                              "report; whether that copy covers this range is not derived" % (fn.nloc(d), what))
        frm = "the entry of %s" % fn.name if start == (g.entry, -1) else \
            ("the previous donesize() (line %s)" % dpos[start].get("l") if start in dpos else "the start of an iteration of the enclosing loop")
        ck.violation("COPY-BACK", fn.qname, "%s:donesize:%s" % (fn.name, dtable.describe(kids(d)[1]).replace(" ", "") if len(kids(d)) > 1 else ""),
                     "%s reports a range as finished, but a path from %s reaches it without copy_back(): when the job's StringShadowPtr is flipped "
                     "the range stays in the shadow array and never reaches the caller's array" % (what, frm), fn.nloc(d))
    return len(dpos)


# ---------------------------------------------------------------------------------------------- RESULT-ARRAY
PTR_PURE = ("size", "empty", "active", "shadow", "flipped", "with_lcp", "lcp", "get_lcp", "sub", "flip", "copy_back", "begin", "end", "set_lcp", "fill_lcp")


def check_result_array(ck, tu):
    """RESULT-ARRAY: what runs after the sub-sorts of a step (substep_all_done, calculate_lcp and what they call) finds
    the sorted strings in the ORIGINAL array - every leaf sorter copies back - which is the shadow array of a flipped
    pointer.  A read through p.active() there is right only if p is surely unflipped (a copy_back() result or freshly
    constructed) or the read happens only where p.flipped() was tested false (and the flipped case reads p.shadow())."""
    def shadow_ty(t):
        return "StringShadow" in (t or "")

    def surely_unflipped(root, e):
        e0 = match.strip_conv(resolve(root, e))
        while e0 is not None and e0["k"] in ("MaterializeTemporaryExpr", "CXXBindTemporaryExpr", "ExprWithCleanups", "ParenExpr") and kids(e0):
            e0 = match.strip_conv(resolve(root, kids(e0)[0]))
        if e0 is None:
            return False
        if "callee" in e0 and e0.get("member_call") and e0["callee"]["name"] == "copy_back":
            return True
        if e0["k"] in ("CXXConstructExpr", "CXXTemporaryObjectExpr") and len([a for a in kids(e0) if a is not None and a["k"] != "DefaultArg"]) == 2:
            return True
        return False

    def own_pointer(root, e):
        """the argument is the step's own pointer (a member of the step or a parameter): it is flipped when the step's bucket lives in the shadow array"""
        e0 = resolve(root, e)
        if e0 is None:
            return False
        if e0["k"] == "MemberExpr":
            return True
        return e0["k"] == "DeclRefExpr" and e0["ref"].get("kind") == "param"

    roots = [f for f in tu.functions if f.name in ("substep_all_done", "calculate_lcp") and f.body is not None and (f.qname or "").startswith(NS)]
    ck.require(len(roots) >= 2, "after-recursion hooks (substep_all_done / calculate_lcp) not instantiated")
    n = 0
    for root in roots:
        for c in root.nodes():
            if "callee" not in c or c["k"] != "CallExpr":
                continue
            cal = tu.by_did.get(c["callee"]["did"])
            if cal is None or cal.body is None:
                continue
            for i, (p, a) in enumerate(zip(cal.params, kids(c))):
                if not shadow_ty(p.get("ty")):
                    continue
                pd = p["did"]

                def on_p(z, name):
                    if "callee" in z and z.get("member_call") and z["callee"]["name"] == name and kids(z):
                        r = resolve(cal, kids(z)[0])
                        return r is not None and r["k"] == "DeclRefExpr" and r["ref"]["id"] == pd
                    return False
                reads = [y for y in cal.nodes() if on_p(y, "active")]
                if not reads:
                    continue
                n += 1
                tag = "%s -> %s [%s]" % (root.qname.split("::")[-2] + "::" + root.name, cal.name, inst(root))

                def polarity(cond, depth=0):
                    """True: cond <=> p.flipped(); False: cond <=> !p.flipped(); None: something else"""
                    e = resolve(cal, cond)
                    if e is None or depth > 6:
                        return None
                    if e["k"] == "UnaryOperator" and e.get("op") == "!":
                        r = polarity(kids(e)[0], depth + 1)
                        return None if r is None else (not r)
                    if on_p(e, "flipped"):
                        return True
                    b = match.binop(e, ("==", "!="))
                    if b:
                        for s, o in ((b[1], b[2]), (b[2], b[1])):
                            cv = const_int(o)
                            r = polarity(s, depth + 1)
                            if cv is not None and r is not None:
                                return (r == bool(cv)) if b[0] == "==" else (r != bool(cv))
                    return None
                if surely_unflipped(root, a):
                    ck.ok("RESULT-ARRAY", tag, "reads the original array (flipped ? shadow() : active()) or gets a surely unflipped pointer")
                    continue
                g = cfgm.CFG(cal)
                unfl = mustfact.MustFact(cal, g, lambda cond, truth: (lambda r: r is not None and r != truth)(polarity(cond)), lambda node: None)
                flp = mustfact.MustFact(cal, g, lambda cond, truth: (lambda r: r is not None and r == truth)(polarity(cond)), lambda node: None)
                bad = None
                for y in reads:
                    st = unfl.before(y)
                    if st is None:
                        raise Undecidable("%s: read of %s.active() has no position in the CFG" % (cal.nloc(y), p["name"]))
                    if not st:
                        bad = y
                if bad is not None:
                    # closed world: no condition examines the pointer in a form that is not understood, and the argument is the step's own pointer
                    for bid, b in g.blocks.items():
                        cn = cal.byid(b["cond"]) if b.get("cond") is not None else None
                        if cn is None or polarity(cn) is not None:
                            continue
                        for z in ir.walk(cn):
                            if "callee" not in z:
                                continue
                            for j, arg in enumerate(kids(z)):
                                r = resolve(cal, arg)
                                if r is not None and r["k"] == "DeclRefExpr" and r["ref"]["id"] == pd and \
                                        not (z.get("member_call") and j == 0 and z["callee"]["name"] in PTR_PURE):
                                    raise Undecidable("%s: a condition examines %s through %s(); whether it tests flipped() is not known"
                                                      % (cal.nloc(z), p["name"], z["callee"]["name"]))
                    if not own_pointer(root, a):
                        raise Undecidable("%s: the pointer handed to %s() (%s) is neither the step's own pointer nor a copy_back() result" % (root.nloc(c), cal.name, dtable.describe(a)))
                    ck.violation("RESULT-ARRAY", cal.qname, "%s:%s" % (cal.name, root.name),
                                 "%s() runs after the sub-sorts have copied their buckets home and reads the strings through %s.active(); the step's pointer (%s) "
                                 "is flipped when the step sorts a bucket that lives in the shadow array, the sorted strings are then in %s.shadow(): the values "
                                 "computed here (LCPs at the bucket boundaries) come from stale strings" % (cal.name, p["name"], dtable.describe(a), p["name"]), cal.nloc(bad))
                    continue
                sh = [z for z in cal.nodes() if on_p(z, "shadow") and flp.before(z)]
                if not sh:
                    raise Undecidable("%s: %s.active() is read only where flipped() is false, but no read of %s.shadow() under flipped() is found"
                                      % (cal.nloc(reads[0]), p["name"], p["name"]))
                ck.ok("RESULT-ARRAY", tag, "reads the original array (flipped ? shadow() : active()) or gets a surely unflipped pointer")
    ck.require(n >= 2, "no after-recursion reader of a shadow pointer found")


# ---------------------------------------------------------------------------------------------- PACKED-LCP-MASK
def packed_uses(fn, e, flag, value_mask, depth=0):
    """how the packed byte read by expression e is used: list of (verdict, detail, node), verdict 'ok' | 'bad' | 'unknown' | 'write'"""
    par = fn.parent(e)
    while par is not None and par["k"] in WRAPPERS and par.get("cast") not in ("ToVoid", "IntegralToBoolean"):
        e, par = par, fn.parent(par)
    if par is None:
        return [("unknown", "no parent", e)]
    k = par["k"]
    if k in WRAPPERS:
        if par.get("cast") == "ToVoid":
            return [("ok", "discarded", par)]
        return [("bad", None, par)]       # the whole byte as a truth value
    if k in ("BinaryOperator", "CompoundAssignOperator") and len(kids(par)) == 2:
        op = par.get("op")
        l, r = kids(par)
        on_left = l is e
        c = const_int(r if on_left else l)
        if op in ASSIGN_OPS and on_left:
            return [("write", None, par)]
        if op == "&":
            if c is None:
                return [("unknown", "masked with a value that is not a constant", par)]
            m = c & 0xFF
            return [("ok", m, par)] if m in (flag, value_mask) else [("bad", m, par)]
        top = flag == value_mask + 1 and (flag & value_mask) == 0
        if top and c is not None:
            if on_left and ((op == "%" and c == flag) or (op in (">=", "<") and c == flag) or (op in (">", "<=") and c == value_mask)):
                return [("ok", value_mask if op == "%" else flag, par)]
            if not on_left and ((op in ("<=", ">") and c == flag) or (op in ("<", ">=") and c == value_mask)):
                return [("ok", flag, par)]
            if on_left and op == ">>" and (flag >> c) == 1:
                return [("ok", flag, par)]
        if op in ("+", "-", "*", "/", "%", "<<", ">>", "|", "^", "==", "!=", "<", ">", "<=", ">=", "+=", "-=", "|=", "&&", "||", ","):
            if op == "," and on_left:
                return [("ok", "discarded", par)]
            return [("bad", None, par)]
        return [("unknown", "operator %s" % op, par)]
    if k == "UnaryOperator" and par.get("op") in ("!", "-", "~"):
        return [("bad", None, par)]
    if k in ("ArraySubscriptExpr",):
        return [("bad", None, par)]
    if k in ("IfStmt", "WhileStmt", "DoStmt", "ForStmt", "ConditionalOperator") and (kids(par)[1 if k in ("DoStmt", "ForStmt") else 0] is e):
        return [("bad", None, par)]
    if k in ("CompoundStmt",):
        return [("ok", "discarded", par)]
    if k == "VarDecl":
        if stable_local(fn, par["did"]) is None or depth > 4:
            return [("unknown", "stored in a local that is written again", par)]
        out = []
        for u in uses_of(fn, par["did"]):
            out += packed_uses(fn, u, flag, value_mask, depth + 1)
        return out
    if "callee" in par:
        return [("unknown", "handed to %s()" % par["callee"]["name"], par)]
    return [("unknown", k, par)]


def check_packed_lcp(ck, tu):
    """the tree builders store `lcp | (splitter ends inside the key ? FLAG : 0)` into the splitter_lcp byte; every
    reader must therefore select a part of the byte with a constant mask (the flag, or its complement)"""
    flags = set()
    n_writes = 0
    for fn in tu.functions:
        if not fn.record or "TreeBuilder" not in fn.record or fn.body is None:
            continue
        for z in fn.nodes():
            b = match.binop(z, ("=",)) if z["k"] == "BinaryOperator" else None
            if not b:
                continue
            d = match.deref_of(b[1])
            ip = match.index_parts(b[1]) if d is None else None
            tgt_root = d if d is not None else (ip[0] if ip else None)
            if tgt_root is None:
                continue
            tgt = [x for x in ir.walk(tgt_root) if x["k"] == "MemberExpr" and x.get("member", "").startswith("lcp")]
            if not tgt:
                continue
            orr = match.binop(resolve(fn, b[2]), ("|",))
            if not orr:
                continue
            n_writes += 1
            for side in orr[1:]:
                for x in ir.walk(resolve(fn, side)):
                    if x["k"] == "ConditionalOperator":
                        for br in kids(x)[1:]:
                            c = const_int(br)
                            if c:
                                flags.add(c)
                    elif x["k"] == "DeclRefExpr":
                        rx = resolve(fn, x)
                        if rx is not x and rx is not None:
                            for y in ir.walk(rx):
                                if y["k"] == "ConditionalOperator":
                                    for br in kids(y)[1:]:
                                        c = const_int(br)
                                        if c:
                                            flags.add(c)
    if not n_writes or len(flags) != 1:
        # the store is written in another way: take the flag from the bytes that the evaluation of build() produced (check_classifier)
        ev_flags = getattr(tu, "_c04_eval_flags", None)
        if not ev_flags or len(ev_flags) != 1 or bin(list(ev_flags)[0]).count("1") != 1:
            raise ir.AnalysisBroken("packing of the splitter LCP byte not recognised in the tree builders (flags %s; evaluated %s)"
                                    % (sorted(flags), sorted(ev_flags) if ev_flags else "-"))
        flags = set(ev_flags)
    flag = flags.pop()
    value_mask = 0xFF ^ flag
    # packed fields: the arrays handed to classifier.build()
    packed = set()
    for fn in tu.functions:
        if fn.body is None:
            continue
        for z in fn.nodes():
            if "callee" in z and z["callee"]["name"] == "build" and z.get("member_call") and len(kids(z)) >= 4:
                a = resolve(fn, kids(z)[3])
                if a is not None and a["k"] == "MemberExpr":
                    packed.add(a["member"])
    if not packed:
        raise ir.AnalysisBroken("no array is handed to classifier.build() as LCP table")
    n = 0
    for fn in tu.functions:
        if fn.body is None or not fn.qname.startswith("tlx::sort_strings_detail::"):
            continue
        for z in fn.nodes():
            if z["k"] != "ArraySubscriptExpr":
                continue
            base = strip_casts(kids(z)[0])
            if base["k"] != "MemberExpr" or base.get("member") not in packed:
                continue
            uses = packed_uses(fn, z, flag, value_mask)
            if uses and all(u[0] == "write" for u in uses):
                continue        # a write
            n += 1
            tag = "%s [%s]" % (fn.name, inst(fn))
            bad = [u for u in uses if u[0] == "bad"]
            unk = [u for u in uses if u[0] == "unknown"]
            if bad:
                mask = bad[0][1]
                ck.violation("PACKED-LCP-MASK", fn.qname, "%s:%s" % (fn.name, base["member"]),
                             "%s[...] packs the splitter LCP (low bits) with the 0x%02X flag `splitter ends inside the key`; it is used here %s, so a flagged "
                             "splitter adds %d to the depth handed on" % (base["member"], flag, "unmasked" if mask is None else "with mask 0x%02X" % mask, flag),
                             fn.nloc(z))
            elif unk:
                raise Undecidable("%s: the packed byte %s[...] is used in a form that is not understood (%s); cannot tell whether it is masked"
                                  % (fn.nloc(unk[0][2]), base["member"], unk[0][1]))
            else:
                masks = [u[1] for u in uses if u[0] == "ok" and isinstance(u[1], int)]
                ck.ok("PACKED-LCP-MASK", tag, "%s & 0x%02X" % (base["member"], masks[0] if masks else value_mask), nontrivial=False)
    return n


# ---------------------------------------------------------------------------------------------- STALE-DATA-POINTER
INVALIDATING = ("resize", "destroy", "clear", "reserve", "shrink_to_fit", "swap", "push_back", "emplace_back", "assign", "operator=")


def check_stale_data_pointer(ck, tu):
    """a raw pointer taken from a member buffer (`member.data()`) and kept in a local must not be used after a call
    that may re-allocate or release that buffer (directly or through other member functions of the same object)"""
    by_rec = {}
    for fn in tu.functions:
        if fn.record and fn.record.startswith("tlx::sort_strings_detail::PS5") and fn.body is not None and fn.kind != "lambda":
            by_rec.setdefault((fn.record, tuple(fn.rtargs or [])), []).append(fn)
    n = 0
    for (rec, _), fns in by_rec.items():
        # which members may each method invalidate (transitively through calls on this)
        direct, calls = {}, {}
        for fn in fns:
            inv, cl = set(), set()
            for z in fn.nodes():
                if "callee" not in z:
                    continue
                if z.get("member_call") and z["callee"]["name"] in INVALIDATING and kids(z):
                    m = field_r(fn, kids(z)[0])
                    if m:
                        inv.add(m)
                if z["k"] == "CXXOperatorCallExpr" and z.get("op") == "=" and kids(z):
                    m = field_r(fn, kids(z)[0])
                    if m:
                        inv.add(m)
                if z.get("member_call") and kids(z) and strip_casts(kids(z)[0])["k"] == "This":
                    cl.add(z["callee"]["did"])
            direct[fn.did], calls[fn.did] = inv, cl
        summ = {d: set(v) for d, v in direct.items()}
        changed = True
        while changed:
            changed = False
            for d in summ:
                for c in calls[d]:
                    if c in summ and not summ[c] <= summ[d]:
                        summ[d] |= summ[c]
                        changed = True
        for fn in fns:
            g = None
            for v in fn.nodes():
                if v["k"] != "VarDecl" or not kids(v) or "*" not in (v.get("ty") or ""):
                    continue
                src = [z for z in ir.walk(kids(v)[0]) if "callee" in z and z.get("member_call") and z["callee"]["name"] in ("data", "begin")
                       and kids(z) and field_r(fn, kids(z)[0])]
                if not src:
                    continue
                member = field_r(fn, kids(src[0])[0])
                n += 1
                if g is None:
                    g = cfgm.CFG(fn)
                pdecl = g.pos_deep(v)
                uses, kills = [], []
                for z in uses_of(fn, v["did"]):
                    # a plain re-assignment of the local gives it a fresh value: later uses see that one
                    e, par = z, fn.parent(z)
                    while par is not None and par["k"] in WRAPPERS:
                        e, par = par, fn.parent(par)
                    if par is not None and par["k"] == "BinaryOperator" and par.get("op") == "=" and kids(par)[0] is e:
                        kp = g.pos_deep(par)
                        if kp is not None:
                            kills.append(kp)
                        continue
                    uses.append(z)
                bad = None
                for c in fn.nodes():
                    if "callee" not in c or not c.get("member_call") or not kids(c):
                        continue
                    direct_inv = c["callee"]["name"] in INVALIDATING and field_r(fn, kids(c)[0]) == member
                    via = strip_casts(kids(c)[0])["k"] == "This" and member in summ.get(c["callee"]["did"], ())
                    if not (direct_inv or via):
                        continue
                    pc = g.pos_deep(c)
                    if pc is None or pdecl is None or not (g.reachable(pdecl, pc) or g.dominates(pdecl, pc)):
                        continue        # the buffer is (re)sized before the pointer is taken
                    for u in uses:
                        pu = g.pos_deep(u)
                        if pu is not None and g.path_between_avoiding(pc, pu, kills) is not None:
                            bad = (c, u)
                            break
                    if bad:
                        break
                tag = "%s::%s [%s] %s = %s.data()" % (rec.split("::")[-1], fn.name, inst(fn), v.get("name"), member)
                if bad:
                    c, u = bad
                    ck.violation("STALE-DATA-POINTER", fn.qname, "%s:%s" % (fn.name, v.get("name")),
                                 "`%s` caches %s.data(); %s() (line %s) may destroy and re-allocate %s, and `%s` is used again afterwards (line %s): "
                                 "writes through it go to a freed block" % (v.get("name"), member, c["callee"]["name"], c.get("l"), member,
                                                                              v.get("name"), u.get("l")), fn.nloc(u))
                else:
                    ck.ok("STALE-DATA-POINTER", tag, "no use after a call that may re-allocate %s" % member)
    return n


def check_array_bounds(ck, tu):
    """indices of the fixed-size bucket / splitter arrays of the sample sort classes, by interval analysis"""
    from engine import intervals
    n_fn = 0
    for fn in tu.functions:
        if fn.body is None or not fn.qname.startswith("tlx::sort_strings_detail::"):
            continue
        if not (fn.record and ("PS5" in fn.record or "SSClassify" in fn.record or "SSTreeBuilder" in fn.record)):
            continue
        bad, n_sites = intervals.fixed_array_findings(fn)
        if not n_sites:
            continue
        n_fn += 1
        seen = set()
        for z, n, r in bad:
            key = dtable.describe(z)
            if key in seen:
                continue
            seen.add(key)
            ck.violation("ARRAY-INDEX-BOUND", fn.qname, "%s:%s" % (fn.name, key),
                         "%s is evaluated with an index in [%s, %s]; the array has %d elements" % (key, r[0], r[1], n), fn.nloc(z))
        if not bad:
            ck.ok("ARRAY-INDEX-BOUND", "%s::%s [%s]" % (fn.record.split("::")[-1], fn.name, inst(fn)),
                  "%d subscripts of fixed-size arrays; every index bound that follows from the control flow is < size" % n_sites)
    return n_fn


# ---------------------------------------------------------------------------------------------- CLASSIFY-BUCKET
# A classifier (SSClassify*) maps a key to one of 2k+1 buckets over k splitters s_0 < .. < s_{k-1} (get_splitter(j)): bucket 2j holds the
# keys strictly between s_{j-1} and s_j, bucket 2j+1 the keys equal to s_j.  Everything downstream relies on exactly that numbering (odd
# buckets are sorted from depth + sizeof(key) on, even buckets from the common prefix of the two neighbouring splitters on, the LCP at a
# bucket boundary is computed from get_splitter(b / 2)).  classify() stores, for every string, what one of the class's descent routines
# (one key at a time, or several interleaved) yields; which routine a string meets depends on its position in the range only.  Hence every
# routine whose result classify() stores must compute the same function of the key, namely 2 * #{splitters < key} + [key is a splitter].
# Decided by evaluation (engine/skel.py with a flat memory, call frames and C++ integer conversions added here): build() is run on a sorted
# sample of distinct keys, get_splitter() is read back, and every routine is run for every position a key can have relative to the
# splitters (below all, equal to s_j, between s_j and s_j+1, above all).  Keys are only compared, so these positions are all behaviours.
# No tlx code is executed.  A construct the evaluation does not model is `cannot decide`, never a verdict.
from engine import skel
import bisect
import collections
import re as _re

_ARR = _re.compile(r"\[(\d+)\]\s*$")
_UW = {"unsigned char": 8, "unsigned short": 16, "unsigned int": 32, "unsigned": 32, "unsigned long": 64, "unsigned long long": 64,
       "size_t": 64, "std::size_t": 64, "uint8_t": 8, "uint16_t": 16, "uint32_t": 32, "uint64_t": 64,
       "std::uint8_t": 8, "std::uint16_t": 16, "std::uint32_t": 32, "std::uint64_t": 64, "bool": 1}
_SW = {"signed char": 8, "char": 8, "short": 16, "int": 32, "long": 64, "long long": 64, "ptrdiff_t": 64, "std::ptrdiff_t": 64,
       "int8_t": 8, "int16_t": 16, "int32_t": 32, "int64_t": 64, "std::int8_t": 8, "std::int16_t": 16, "std::int32_t": 32, "std::int64_t": 64}
_CASTK = ("ImplicitCastExpr", "CStyleCastExpr", "CXXStaticCastExpr", "CXXFunctionalCastExpr")


def _bare_ty(t):
    t = (t or "").strip()
    changed = True
    while changed:
        changed = False
        for pre in ("const ", "volatile "):
            if t.startswith(pre):
                t, changed = t[len(pre):].strip(), True
        for suf in (" const", " volatile"):
            if t.endswith(suf):
                t, changed = t[:-len(suf)].strip(), True
    return t


_INT_TYPES = {}


def _int_type(t):
    """(signed, bits) of a builtin integer type name, else None"""
    if t in _INT_TYPES:
        return _INT_TYPES[t]
    b = _bare_ty(t)
    r = (False, _UW[b]) if b in _UW else ((True, _SW[b]) if b in _SW else None)
    _INT_TYPES[t] = r
    return r


def _conv(v, ty):
    """the C++ value of the integer v converted to type ty (two's complement); other values unchanged"""
    if isinstance(v, bool):
        v = int(v)
    if not isinstance(v, int):
        return v
    it = _int_type(ty)
    if it is None:
        return v
    signed, bits = it
    if bits == 1:
        return v != 0
    v &= (1 << bits) - 1
    if signed and v >> (bits - 1):
        v -= 1 << bits
    return v


class _Unwritten(object):
    """content of an element of the object's arrays that nothing has written yet"""
    def __repr__(self):
        return "<unwritten>"


UNWRITTEN = _Unwritten()


class EvalFault(Exception):
    """the evaluation reached an operation without a defined result (count-zeros of 0, abort()): evidence, not a gap of the model"""


class Machine(skel.Skel):
    """engine/skel.py plus: a flat memory of cells for arrays (one cell per element; a read just past the end of an array is a finding,
    EvalFault, any other access outside the arrays is not modelled), a frame per call (recursion, reference parameters bound to locals of a
    suspended frame), constructors of other objects (their fields shadow the ones of *this while they run), integer conversions and
    unsigned wrap-around by the type of the expression, std::fill / fill_n / next / prev / distance / advance / lower_bound / upper_bound on
    pointers into the arrays, count-leading/trailing-zeros (of 0: EvalFault), abort() (EvalFault).  Every other call that has no body in the
    translation unit is `cannot decide`."""

    def __init__(self, tu, fn):
        skel.Skel.__init__(self, fn, env={}, unknown=self._unknown, event=self._event, tu=tu, max_iter=70000)
        self.mem = {}
        self.blocks, self.bases = [], []
        self.top = 1 << 24
        self.steps = 0
        self.act = self.act_serial = 0      # the running activation (a closure is only called from the activation that made it)

    # ---- memory
    def alloc(self, n, fill=None, soft=False):
        """soft: an array whose length the rule made up (reads past its end are a gap of the model, not a finding)"""
        base = self.top
        self.top += n + 1024
        self.blocks.append((base, n, soft))
        self.bases.append(base)
        if fill is not None:
            for i in range(n):
                self.mem[base + i] = fill(i) if callable(fill) else fill
        return base

    def allocated(self, a):
        i = bisect.bisect_right(self.bases, a) - 1       # blocks are handed out at increasing addresses
        return i >= 0 and a < self.bases[i] + self.blocks[i][1]

    def load(self, key):
        if isinstance(key, tuple) and key and key[0] == "mem":
            a = key[1]
            if a in self.mem:
                return self.mem[a]
            i = bisect.bisect_right(self.bases, a) - 1
            if i >= 0 and a >= self.bases[i] + self.blocks[i][1]:
                if self.blocks[i][2] or a >= self.bases[i] + self.blocks[i][1] + 1024:
                    raise Undecidable("%s: a read outside the arrays of the model" % self.fn.loc)
                raise EvalFault("a read of element %d of an array of %d elements (in %s, %s)"
                                % (a - self.bases[i], self.blocks[i][1], self.fn.name, self.fn.loc))
            return None
        return skel.Skel.load(self, key)

    def store(self, key, v):
        if key is None:
            raise Undecidable("%s: a value is stored through an expression that the evaluation does not model" % self.fn.loc)
        if isinstance(key, tuple) and key[0] == "mem":
            if not self.allocated(key[1]):
                raise Undecidable("%s: a value is stored outside the arrays of the model" % self.fn.loc)
            self.mem[key[1]] = v
            return
        self.env[key] = v

    # ---- expressions
    def ev(self, e):
        self.steps += 1
        if self.steps > 40000000:
            raise Undecidable("%s: the evaluation of the classifier takes more than 4e7 steps" % self.fn.loc)
        if e is not None and e["k"] in _CASTK and "cval" not in e and kids(e):
            v = self.ev(kids(e)[0])
            if e.get("cast") == "IntegralCast":
                v = _conv(v, e.get("ty"))
            elif e.get("cast") == "IntegralToBoolean" and isinstance(v, int):
                v = v != 0
            return v
        if e is not None and e["k"] == "LambdaExpr":
            return self.closure(e)
        return skel.Skel.ev(self, e)

    def closure(self, e):
        """value of a lambda expression: its call operator, the activation that made it and the copies of the by-value captures.  The
        by-reference captures (and this) need no entry: the closure is only ever called from the activation that made it (anything else
        is `cannot decide`), where the captured names still denote the same objects."""
        if "fn" not in e or self.tu is None or self.tu.by_did.get(e["fn"]) is None or self.tu.by_did[e["fn"]].body is None:
            raise Undecidable("%s: the call operator of this lambda is not available (generic lambda?); not modelled" % self.fn.nloc(e))
        copies = {}
        for c in e.get("captures") or []:
            if c.get("name") == "this" and "id" not in c:
                if not c.get("byref"):
                    raise Undecidable("%s: a lambda with a copy of *this is not modelled" % self.fn.nloc(e))
                continue
            if "id" not in c:
                raise Undecidable("%s: a capture of this lambda is not understood" % self.fn.nloc(e))
            d = c["id"]
            if d not in self.alias and d not in self.env:
                raise Undecidable("%s: the lambda captures %s, which has no value in the evaluation" % (self.fn.nloc(e), c.get("name")))
            if not c.get("byref"):
                copies[d] = self.load(self.alias[d]) if d in self.alias else self.env[d]
        return ("closure", e["fn"], self.act, copies)

    def call_closure(self, e, clo, actual):
        """call of a local lambda from the activation that made it: its body runs in a frame of its own; names captured by reference
        denote the variables of the enclosing activations (which are all still there), names captured by value hold the copies"""
        callee = self.tu.by_did.get(clo[1])
        if clo[2] != self.act:
            raise Undecidable("%s: a lambda is called from another activation than the one that made it; not modelled" % self.fn.nloc(e))
        if len(actual) != len(callee.params):
            raise Undecidable("%s: call of a lambda with default or variadic arguments; not modelled" % self.fn.nloc(e))
        if self.depth >= 80:
            raise Undecidable("%s: the evaluation of the classifier nests more than 80 calls" % self.fn.nloc(e))
        copies = clo[3]
        saved_env = dict((d, self.env[d]) for d in copies if d in self.env)
        saved_alias = dict((d, self.alias[d]) for d in copies if d in self.alias)
        # the arguments are evaluated in the caller's view (before the copies shadow the captured names)
        binds = self.bind_args(callee, actual)
        for d, v in copies.items():
            self.alias.pop(d, None)
            self.env[d] = v
        try:
            ret = self.call(callee, None, binds=binds)
            for d, v in copies.items():
                if d in self.alias or self.env.get(d) is not v and self.env.get(d) != v:
                    raise Undecidable("%s: the lambda changes a by-value capture (mutable lambda); not modelled" % self.fn.nloc(e))
        finally:
            for d in copies:
                self.env.pop(d, None)
                self.alias.pop(d, None)
            self.env.update(saved_env)
            self.alias.update(saved_alias)
        return ret

    def arith(self, op, a, b, e):
        if a is UNWRITTEN or b is UNWRITTEN:
            return None
        try:
            r = skel.Skel.arith(self, op, a, b, e)
        except (ValueError, OverflowError):
            raise Undecidable("%s: shift by a negative or huge count in the evaluation" % self.fn.nloc(e))
        if isinstance(r, int) and not isinstance(r, bool):
            if e["k"] == "CompoundAssignOperator" and e.get("cty"):
                r = _conv(r, e["cty"])
            r = _conv(r, e.get("ty"))
        return r

    def _unknown(self, e, sk):
        if "callee" in e:
            raise Undecidable("%s: the call of %s() is not modelled by the evaluation of the classifier" % (self.fn.nloc(e), e["callee"]["name"]))
        return None

    def _event(self, e, sk):
        if "callee" not in e:
            return NotImplemented
        q = e["callee"].get("qname") or ""
        nm = e["callee"]["name"]
        args = [a for a in kids(e) if a is not None and a["k"] != "DefaultArg"]
        if q in ("std::fill", "std::fill_n") and len(args) == 3:
            a0, a1, v = self.ev(args[0]), self.ev(args[1]), self.ev(args[2])
            if not (isinstance(a0, int) and isinstance(a1, int)) or isinstance(a0, bool) or isinstance(a1, bool):
                raise Undecidable("%s: %s over a range that is not an array of the model" % (self.fn.nloc(e), q))
            last = a1 if q == "std::fill" else a0 + a1
            if not 0 <= last - a0 <= 1 << 20:
                raise Undecidable("%s: %s over a range of %d elements" % (self.fn.nloc(e), q, last - a0))
            for a in range(a0, last):
                self.store(("mem", a), v)
            return last if q == "std::fill_n" else None
        if q in ("std::next", "std::prev", "std::distance", "std::advance") and 1 <= len(args) <= 2:
            vals = [self.ev(a) for a in args]
            if any(not isinstance(v, int) or isinstance(v, bool) for v in vals):
                raise Undecidable("%s: %s on something that is not a pointer into an array of the model" % (self.fn.nloc(e), q))
            if q == "std::distance":
                if len(vals) != 2:
                    return NotImplemented
                return vals[1] - vals[0]
            if q == "std::advance":
                if len(vals) != 2:
                    return NotImplemented
                self.store(self.lvalue(args[0]), vals[0] + vals[1])
                return None
            step = vals[1] if len(vals) == 2 else 1
            return vals[0] + step if q == "std::next" else vals[0] - step
        if q in ("std::lower_bound", "std::upper_bound") and len(args) == 3:
            lo_, hi_, v = self.ev(args[0]), self.ev(args[1]), self.ev(args[2])
            if any(not isinstance(x_, int) or isinstance(x_, bool) for x_ in (lo_, hi_, v)) or not 0 <= hi_ - lo_ <= 1 << 20:
                raise Undecidable("%s: %s over a range that is not an array of the model" % (self.fn.nloc(e), q))
            cells = [self.load(("mem", a)) for a in range(lo_, hi_)]
            if any(not isinstance(c_, int) or isinstance(c_, bool) for c_ in cells) or any(cells[i_] > cells[i_ + 1] for i_ in range(len(cells) - 1)):
                raise Undecidable("%s: %s over a range that is not sorted / not known in the evaluation" % (self.fn.nloc(e), q))
            return lo_ + (bisect.bisect_left(cells, v) if q == "std::lower_bound" else bisect.bisect_right(cells, v))
        if q in ("tlx::clz", "tlx::ctz") or nm.startswith("__builtin_clz") or nm.startswith("__builtin_ctz"):
            if len(args) != 1:
                return NotImplemented
            cal = self.tu.by_did.get(e["callee"].get("did")) if self.tu is not None else None
            pty = (cal.params[0].get("ty") or "").rstrip("& ") if cal is not None and cal.params else strip_casts(args[0]).get("ty")
            if nm.endswith("ll") or (nm.endswith("l") and nm.startswith("__builtin")):
                pty = "unsigned long"
            elif nm.startswith("__builtin"):
                pty = "unsigned int"
            it = _int_type(pty)
            v = self.ev(args[0])
            if it is None or not isinstance(v, int) or isinstance(v, bool):
                return None
            v &= (1 << it[1]) - 1
            if v == 0:
                raise EvalFault("%s(0), which has no defined value (%s)" % (nm, self.fn.nloc(e)))
            if "clz" in nm:
                return it[1] - v.bit_length()
            return (v & -v).bit_length() - 1
        if nm == "abort" and not args:
            raise EvalFault("abort() (%s)" % self.fn.nloc(e))
        return NotImplemented

    # ---- statements
    def stmt(self, s):
        if s is not None and s["k"] == "DeclStmt":
            rest = []
            for v in kids(s):
                if v["k"] != "VarDecl":
                    rest.append(v)
                    continue
                self.alias.pop(v.get("did"), None)
                m = _ARR.search(v.get("ty") or "")
                if not m:
                    rest.append(v)
                    continue
                n = int(m.group(1))
                init = kids(v)[0] if kids(v) else None
                vals = None
                if init is not None:
                    if init["k"] != "InitListExpr" or len(kids(init)) > n:
                        raise Undecidable("%s: initialiser of a local array is not a list" % self.fn.nloc(v))
                    vals = [self.ev(x) for x in kids(init)]
                    vals += [0] * (n - len(vals))
                base = self.alloc(n, (lambda i: vals[i]) if vals is not None else None)
                self.env[v["did"]] = base
            if rest:
                skel.Skel.stmt(self, dict(s, ch=rest))
            return
        skel.Skel.stmt(self, s)

    # ---- calls
    def _frame_dids(self, fn):
        c = getattr(fn, "_c04_frame", None)
        if c is None:
            c = set(p["did"] for p in fn.params)
            for r in [i["e"] for i in fn.inits if i.get("e")] + [fn.body]:
                for x in ir.walk(r):
                    if x["k"] == "VarDecl" and "did" in x and not x.get("static"):
                        c.add(x["did"])
            fn._c04_frame = c
        return c

    def inline(self, e, args):
        if self.tu is None:
            return NotImplemented
        callee = self.tu.by_did.get(e["callee"].get("did"))
        if callee is not None and callee.body is not None and callee.kind == "lambda":
            if e["k"] != "CXXOperatorCallExpr" or e.get("op") != "()" or not args:
                return NotImplemented
            clo = self.ev(args[0])
            if not (isinstance(clo, tuple) and len(clo) == 4 and clo[0] == "closure" and clo[1] == callee.did):
                return NotImplemented           # the closure object is not known here: `cannot decide` (unknown call)
            return self.call_closure(e, clo, args[1:])
        if callee is None or callee.body is None or callee.kind in ("dtor", "lambda"):
            return NotImplemented
        actual, new_obj = args, False
        if callee.kind == "ctor":
            if e["k"] not in ("CXXConstructExpr", "CXXTemporaryObjectExpr"):
                return NotImplemented
            new_obj = True
        elif e.get("member_call"):
            if not args or strip_casts(args[0]) is None or strip_casts(args[0])["k"] != "This":
                return NotImplemented
            actual = args[1:]
        elif e["k"] == "CXXOperatorCallExpr":
            return NotImplemented
        if len(actual) != len(callee.params):
            return NotImplemented
        if self.depth >= 80:
            raise Undecidable("%s: the evaluation of the classifier nests more than 80 calls" % self.fn.nloc(e))
        return self.call(callee, actual, new_obj)

    def call(self, callee, actual, new_obj=False, values=None, binds=None):
        """runs callee in a frame of its own; actual: argument expressions of the current frame (or values: ready-made values)"""
        if binds is None:
            binds = self.bind_args(callee, actual, values)
        return self.run_frame(callee, binds, new_obj)

    def bind_args(self, callee, actual, values=None):
        binds = []
        for i, p in enumerate(callee.params):
            ty = (p.get("ty") or "").rstrip()
            if values is not None:
                binds.append(("val", p, values[i]))
                continue
            a = actual[i]
            if ty.endswith("&&"):
                raise Undecidable("%s: %s() takes an rvalue reference; not modelled" % (callee.loc, callee.name))
            if ty.endswith("&"):
                key = self.lvalue(a)
                if key is None:
                    if not ty.startswith("const "):
                        raise Undecidable("%s: a reference parameter of %s() is bound to an expression that the evaluation does not model" % (callee.loc, callee.name))
                    binds.append(("val", p, self.ev(a)))
                    continue
                if isinstance(key, int):
                    # a local of the calling frame: it moves into a memory cell, so that the callee (possibly another activation of the
                    # same function, with locals of the same identity) and the caller see one object
                    addr = self.alloc(1)
                    self.mem[addr] = self.env.get(key)
                    self.alias[key] = ("mem", addr)
                    key = ("mem", addr)
                binds.append(("ref", p, key))
            else:
                binds.append(("val", p, self.ev(a)))
        return binds

    def run_frame(self, callee, binds, new_obj=False):
        dids = self._frame_dids(callee)
        saved_env = dict((d, self.env.pop(d)) for d in dids if d in self.env)
        saved_alias = dict((d, self.alias.pop(d)) for d in dids if d in self.alias)
        saved_fields = None
        if new_obj:
            saved_fields = dict((k, v) for k, v in self.env.items() if isinstance(k, tuple) and k and k[0] == "field")
            for k in saved_fields:
                del self.env[k]
        for kind, p, v in binds:
            if kind == "ref":
                self.alias[p["did"]] = v
            else:
                self.env[p["did"]] = v
        saved_fn, saved_act = self.fn, self.act
        self.fn = callee
        self.depth += 1
        self.act_serial += 1
        self.act = self.act_serial
        ret = None
        try:
            if new_obj:
                for i in callee.inits:
                    if i.get("field") and i.get("e") is not None:
                        self.env[("field", i["field"])] = self.ev(i["e"])
                    elif i.get("e") is not None:
                        raise Undecidable("%s: base / delegating initialiser of %s is not modelled" % (callee.loc, callee.name))
            try:
                self.run(kids(callee.body))
            except skel.Return as r_:
                ret = r_.v
        finally:
            self.fn, self.act = saved_fn, saved_act
            self.depth -= 1
            for d in dids:
                self.env.pop(d, None)
                self.alias.pop(d, None)
            self.env.update(saved_env)
            self.alias.update(saved_alias)
            if saved_fields is not None:
                for k in [k for k in self.env if isinstance(k, tuple) and k and k[0] == "field"]:
                    del self.env[k]
                self.env.update(saved_fields)
        return ret


def _ptr_to(ty):
    """(pointee type, pointee is const) of a pointer / array parameter type, else None"""
    t = (ty or "").strip()
    if t.endswith("*"):
        t = t[:-1].strip()
    elif _ARR.search(t):
        t = _ARR.sub("", t).strip()
    else:
        return None
    return _bare_ty(t), (t.startswith("const ") or t.endswith(" const"))


def classifier_classes(tu):
    """{(record, targs): [functions]} of the classifier classes in the IR"""
    out = {}
    for fn in tu.functions:
        if fn.record and fn.record.startswith(NS + "SSClassify") and fn.body is not None and fn.kind in ("method", "fn"):
            out.setdefault((fn.record, tuple(fn.rtargs or [])), []).append(fn)
    return out


def nodes_with_lambdas(fn, by_did):
    """the nodes of fn and of the bodies of the lambdas made in it (the IR keeps a lambda's body as a function of its own)"""
    todo, seen, out = [fn], set(), []
    while todo:
        f = todo.pop()
        if f.did in seen:
            continue
        seen.add(f.did)
        for x in f.nodes():
            out.append(x)
            if x["k"] == "LambdaExpr":
                lf = by_did.get(x.get("fn")) if "fn" in x else None
                if lf is None or lf.body is None:
                    raise Undecidable("%s: the body of a lambda in %s() is not in the IR; what it classifies is not evaluated" % (f.nloc(x), fn.name))
                todo.append(lf)
    return out


def stored_routines(fns, by_did):
    """the member functions whose result classify() stores: [(function, call node, classify instance)]; classify() is the entry point the
    sorters use (classifier.classify(strset, begin, end, bktout, depth))"""
    own = set(f.did for f in fns)
    out, seen = [], set()
    cls = [f for f in fns if f.name == "classify"]
    if not cls:
        raise Undecidable("%s: no instance of classify() of %s is in the IR" % (fns[0].loc, fns[0].record.split("::")[-1]))
    for c in cls:
        found = False
        c_nodes = nodes_with_lambdas(c, by_did)
        for x in c_nodes:
            if "callee" in x and x["callee"].get("did") in own and x.get("member_call") and kids(x) and strip_casts(kids(x)[0]) is not None \
                    and strip_casts(kids(x)[0])["k"] == "This":
                cal = by_did[x["callee"]["did"]]
                if cal.name in ("classify",):
                    continue
                found = True
                if cal.did not in seen:
                    seen.add(cal.did)
                    out.append((cal, x, c))
        if not found:
            raise Undecidable("%s: classify() calls no member function of the classifier; a classification written out inside classify() is not evaluated" % c.loc)
        for x in c_nodes:
            if this_member_access(x) and (_ARR.search(x.get("ty") or "") or (x.get("ty") or "").rstrip().endswith("*")):
                raise Undecidable("%s: classify() reads the classifier's array %s itself; a classification written out inside classify() is not evaluated"
                                  % (c.nloc(x), x.get("member")))
    return out


def bind_routine(fn, key_ty):
    """('scalar', index of the key parameter) | ('vector', index of the key array, index of the output array); Undecidable otherwise"""
    keys, outs, other = [], [], []
    for i, p in enumerate(fn.params):
        ty = (p.get("ty") or "").strip()
        pt = _ptr_to(ty)
        if pt is not None:
            if pt[0] == key_ty and pt[1]:
                keys.append(("vec", i))
            elif _int_type(pt[0]) is not None and not pt[1]:
                outs.append(i)
            else:
                other.append(i)
        elif _bare_ty(ty.rstrip("&").strip()) == key_ty and (not ty.endswith("&") or ty.startswith("const ")):
            keys.append(("one", i))
        else:
            other.append(i)
    if not other and len(keys) == 1 and keys[0][0] == "one" and not outs:
        return ("scalar", keys[0][1])
    if not other and len(keys) == 1 and keys[0][0] == "vec" and len(outs) == 1:
        return ("vector", keys[0][1], outs[0])
    raise Undecidable("%s: the parameters of %s() are not (key) or (keys, buckets out); how classify() uses it is not evaluated" % (fn.loc, fn.name))


VEC_SLOTS = 64


# ---------------------------------------------------------------------------------------------- SPLITTER-LCP-FLAGS
# build() hands the sorters one packed byte per splitter (splitter_lcp[j], paired with get_splitter(j): the sorters read splitter_lcp[b / 2]
# next to get_splitter(b / 2) for bucket b).  Both builders (SSTreeBuilderPreAndLevelOrder, SSTreeBuilderLevelOrder) write, in the order of
# the splitters,  clz(previous splitter ^ splitter) / 8 | ((splitter & 0xFF) ? 0 : 0x80)  and then clear the low seven bits of byte 0:
#   bit 7      set exactly when the least significant byte of the splitter key is zero (the key holds the string terminator: the sorters
#              then take the equal bucket 2j+1 as finished instead of sorting it from depth + sizeof(key) on, behind the terminators),
#   bits 0..6  the number of common leading bytes of splitter j-1 and splitter j (the depth bucket 2j is sorted from), 0 for j = 0.
# The rule evaluates build() (same Machine as CLASSIFY-BUCKET) on the sample of CLASSIFY-BUCKET and on four more sorted samples of distinct
# keys made up such that the smallest and the largest splitter occur with and without a zero low byte and that neighbouring splitters share
# 0 .. sizeof(key)-1 leading bytes, reads the bytes back and compares each with the value computed from get_splitter(j-1), get_splitter(j).
def _spread(g, nbits, per, nbytes):
    """the nbits-bit number g laid out over nbytes bytes, `per` bits per byte used, the bytes used spaced evenly from the most significant
    one down to the least significant one (order preserving)"""
    ngroups = -(-nbits // per)
    g <<= per * ngroups - nbits
    out = 0
    for t in range(ngroups):                # t = 0: the most significant group
        pos = nbytes - 1 - (t * (nbytes - 1)) // max(ngroups - 1, 1)
        out |= ((g >> (per * (ngroups - 1 - t))) & ((1 << per) - 1)) << (8 * pos)
    return out


def _lcp_family(nsamp, idx, zero, share, kbytes):
    """sorted distinct keys for the samples 0..nsamp-1: the samples idx[j] (the ones build() picks as splitter j) get a zero low byte for j in
    `zero` and share all bytes but the last with splitter j-1 for j in `share`; None if that cannot be laid out"""
    k = len(idx)
    joined = set()
    for j in share:
        if j == 0 or j in zero or idx[j] <= idx[j - 1]:
            return None
        joined.update(range(idx[j - 1] + 1, idx[j] + 1))
    zero_at = set(idx[j] for j in zero)
    nbits = (nsamp + 1).bit_length()
    per = -(-nbits // (kbytes - 1))
    if per > 8:
        return None
    keys, g, p = [], 0, 0
    for i in range(nsamp):
        if i in joined:
            p += 1
        else:
            g, p = g + 1, 0
        lo = 0 if i in zero_at else 3 + 4 * p
        if lo > 255 or (lo == 0 and p):
            return None
        keys.append((_spread(g, nbits, per, kbytes - 1) << 8) | lo)
    if any(keys[i] >= keys[i + 1] for i in range(nsamp - 1)) or keys[0] == 0:
        return None
    return keys


def _common_bytes(a, b, kbytes):
    n = 0
    while n < kbytes and (a >> (8 * (kbytes - 1 - n))) & 0xFF == (b >> (8 * (kbytes - 1 - n))) & 0xFF:
        n += 1
    return n


def _build_once(tu, rec0, build, gets, key_ty, k, keys):
    """build() evaluated on the sorted sample `keys` in a fresh object: ([get_splitter(j)], [splitter_lcp[j]])"""
    m = Machine(tu, build)
    for f in rec0.get("fields", []):
        a = _ARR.search(f.get("ty") or "")
        m.env[("field", f["name"])] = m.alloc(int(a.group(1)), UNWRITTEN) if a else None
    samples = m.alloc(len(keys), lambda i: keys[i])
    lcp = m.alloc(k + 1)
    vals = []
    for p in build.params:
        pt = _ptr_to(p.get("ty"))
        if pt is not None and pt[0] == key_ty:
            vals.append(samples)
        elif pt is not None and _int_type(pt[0]) == (False, 8) and not pt[1]:
            vals.append(lcp)
        elif pt is None and _int_type(p.get("ty")) is not None:
            vals.append(len(keys))
        else:
            raise Undecidable("%s: the parameters of build() are not (samples, number of samples, splitter LCP array)" % build.loc)
    if sorted(vals) != sorted([samples, lcp, len(keys)]):
        raise Undecidable("%s: the parameters of build() are not (samples, number of samples, splitter LCP array)" % build.loc)
    try:
        m.call(build, None, values=vals)
        spl = [m.call(gets, None, values=[j]) for j in range(k)]
    except skel.Diverges as d_:
        raise Undecidable("%s: a loop of the classifier does not end in the evaluation" % build.nloc(d_.loop))
    return spl, [m.mem.get(lcp + j) for j in range(k)]


def check_splitter_lcp(ck, tu, rec, short, rec0, build, gets, key_ty, k, nsamp, sample0, spl0, packed0):
    """spl0 / packed0: what the evaluation of CLASSIFY-BUCKET found for its own sample (splitters known to be increasing samples)"""
    kbytes = _int_type(key_ty)[1] // 8
    if kbytes < 2 or k < 3:
        raise Undecidable("%s: %s has keys of %d byte(s) / %d splitter(s); the samples of SPLITTER-LCP-FLAGS need two bytes and three splitters"
                          % (build.loc, short, kbytes, k))
    where0 = dict((sample0(i), i) for i in range(nsamp))
    idx = [where0[v] for v in spl0]
    last = k - 1
    plans = [("the sample of CLASSIFY-BUCKET", None)]
    for name, zero, share in (
            ("even splitters end in a zero byte", set(j for j in range(k) if j % 2 == 0), set(j for j in range(k) if j % 4 == 3 and j != last)),
            ("odd splitters end in a zero byte", set(j for j in range(k) if j % 2 == 1 and j != last), set(j for j in range(1, k) if j % 4 == 2)),
            ("the smallest and every third splitter end in a zero byte", (set(j for j in range(k) if j % 3 == 1) | {0}) - {last}, set(j for j in range(1, last) if j % 5 == 4)),
            ("the largest and every third splitter end in a zero byte", (set(j for j in range(k) if j % 3 == 2) | {last}) - {0}, set(j for j in range(1, last) if j % 5 == 3))):
        share = set(j for j in share if j not in zero and j - 1 not in share)
        plans.append((name, (zero, share)))
    seen_first, seen_last, seen_lcp, n_bytes = set(), set(), set(), 0
    for name, plan in plans:
        if plan is None:
            spl, packed = spl0, packed0[:k]
        else:
            keys = _lcp_family(nsamp, idx, plan[0], plan[1], kbytes)
            if keys is None:
                raise Undecidable("%s: no sorted sample with the wanted splitter keys can be laid out for the splitters build() picks (%s)" % (build.loc, name))
            try:
                spl, packed = _build_once(tu, rec0, build, gets, key_ty, k, keys)
            except EvalFault as f_:
                ck.violation("SPLITTER-LCP-FLAGS", build.qname, "%s:fault" % rec.split("::")[-1],
                             "the evaluation of build() on %d sorted distinct samples (%s) reaches %s" % (nsamp, name, f_), build.loc)
                return
            if any(not isinstance(v, int) or isinstance(v, bool) for v in spl) or any(spl[j] <= spl[j - 1] for j in range(1, k)):
                raise Undecidable("%s: get_splitter() does not yield increasing keys after build() on the sample `%s`; the packed bytes are "
                                  "not compared" % (gets.loc, name))
        for j in range(k):
            v = packed[j]
            if not isinstance(v, int) or isinstance(v, bool):
                raise Undecidable("%s: splitter_lcp[%d] has no value after build() in the evaluation (%s)" % (build.loc, j, name))
            done = spl[j] & 0xFF == 0
            common = _common_bytes(spl[j - 1], spl[j], kbytes) if j else 0
            want = common | (0x80 if done else 0)
            if j == 0:
                seen_first.add(done)
            if j == last:
                seen_last.add(done)
            seen_lcp.add(common)
            n_bytes += 1
            if v == want:
                continue
            parts = []
            if (v & 0x80) != (want & 0x80):
                parts.append("bit 7 (the equal bucket %d is finished: the key holds the string terminator) is %s, but the low byte of the key is %s"
                             % (2 * j + 1, "set" if v & 0x80 else "clear", "zero" if done else "not zero")
                             + ("; the sorters then sort that bucket from depth + %d on, behind the terminators" % kbytes if done else
                                "; the sorters then take that bucket as finished although its strings go on"))
            if (v & 0x7F) != (want & 0x7F):
                parts.append("bits 0..6 (the depth bucket %d is sorted from) are %d, but %s"
                             % (2 * j, v & 0x7F, ("splitter %d = 0x%0*x and splitter %d share %d leading byte(s)" % (j - 1, 2 * kbytes, spl[j - 1], j, common))
                                if j else "bucket 0 has no splitter below it (0 required)"))
            ck.violation("SPLITTER-LCP-FLAGS", build.qname, "%s:byte" % rec.split("::")[-1],
                         "after build() on %d sorted distinct samples (%s) splitter %d = 0x%0*x has the packed byte splitter_lcp[%d] = 0x%02x, "
                         "required 0x%02x: %s" % (nsamp, name, j, 2 * kbytes, spl[j], j, v, want, "; ".join(parts)), build.loc)
            return
    if seen_first != {True, False} or seen_last != {True, False} or not {0, kbytes - 1} <= seen_lcp or len(seen_lcp) < min(kbytes, 3):
        raise Undecidable("%s: the samples of SPLITTER-LCP-FLAGS do not show the smallest / largest splitter of %s with and without a zero low "
                          "byte and common prefixes from 0 to %d (seen: %s)" % (build.loc, short, kbytes - 1, sorted(seen_lcp)))
    ck.ok("SPLITTER-LCP-FLAGS", short, "%d packed bytes of %d splitters over %d samples of %d keys: bit 7 <=> low byte of the splitter is zero, "
          "bits 0..6 = common leading bytes with the splitter before (0 for the first); smallest and largest splitter with and without a zero "
          "low byte, common prefixes %s" % (n_bytes, k, len(plans), nsamp, sorted(seen_lcp)))


def check_classifier(ck, tu):
    n_inst = 0
    for (rec, targs), fns in sorted(classifier_classes(tu).items()):
        short = "%s<%s>" % (rec.split("::")[-1], ", ".join(targs))
        recs = [r for r in tu.records if r.get("qname") == rec and tuple(r.get("targs") or []) == targs]
        if len(recs) != 1:
            raise Undecidable("%s: the layout of %s is not in the IR" % (fns[0].loc, short))
        statics = dict((s_["name"], s_.get("val")) for s_ in recs[0].get("statics", []))
        k = statics.get("num_splitters")
        if not isinstance(k, int) or not 1 <= k <= 1 << 15:
            raise Undecidable("%s: %s::num_splitters is not a constant in the IR" % (fns[0].loc, short))
        build = [f for f in fns if f.name == "build"]
        gets = [f for f in fns if f.name == "get_splitter"]
        if len(build) != 1 or len(gets) != 1 or len(gets[0].params) != 1:
            raise Undecidable("%s: build() / get_splitter(i) of %s are not in the IR" % (fns[0].loc, short))
        build, gets = build[0], gets[0]
        key_ty = _bare_ty(targs[0]) if targs else None
        if _int_type(key_ty) is None or _int_type(key_ty)[0]:
            raise Undecidable("%s: the key type of %s (%s) is not an unsigned integer" % (fns[0].loc, short, key_ty))
        routines = stored_routines(fns, tu.by_did)
        kinds = [(f, bind_routine(f, key_ty), x, c) for f, x, c in routines]
        # ---- the object and the sample
        m = Machine(tu, build)
        for f in recs[0].get("fields", []):
            a = _ARR.search(f.get("ty") or "")
            m.env[("field", f["name"])] = m.alloc(int(a.group(1)), UNWRITTEN) if a else None
        nsamp = 2 * k
        gap = 16
        sample = lambda i: gap * (i + 1) + (0 if (i // 2) % 3 == 0 else 3)       # a third of the keys end in a zero byte (`done` splitters)
        samples = m.alloc(nsamp, sample)
        lcp = m.alloc(k + 1)
        vals = []
        for p in build.params:
            pt = _ptr_to(p.get("ty"))
            if pt is not None and pt[0] == key_ty:
                vals.append(samples)
            elif pt is not None and _int_type(pt[0]) == (False, 8) and not pt[1]:
                vals.append(lcp)
            elif pt is None and _int_type(p.get("ty")) is not None:
                vals.append(nsamp)
            else:
                raise Undecidable("%s: the parameters of build() are not (samples, number of samples, splitter LCP array)" % build.loc)
        if sorted(vals) != sorted([samples, lcp, nsamp]):
            raise Undecidable("%s: the parameters of build() are not (samples, number of samples, splitter LCP array)" % build.loc)
        stage = "build() on %d sorted distinct samples" % nsamp
        try:
            m.call(build, None, values=vals)
            spl = []
            for j in range(k):
                stage = "get_splitter(%d) after build()" % j
                spl.append(m.call(gets, None, values=[j]))
        except skel.Diverges as d_:
            raise Undecidable("%s: a loop of the classifier does not end in the evaluation" % build.nloc(d_.loop))
        except EvalFault as f_:
            ck.violation("CLASSIFY-BUCKET", gets.qname if "get_splitter" in stage else build.qname, "%s:fault" % rec.split("::")[-1],
                         "the evaluation of %s reaches %s" % (stage, f_), gets.loc if "get_splitter" in stage else build.loc)
            continue
        if any(not isinstance(v, int) or isinstance(v, bool) for v in spl):
            j = [i for i, v in enumerate(spl) if not isinstance(v, int) or isinstance(v, bool)][0]
            if spl[j] is UNWRITTEN:
                ck.violation("CLASSIFY-BUCKET", gets.qname, "%s:splitters" % rec.split("::")[-1],
                             "after build() on %d sorted distinct samples get_splitter(%d) returns an element of the classifier's arrays that build() "
                             "never wrote: the sorters take the splitter of bucket b from get_splitter(b / 2)" % (nsamp, j), gets.loc)
                continue
            raise Undecidable("%s: get_splitter(%d) has no value after build() in the evaluation" % (gets.loc, j))
        sample_set = set(sample(i) for i in range(nsamp))
        # the packed bytes build() wrote: LCP of neighbouring splitters (at most the key length, < 16) | flag of a splitter that ends in a zero byte
        packed = [m.mem.get(lcp + j) for j in range(k + 1)]
        if all(isinstance(v, int) and not isinstance(v, bool) for v in packed):
            tu.__dict__.setdefault("_c04_eval_flags", set()).update(v & 0xF0 for v in packed if v & 0xF0)
        bad = [j for j in range(k) if spl[j] not in sample_set or (j and spl[j] <= spl[j - 1])]
        tag0 = "%s" % short
        if bad:
            j = bad[0]
            ck.violation("CLASSIFY-BUCKET", gets.qname, "%s:splitters" % rec.split("::")[-1],
                         "after build() on %d sorted distinct samples get_splitter(%d) = %s and get_splitter(%d) = %s: the splitters are not the "
                         "samples in increasing order, on which the numbering of the buckets (2j: between splitters j-1 and j, 2j+1: equal to "
                         "splitter j) rests" % (nsamp, max(j - 1, 0), spl[max(j - 1, 0)], j, spl[j]), gets.loc)
            continue
        # ---- the packed bytes build() wrote next to the splitters (SPLITTER-LCP-FLAGS; a gap there leaves CLASSIFY-BUCKET as it is)
        ck.guarded(lambda: check_splitter_lcp(ck, tu, rec, short, recs[0], build, gets, key_ty, k, nsamp, sample, spl, packed))
        # ---- every position of a key relative to the splitters
        keys = []
        for j in range(k):
            keys.append((spl[j] - 1, 2 * j, "a key between splitter %d and splitter %d" % (j - 1, j) if j else "a key below all splitters"))
            keys.append((spl[j], 2 * j + 1, "a key equal to splitter %d" % j))
        keys.append((spl[-1] + 1, 2 * k, "a key above all splitters"))
        results = {}
        faulted = False
        for fn, kind, x, c in kinds:
            res = []
            cur = None
            try:
                if kind[0] == "scalar":
                    for key, want, what in keys:
                        cur = what
                        res.append(m.call(fn, None, values=[key]))
                else:
                    karr = m.alloc(VEC_SLOTS, soft=True)
                    oarr = m.alloc(VEC_SLOTS, soft=True)
                    width, pos = None, 0
                    while pos < len(keys):
                        for i in range(VEC_SLOTS):
                            m.mem[karr + i] = keys[(pos + i) % len(keys)][0]
                            m.mem.pop(oarr + i, None)
                        vals = [None] * len(fn.params)
                        vals[kind[1]], vals[kind[2]] = karr, oarr
                        cur = "%s (and the %d key positions that follow)" % (keys[pos][2], VEC_SLOTS - 1)
                        m.call(fn, None, values=vals)
                        wr = [i for i in range(VEC_SLOTS) if (oarr + i) in m.mem]
                        if not wr or wr != list(range(len(wr))) or (width is not None and len(wr) != width):
                            raise Undecidable("%s: %s() does not write a fixed number of leading elements of its output array (%s)" % (fn.loc, fn.name, wr))
                        width = len(wr)
                        for i in range(width):
                            if pos + i < len(keys):
                                res.append(m.mem[oarr + i])
                        pos += width
            except skel.Diverges as d_:
                raise Undecidable("%s: a loop of %s() does not end in the evaluation" % (fn.nloc(d_.loop), fn.name))
            except EvalFault as f_:
                n_inst += 1
                faulted = True
                ck.violation("CLASSIFY-BUCKET", fn.qname, "%s:%s:fault" % (rec.split("::")[-1], fn.name),
                             "the evaluation of %s() for %s reaches %s; classify() stores the result of %s()" % (fn.name, cur, f_, fn.name), fn.loc)
                res = None
            results[fn.did] = res
        if faulted:
            continue
        for fn, kind, x, c in kinds:
            res = results[fn.did]
            tag = "%s::%s" % (short, fn.name)
            n_inst += 1
            unk = [i for i, r in enumerate(res) if not isinstance(r, int) or isinstance(r, bool)]
            if unk:
                raise Undecidable("%s: %s() yields no value for %s in the evaluation" % (fn.loc, fn.name, keys[unk[0]][2]))
            wrong = [i for i, r in enumerate(res) if r != keys[i][1]]
            if not wrong:
                ck.ok("CLASSIFY-BUCKET", tag, "%d splitters from %d samples, %d key positions: bucket = 2 * #{splitters < key} + [key is a splitter]; "
                      "result stored by classify() (line %s)" % (k, nsamp, len(keys), x.get("l")))
                continue
            i = wrong[0]
            others = ["%s() yields %d" % (g.name, results[g.did][i]) for g, kd, x2, c2 in kinds if g is not fn and isinstance(results[g.did][i], int)
                      and results[g.did][i] != res[i]]
            ck.violation("CLASSIFY-BUCKET", fn.qname, "%s:%s" % (rec.split("::")[-1], fn.name),
                         "%s() puts %s into bucket %d; the numbering of the buckets (2j: keys between splitters j-1 and j, 2j+1: keys equal to "
                         "splitter j) needs bucket %d%s. classify() stores the result of %s() for the strings that meet it by their position in "
                         "the range only (%d of %d key positions differ; %d splitters built from %d sorted samples)"
                         % (fn.name, keys[i][2], res[i], keys[i][1], ("; " + ", ".join(others) + " for the same key") if others else "",
                            fn.name, len(wrong), len(keys), k, nsamp), fn.loc)
    return n_inst


# ---------------------------------------------------------------------------------------------- BUCKET-BOUNDARY-LCP / BOUNDARY-ARRAY-SIZE
# After a sample sort step the sorted strings lie bucket by bucket; bkt[b] .. bkt[b + 1] delimits bucket b (bktnum buckets, bktnum + 1
# boundaries, the last one is the sentinel n).  The sub-sorts fill the LCP entries inside the buckets; ps5_sample_sort_lcp() owes exactly the
# entries at the seams: for consecutive non-empty buckets p < q the entry at position bkt[q] is depth + (number of common leading key bytes
# of the LAST string of p and the FIRST string of q), and no other entry is written.  Strings of an equal bucket 2j+1 all carry the key
# get_splitter(j).  Decided by evaluation of the function's AST (Machine plus goto/label) on boundary arrays the rule makes up; keys are
# concrete integers laid out so that the seams share 2..5 leading bytes while keys inside a bucket share 0..1, hence a key taken from the
# wrong end of a bucket yields another number.  get_key_at / get_splitter / set_lcp / flipped / active / shadow are the observed interface
# (events), everything else is interpreted; an unmodelled construct is `cannot decide`.
#
# BOUNDARY-ARRAY-SIZE: the boundary array of PS5BigSortStep is the counter array of part 0 (bkt_[0]), sized by a resize() in the counting
# phase.  distribute_finished() and ps5_sample_sort_lcp() (called with bkt_[0].data()) are evaluated with that array as a block of exactly
# the size the resize() argument evaluates to for that part; an element read or written outside the block is the counterexample.  Their
# index expressions do not depend on the strings, so the evaluation uses the step whose buckets are all empty.
class _Goto(Exception):
    def __init__(self, label):
        Exception.__init__(self, label)
        self.label = label


class StepMachine(Machine):
    """Machine plus: goto / labels (a goto restarts the function body in `seek` mode, which skips to the label, entering the loops and
    branches around it without evaluating their tests - the C++ meaning of a jump into a statement), static data members by the record
    tables of the IR, a finding (EvalFault) for a store just past the end of an array, and the observed interface given by `hooks`."""

    def __init__(self, tu, fn, hooks):
        Machine.__init__(self, tu, fn)
        self.seek = None
        self.hooks = hooks
        self._lab = {}

    def _has_label(self, s, lab):
        key = (id(s), lab)
        r = self._lab.get(key)
        if r is None:
            r = any(x["k"] == "LabelStmt" and x.get("label") == lab for x in ir.walk(s))
            self._lab[key] = r
        return r

    def run(self, stmts):
        saved, self.seek = self.seek, None
        jumps = 0
        try:
            while True:
                try:
                    for s in stmts:
                        self.stmt(s)
                    if self.seek is not None:
                        raise Undecidable("%s: the label `%s` of a goto is not found in the function body" % (self.fn.loc, self.seek))
                    return
                except _Goto as g:
                    jumps += 1
                    if jumps > 100000:
                        raise Undecidable("%s: more than 100000 jumps in the evaluation" % self.fn.loc)
                    self.seek = g.label
        finally:
            self.seek = saved

    def stmt(self, s):
        if s is None:
            return
        k = s["k"]
        if self.seek is None:
            if k == "GotoStmt":
                if not s.get("label"):
                    raise Undecidable("%s: computed goto" % self.fn.nloc(s))
                raise _Goto(s["label"])
            if k == "LabelStmt":
                for x in kids(s):
                    self.stmt(x)
                return
            return Machine.stmt(self, s)
        if not self._has_label(s, self.seek):
            return
        if k == "LabelStmt":
            if s.get("label") == self.seek:
                self.seek = None
            for x in kids(s):
                self.stmt(x)
            return
        if k in ("CompoundStmt", "AttributedStmt"):
            for x in kids(s):
                self.stmt(x)
            return
        if k == "IfStmt":
            for br in kids(s)[1:]:
                if br is not None and self._has_label(br, self.seek):
                    self.stmt(br)
                    return
            raise Undecidable("%s: a goto into the condition of an if" % self.fn.nloc(s))
        if k in ("ForStmt", "WhileStmt", "DoStmt"):
            init, cond, inc, body = match.loop_parts(s)
            if body is None or not self._has_label(body, self.seek):
                raise Undecidable("%s: a goto into the head of a loop" % self.fn.nloc(s))
            n, first = 0, True
            while True:
                if not first:
                    c = self.ev(cond) if cond is not None else True
                    if c is None:
                        raise Undecidable("%s: loop bound depends on data at line %s" % (self.fn.full, s.get("l")))
                    if not c:
                        break
                first = False
                n += 1
                if n > self.MAX_ITER:
                    raise skel.TooLong("%s: loop at line %s does not end within %d rounds" % (self.fn.full, s.get("l"), self.MAX_ITER))
                try:
                    self.stmt(body)
                except skel._Break:
                    break
                except skel._Continue:
                    pass
                if inc is not None:
                    self.ev(inc)
            return
        raise Undecidable("%s: a goto into a %s is not modelled" % (self.fn.nloc(s), k))

    def store(self, key, v):
        if isinstance(key, tuple) and key and key[0] == "mem" and isinstance(key[1], int) and not self.allocated(key[1]):
            a = key[1]
            i = bisect.bisect_right(self.bases, a) - 1
            if i >= 0 and not self.blocks[i][2] and self.bases[i] + self.blocks[i][1] <= a < self.bases[i] + self.blocks[i][1] + 1024:
                raise EvalFault("a write of element %d of an array of %d elements (in %s, %s)"
                                % (a - self.bases[i], self.blocks[i][1], self.fn.name, self.fn.loc))
        Machine.store(self, key, v)

    def static_member(self, e):
        recs = [r for r in self.tu.records if r.get("qname") == e.get("owner")]
        bty = _bare_ty((strip_casts(kids(e)[0]).get("ty") or "")) if kids(e) else ""
        exact = [r for r in recs if r.get("full") == bty]
        vals = set()
        for r in (exact or recs):
            for s_ in r.get("statics", []):
                if s_["name"] == e.get("member") and isinstance(s_.get("val"), int):
                    vals.add(s_["val"])
        if len(vals) != 1:
            raise Undecidable("%s: the value of the static member %s::%s is not in the IR" % (self.fn.nloc(e), e.get("owner"), e.get("member")))
        v = vals.pop()
        return bool(v) if _bare_ty(e.get("ty")) == "bool" else v

    def _event(self, e, sk):
        if e["k"] == "MemberExpr" and e.get("static") and "cval" not in e:
            return self.static_member(e)
        if "callee" in e:
            r = self.hooks(self, e)
            if r is not NotImplemented:
                return r
        return Machine._event(self, e, sk)


def _recv(e):
    """receiver expression of a member call (casts stripped), else None"""
    if e.get("member_call") and kids(e):
        return strip_casts(kids(e)[0])
    return None


def _call_args(e):
    a = [x for x in kids(e) if x is not None and x["k"] != "DefaultArg"]
    return a[1:] if e.get("member_call") else a


def _seam_keys(plan, nbuckets, kbytes):
    """plan: {bucket: number of strings}.  -> (bkt, keys, splitters, want) : the boundary array (nbuckets + 1 entries), the key of every
    string, {j: get_splitter(j)} for every j, {position: common leading bytes at the seam}"""
    k = (nbuckets - 1) // 2
    order = sorted(plan)
    cur = [0x40] + [1] * (kbytes - 1)
    distinct, seam_of, low, high = [], {}, 0, 0
    for bi, b in enumerate(order):
        ndist = 1 if b % 2 else plan[b]
        for t in range(ndist):
            if distinct:
                if t == 0:
                    c = 2 + high % (kbytes - 4)
                    high += 1
                    seam_of[b] = c
                else:
                    c = low % 2
                    low += 1
                cur = cur[:c] + [cur[c] + 1] + [1] * (kbytes - 1 - c)
            distinct.append((b, int.from_bytes(bytes(cur), "big")))
    if any(x > 0x7f for x in cur):
        return None
    bkt, keys, pos = [0], [], 0
    first_key, at = {}, 0
    for b in range(nbuckets):
        pos += plan.get(b, 0)
        bkt.append(pos)
    per = {}
    for b, v in distinct:
        per.setdefault(b, []).append(v)
    for b in order:
        vs = per[b]
        keys += vs if b % 2 == 0 else vs * plan[b]
    spl = {}
    vals = [v for _, v in distinct]
    owner = [b for b, _ in distinct]
    j = 0
    while j < k:
        if 2 * j + 1 in plan:
            spl[j] = per[2 * j + 1][0]
            j += 1
            continue
        run = [j]
        while run[-1] + 1 < k and 2 * (run[-1] + 1) + 1 not in plan and not any(2 * run[-1] + 1 < b < 2 * (run[-1] + 1) + 1 for b in plan):
            run.append(run[-1] + 1)
        below = [v for b, v in distinct if b < 2 * j + 1]
        above = [v for b, v in distinct if b > 2 * run[-1] + 1]
        if below:
            base = below[-1] + 1
            if above and base + len(run) >= above[0]:
                return None
        elif above:
            base = above[0] - len(run) - 1
            if base < 0:
                return None
        else:
            base = 1 << 20
        for i, jj in enumerate(run):
            spl[jj] = base + i
        j = run[-1] + 1
    want = dict((bkt[b], seam_of[b]) for b in seam_of)
    return bkt, keys, spl, want


def _lcp_hooks(st):
    """the observed interface of ps5_sample_sort_lcp: st holds the parameters' ids, the keys, the splitters, and collects set_lcp events"""
    def hooks(m, e):
        nm = e["callee"]["name"]
        rc = _recv(e)
        args = _call_args(e)
        if rc is not None and rc["k"] == "DeclRefExpr" and rc["ref"]["id"] == st["strptr"]:
            if nm == "flipped" and not args:
                return st["flipped"]
            if nm in ("active", "shadow") and not args:
                return ("strings", nm)
            if nm == "set_lcp" and len(args) == 2:
                p, v = m.ev(args[0]), m.ev(args[1])
                if not isinstance(p, int) or not isinstance(v, int) or isinstance(p, bool) or isinstance(v, bool):
                    raise Undecidable("%s: set_lcp() with a position / value that the evaluation does not know" % m.fn.nloc(e))
                st["events"].append((p, v))
                return None
            raise Undecidable("%s: %s() on the string pointer is not part of the modelled interface" % (m.fn.nloc(e), nm))
        if rc is not None and rc["k"] == "DeclRefExpr" and rc["ref"]["id"] == st["classifier"]:
            if nm == "get_splitter" and len(args) == 1:
                j = m.ev(args[0])
                if not isinstance(j, int) or isinstance(j, bool):
                    raise Undecidable("%s: get_splitter() with an index that the evaluation does not know" % m.fn.nloc(e))
                if j not in st["spl"]:
                    raise EvalFault("get_splitter(%d), but the classifier has the splitters 0..%d (%s)" % (j, len(st["spl"]) - 1, m.fn.nloc(e)))
                return st["spl"][j]
            raise Undecidable("%s: %s() on the classifier is not part of the modelled interface" % (m.fn.nloc(e), nm))
        if nm == "get_key_at" and e["callee"].get("qname") == NS + "get_key_at" and len(args) == 3:
            s_, i, d = m.ev(args[0]), m.ev(args[1]), m.ev(args[2])
            want_set = ("strings", "shadow" if st["flipped"] else "active")
            if s_ != want_set or d != st["depth"] or not isinstance(i, int) or isinstance(i, bool):
                raise Undecidable("%s: get_key_at() is not called with (the sorted strings, index, depth) in the evaluation" % m.fn.nloc(e))
            i = _conv(i, "unsigned long")
            if not 0 <= i < len(st["keys"]):
                raise EvalFault("get_key_at(strset, %d, depth) with %d strings in the set (%s)" % (i, len(st["keys"]), m.fn.nloc(e)))
            return st["keys"][i]
        return NotImplemented
    return hooks


def _run_seam(tu, fn, roles, nb, kbytes, plan, flipped, cap=None):
    """evaluates ps5_sample_sort_lcp on the boundary array of `plan`; -> (got {pos: value}, want {pos: value}, events, layout)"""
    lay = _seam_keys(plan, nb, kbytes)
    if lay is None:
        raise Undecidable("%s: no key layout for the bucket plan %s" % (fn.loc, sorted(plan.items())))
    bkt, keys, spl, want = lay
    depth = 16
    st = dict(strptr=roles["strptr"]["did"], classifier=roles["classifier"]["did"], flipped=flipped, keys=keys, spl=spl, depth=depth, events=[])
    m = StepMachine(tu, fn, _lcp_hooks(st))
    size = nb + 1 if cap is None else cap
    base = m.alloc(size, lambda i: bkt[i])
    vals = []
    for p in fn.params:
        if p is roles["bkt"]:
            vals.append(base)
        elif p is roles["depth"]:
            vals.append(depth)
        else:
            vals.append(("object", p.get("name")))
    try:
        m.call(fn, None, values=vals)
    except skel.Diverges as d_:
        raise Undecidable("%s: a loop does not end in the evaluation" % fn.nloc(d_.loop))
    got = {}
    for p, v in st["events"]:
        got[p] = v
    return got, dict((p, depth + c) for p, c in want.items()), st["events"], lay


def _lcp_roles(fn):
    """the parameters of ps5_sample_sort_lcp by type: boundary array (pointer to unsigned integers), depth (the integer), classifier (the
    one get_splitter() is called on), string pointer (the one set_lcp() is called on)"""
    roles = {}
    for p in fn.params:
        pt = _ptr_to(p.get("ty"))
        if pt is not None and _int_type(pt[0]) is not None and not _int_type(pt[0])[0]:
            roles.setdefault("bkt", p)
        elif pt is None and _int_type((p.get("ty") or "").rstrip("& ")) is not None:
            roles.setdefault("depth", p)
    by_did = dict((p["did"], p) for p in fn.params)
    for x in fn.nodes():
        if "callee" in x and x["callee"]["name"] in ("get_splitter", "set_lcp"):
            rc = _recv(x)
            if rc is not None and rc["k"] == "DeclRefExpr" and rc["ref"]["id"] in by_did:
                roles.setdefault("classifier" if x["callee"]["name"] == "get_splitter" else "strptr", by_did[rc["ref"]["id"]])
    if set(roles) != {"bkt", "depth", "classifier", "strptr"} or len(set(id(p) for p in roles.values())) != 4:
        raise Undecidable("%s: the parameters of %s are not (.., classifier, string pointer, depth, boundary array)" % (fn.loc, fn.name))
    return roles


def _seam_domain(fn):
    try:
        nb = int(_re.match(r"\d+", (fn.targs or [""])[0]).group(0))
    except (AttributeError, ValueError):
        raise Undecidable("%s: the number of buckets is not the first template argument of %s" % (fn.loc, fn.name))
    kty = None
    for x in fn.nodes():
        if "callee" in x and x["callee"]["name"] == "get_splitter":
            kty = _bare_ty(x["callee"].get("ret"))
    if kty is None or _int_type(kty) is None or _int_type(kty)[1] < 64:
        raise Undecidable("%s: the key type of %s (%s) has fewer than 8 bytes; the key layout of BUCKET-BOUNDARY-LCP needs 8" % (fn.loc, fn.name, kty))
    if nb < 15 or nb % 2 == 0:
        raise Undecidable("%s: %s has %d buckets; the plans of BUCKET-BOUNDARY-LCP need an odd number >= 15" % (fn.loc, fn.name, nb))
    return nb, _int_type(kty)[1] // 8


def seam_plans(nb):
    last = nb - 1
    return [
        ("first non-empty bucket is bucket 0 (a < bucket of three strings); every kind of seam", {0: 3, 1: 2, 2: 2, 5: 1, 6: 3, 8: 2, 11: 2, 13: 1, last: 2}, False),
        ("first non-empty bucket is an = bucket", {1: 2, 4: 3, last - 1: 1}, False),
        ("first non-empty bucket is a later < bucket, pointer flipped", {2: 3, 3: 1, last: 1}, True),
        ("only the last bucket holds strings", {last: 4}, False),
        ("only one = bucket holds strings", {3: 2}, False),
    ]


def check_boundary_lcp(ck, tu):
    fns = [f for f in tu.functions if f.qname == NS + "ps5_sample_sort_lcp" and f.body is not None]
    n = 0
    seen_bst = set()
    for fn in fns:
        roles = _lcp_roles(fn)
        nb, kbytes = _seam_domain(fn)
        tag = "ps5_sample_sort_lcp [%s]" % ", ".join(t.split("::")[-1] for t in (fn.targs or [])[2:])
        n += 1
        bad = False
        # every plan on the first instance of each boundary type; the plans that decide which string of a bucket is read on all instances
        bst = roles["bkt"].get("ty")
        plans = seam_plans(nb) if bst not in seen_bst else seam_plans(nb)[:2]
        seen_bst.add(bst)
        seams = 0
        for name, plan, flipped in plans:
            try:
                got, want, events, lay = _run_seam(tu, fn, roles, nb, kbytes, plan, flipped)
            except EvalFault as f_:
                ck.violation("BUCKET-BOUNDARY-LCP", fn.qname, "ps5_sample_sort_lcp:fault",
                             "%d buckets, strings in the buckets %s (%s): the evaluation reaches %s"
                             % (nb, ", ".join("%d (%d)" % bz for bz in sorted(plan.items())), name, f_), fn.loc)
                bad = True
                break
            seams += len(want)
            if got == want:
                continue
            bkt, keys, spl, _ = lay
            for p in sorted(set(got) | set(want)):
                if got.get(p) == want.get(p):
                    continue
                if p in want:
                    why = ("the LCP entry at position %d (first string of a bucket, key 0x%016x; the string before it has the key 0x%016x: %d common "
                           "leading bytes, depth 16) %s, required %d"
                           % (p, keys[p], keys[p - 1], want[p] - 16, ("is set to %d" % got[p]) if p in got else "is not written", want[p]))
                else:
                    why = "the LCP entry at position %d is set to %d, but position %d is not the first string of a bucket after another non-empty bucket" % (p, got[p], p)
                ck.violation("BUCKET-BOUNDARY-LCP", fn.qname, "ps5_sample_sort_lcp:seam",
                             "%d buckets, strings in the buckets %s (%s): %s - the entry at a seam is depth + common key bytes of the last string "
                             "of the bucket before and the first string of the bucket after"
                             % (nb, ", ".join("%d (%d)" % bz for bz in sorted(plan.items())), name, why), fn.loc)
                bad = True
                break
            if bad:
                break
        if not bad:
            ck.ok("BUCKET-BOUNDARY-LCP", tag, "%d bucket plans, %d seams: set_lcp(first string of the later bucket, depth + common key bytes with the "
                  "last string of the bucket before), nothing else written, no read outside the %d boundaries" % (len(plans), seams, nb + 1))
    return n


def _vec_elem(e):
    """(field, index expression) if e is this->field[index], else None"""
    ip = match.index_parts(e)
    if ip and match.this_field(ip[0]):
        return match.this_field(ip[0]), ip[1]
    return None


def _resize_capacity(tu, fns, field, part):
    """number of elements this->field[part] gets from the resize() calls of the class (all sites must agree), evaluated from the argument"""
    caps, site = set(), None
    for fn in fns:
        for x in fn.nodes():
            if "callee" in x and x.get("member_call") and x["callee"]["name"] in ("resize", "assign") and _recv(x) is not None:
                ve = _vec_elem(_recv(x))
                if ve is None or ve[0] != field:
                    continue
                idx = strip_casts(ve[1])
                args = _call_args(x)
                if x["callee"]["name"] != "resize" or not args or idx is None:
                    raise Undecidable("%s: %s[..] is sized by a call the evaluation does not model" % (fn.nloc(x), field))
                env = {}
                if idx["k"] == "DeclRefExpr" and idx["ref"].get("kind") == "param":
                    env[idx["ref"]["id"]] = part
                elif const_int(idx) is not None:
                    if const_int(idx) != part:
                        continue
                else:
                    raise Undecidable("%s: %s[..] is resized under an index that is not a parameter or a constant" % (fn.nloc(x), field))
                sk = skel.Skel(fn, env=env, tu=tu)
                v = sk.ev(args[0])
                if not isinstance(v, int) or isinstance(v, bool) or not 0 <= v <= 1 << 20:
                    raise Undecidable("%s: the size %s[..] is resized to is not known for part %d" % (fn.nloc(x), field, part))
                caps.add(v)
                site = (fn, x)
    if len(caps) != 1:
        raise Undecidable("%s: no single size of %s[%d] follows from the resize() calls of the class" % (fns[0].loc, field, part))
    return caps.pop(), site


def _step_hooks(tu, fns, st):
    """the observed interface of a PS5BigSortStep member evaluated on the step without strings"""
    def block(m, field, part):
        key = (field, part)
        if key not in st["blocks"]:
            cap, site = _resize_capacity(tu, fns, field, part)
            st["blocks"][key] = (m.alloc(cap, 0), cap, site)
        if st["blocks"][key] is None:
            raise Undecidable("%s: %s[%d] is used after destroy()" % (m.fn.loc, field, part))
        return st["blocks"][key]

    def hooks(m, e):
        nm = e["callee"]["name"]
        rc = _recv(e)
        args = _call_args(e)
        if rc is None:
            return NotImplemented
        ve = _vec_elem(rc)
        if ve is not None and nm in ("data", "begin", "destroy") and not args:
            part = m.ev(ve[1])
            if not isinstance(part, int) or isinstance(part, bool):
                raise Undecidable("%s: %s[..] under an index the evaluation does not know" % (m.fn.nloc(e), ve[0]))
            b = block(m, ve[0], part)
            if nm == "destroy":
                st["blocks"][(ve[0], part)] = None
                return None
            st["used"].add((ve[0], part))
            return b[0]
        if rc["k"] == "This" and nm in ("substep_add", "substep_notify_done") and not args:
            return None
        f = match.this_field(rc)
        if f and nm == "size" and not args and (_bare_ty(rc.get("ty")).startswith(NS + "String")):
            return 0
        return NotImplemented
    return hooks


def check_boundary_array(ck, tu):
    by_inst = {}
    for fn in tu.functions:
        if fn.record == BIG and fn.body is not None and fn.kind == "method":
            by_inst.setdefault(tuple(fn.rtargs or []), []).append(fn)
    n = 0
    for rt, fns in sorted(by_inst.items()):
        tag = "PS5BigSortStep [%s]" % inst(fns[0])
        users = [f for f in fns if any("callee" in x and x["callee"]["name"] == "substep_notify_done" and _recv(x) is not None and _recv(x)["k"] == "This"
                                       for x in f.nodes())
                 and any("callee" in x and x["callee"]["name"] == "data" and _recv(x) is not None and _vec_elem(_recv(x)) for x in f.nodes())]
        if len(users) != 1:
            raise Undecidable("%s: the member that turns the counters of part 0 into bucket boundaries (takes [..].data(), releases the handle) "
                              "is not found in %s" % (fns[0].loc, tag))
        fin = users[0]
        n += 1
        st = dict(blocks={}, used=set())
        m = StepMachine(tu, fin, _step_hooks(tu, fns, st))
        try:
            m.call(fin, None, values=[])
        except EvalFault as f_:
            live = [(k_, v_) for k_, v_ in st["blocks"].items() if v_ is not None and k_ in st["used"]]
            if len(live) != 1:
                raise Undecidable("%s: the evaluation reaches %s, but it is not clear which counter array is meant" % (fin.loc, f_))
            (field, part), blk = live[0]
            ck.violation("BOUNDARY-ARRAY-SIZE", fin.qname, "%s:%s" % (fin.name, field),
                         "%s() evaluated on the step whose buckets are all empty reaches %s; %s[%d] has the %d elements that %s() (line %s) "
                         "resizes it to for part %d: the bucket boundaries need one element per bucket and the sentinel"
                         % (fin.name, f_, field, part, blk[1], blk[2][0].name, blk[2][1].get("l"), part), fin.loc)
            continue
        except skel.Diverges as d_:
            raise Undecidable("%s: a loop does not end in the evaluation" % fin.nloc(d_.loop))
        if not st["used"]:
            raise Undecidable("%s: %s() does not take the data() of a counter array in the evaluation" % (fin.loc, fin.name))
        # the boundary array handed to the LCP pass
        passed = 0
        for f in fns:
            for x in f.nodes():
                if "callee" not in x or x["callee"].get("qname") != NS + "ps5_sample_sort_lcp":
                    continue
                callee = tu.by_did.get(x["callee"].get("did"))
                if callee is None or callee.body is None:
                    raise Undecidable("%s: the body of ps5_sample_sort_lcp called here is not in the IR" % f.nloc(x))
                roles = _lcp_roles(callee)
                nb, kbytes = _seam_domain(callee)
                a = _call_args(x)[callee.params.index(roles["bkt"])]
                a = strip_casts(a)
                ve = _vec_elem(_recv(a)) if a is not None and "callee" in a and a["callee"]["name"] == "data" and _recv(a) is not None else None
                if ve is None or const_int(ve[1]) is None:
                    raise Undecidable("%s: the boundary array handed to ps5_sample_sort_lcp is not [constant].data() of a counter array" % f.nloc(x))
                cap, site = _resize_capacity(tu, fns, ve[0], const_int(ve[1]))
                passed += 1
                try:
                    _run_seam(tu, callee, roles, nb, kbytes, {}, False, cap=cap)
                except EvalFault as f_:
                    ck.violation("BOUNDARY-ARRAY-SIZE", f.qname, "%s:%s" % (f.name, ve[0]),
                                 "%s() hands %s[%d].data() to ps5_sample_sort_lcp<%d>; evaluated on the step whose buckets are all empty it reaches %s; "
                                 "%s[%d] has the %d elements that %s() (line %s) resizes it to: the LCP pass reads one boundary per bucket and the sentinel"
                                 % (f.name, ve[0], const_int(ve[1]), nb, f_, ve[0], const_int(ve[1]), cap, site[0].name, site[1].get("l")), f.nloc(x))
                    passed = -100
        if passed < 0:
            continue
        ck.ok("BOUNDARY-ARRAY-SIZE", tag, "%s() and %d LCP pass(es) evaluated with %s as blocks of the size resize() gives them: every element read or "
              "written lies inside" % (fin.name, passed, ", ".join("%s[%d]" % k_ for k_ in sorted(st["used"]))))
    return n


# ---------------------------------------------------------------------------------------------- FRONT-LEVEL
# PS5SmallsortJob keeps its pending work on stacks of levels (std::vector members) that are consumed from both ends: the owner works on the
# top (back()), work sharing gives away the OLDEST live level - the element at the front cursor (an integer member) - and retires it by
# advancing that cursor; levels below the cursor are finished by others and only get their LCPs at the very end.  So in a function that
# gives buckets of a level of a stack C away (ctx.enqueue), that level must be one of those the call retires: with F0 the cursor at entry, Fb
# where the level is taken and F1 at the return, the level index(Fb) must lie in F0 .. F1-1 on every path (the usual form: C[F] taken, F
# advanced once afterwards).  Which element an expression denotes is decided by evaluating its index for stacks of 1..4 elements and every
# cursor position with a live level; the advances of the cursor before / after are counted on the CFG (fewest on any path).  A
# counterexample with two or more elements is reported only if the class is seen to push onto a non-empty stack.
STACK_PUSH = ("emplace_back", "push_back")
STACK_POP = ("pop_back", "clear", "resize", "erase")


def vector_field(fn, e):
    """name of the std::vector member of *this that e denotes (through aliases), else None"""
    r = resolve(fn, e)
    if r is not None and this_member_access(r) and (r.get("ty") or "").replace("const ", "").strip().startswith("std::vector<"):
        return r["member"]
    return None


def int_field(fn, e):
    r = peel(e)
    if r is not None and this_member_access(r) and _int_type(r.get("ty")) is not None:
        return r["member"]
    return None


def level_index(fn, e, sizes, fields, depth=0):
    """value of an integer expression over the sizes of vector members and the values of integer members given; None if not understood"""
    e = peel(e)
    if e is None or depth > 10:
        return None
    c = const_int(e)
    if c is not None:
        return c
    f = int_field(fn, e)
    if f is not None:
        return fields.get(f)
    if "callee" in e and e.get("member_call") and e["callee"]["name"] == "size" and len(kids(e)) == 1:
        v = vector_field(fn, kids(e)[0])
        return sizes.get(v) if v else None
    if e["k"] == "DeclRefExpr":
        v = stable_local(fn, e["ref"]["id"])
        if v is not None and not (v.get("isref") or (v.get("ty") or "").strip().endswith("&")):
            return level_index(fn, kids(v)[0], sizes, fields, depth + 1)
        return None
    b = match.binop(e, ("+", "-", "*")) if e["k"] == "BinaryOperator" else None
    if b:
        l, r = level_index(fn, b[1], sizes, fields, depth + 1), level_index(fn, b[2], sizes, fields, depth + 1)
        if l is None or r is None:
            return None
        return l + r if b[0] == "+" else (l - r if b[0] == "-" else l * r)
    if e["k"] == "ConditionalOperator" and len(kids(e)) == 3:
        c = level_cond(fn, kids(e)[0], sizes, fields, depth + 1)
        if c is None:
            return None
        return level_index(fn, kids(e)[1] if c else kids(e)[2], sizes, fields, depth + 1)
    if "callee" in e and e["callee"]["name"] in ("min", "max") and (e["callee"].get("qname") or "").startswith("std::"):
        a = [level_index(fn, x, sizes, fields, depth + 1) for x in kids(e) if x is not None and x["k"] != "DefaultArg"]
        if len(a) == 2 and None not in a:
            return min(a) if e["callee"]["name"] == "min" else max(a)
    return None


def level_cond(fn, e, sizes, fields, depth=0):
    """truth value of a condition over the sizes of the stacks and the cursors; None if not understood"""
    e = peel(e)
    if e is None or depth > 10:
        return None
    if e["k"] == "UnaryOperator" and e.get("op") == "!" and match.binop(e, ("==", "!=")) is None:
        v = level_cond(fn, kids(e)[0], sizes, fields, depth + 1)
        return None if v is None else (not v)
    if e["k"] == "BinaryOperator" and e.get("op") in ("&&", "||"):
        l = level_cond(fn, kids(e)[0], sizes, fields, depth + 1)
        r = level_cond(fn, kids(e)[1], sizes, fields, depth + 1)
        if l is None or r is None:
            return None
        return (l and r) if e["op"] == "&&" else (l or r)
    c = match.binop(e, ("==", "!=", "<", ">", "<=", ">="))
    if c:
        l, r = level_index(fn, c[1], sizes, fields, depth + 1), level_index(fn, c[2], sizes, fields, depth + 1)
        if l is None or r is None or l < 0 or r < 0:
            return None         # (unsigned operands: a negative intermediate value would wrap around)
        return _CMP[c[0]](l, r)
    if "callee" in e and e.get("member_call") and e["callee"]["name"] == "empty" and len(kids(e)) == 1:
        v = vector_field(fn, kids(e)[0])
        return (sizes[v] == 0) if v in sizes else None
    return None


def level_position(fn, e, sizes, fields, depth=0):
    """(vector member, offset from its first element) of an iterator / pointer expression: C.begin() C.data() C.end() +- k, &C[k]"""
    e = peel(e)
    if e is None or depth > 10:
        return None
    if "callee" in e and e.get("member_call") and len(kids(e)) == 1 and e["callee"]["name"] in ("begin", "cbegin", "data", "end", "cend"):
        v = vector_field(fn, kids(e)[0])
        if v is None or v not in sizes:
            return None
        return (v, sizes[v] if e["callee"]["name"] in ("end", "cend") else 0)
    if e["k"] == "UnaryOperator" and e.get("op") == "&":
        el = level_element(fn, kids(e)[0], sizes, fields, depth + 1)
        return el
    b = match.binop(e, ("+", "-"))
    if b:
        for pe, ke, sign in ((b[1], b[2], 1 if b[0] == "+" else -1),) + (((b[2], b[1], 1),) if b[0] == "+" else ()):
            p_ = level_position(fn, pe, sizes, fields, depth + 1)
            k_ = level_index(fn, ke, sizes, fields, depth + 1)
            if p_ is not None and k_ is not None:
                return (p_[0], p_[1] + sign * k_)
    if e["k"] == "DeclRefExpr":
        v = stable_local(fn, e["ref"]["id"])
        if v is not None:
            return level_position(fn, kids(v)[0], sizes, fields, depth + 1)
    return None


def level_element(fn, e, sizes, fields, depth=0):
    """(vector member, index) of the element of a std::vector member of *this that e denotes: C[i] C.at(i) C.back() C.front() *(C.begin() + i)
    *(C.end() - i) C.data()[i] *C.rbegin(); None when e is of another form"""
    e = peel(e)
    if e is None or depth > 10:
        return None
    ip = match.index_parts(e)
    if ip:
        v = vector_field(fn, ip[0])
        i = level_index(fn, ip[1], sizes, fields, depth + 1)
        if v is not None:
            return (v, i) if i is not None and v in sizes else None
        p_ = level_position(fn, ip[0], sizes, fields, depth + 1)
        return (p_[0], p_[1] + i) if p_ is not None and i is not None else None
    if "callee" in e and e.get("member_call") and len(kids(e)) == 1 and e["callee"]["name"] in ("back", "front"):
        v = vector_field(fn, kids(e)[0])
        if v is not None and v in sizes:
            return (v, sizes[v] - 1 if e["callee"]["name"] == "back" else 0)
        return None
    d = match.deref_of(e)
    if d is not None:
        dd = peel(d)
        if dd is not None and "callee" in dd and dd.get("member_call") and len(kids(dd)) == 1 and dd["callee"]["name"] in ("rbegin", "crbegin"):
            v = vector_field(fn, kids(dd)[0])
            return (v, sizes[v] - 1) if v is not None and v in sizes else None
        return level_position(fn, d, sizes, fields, depth + 1)
    return None


def mentions_vector(fn, e, names):
    return any(this_member_access(z) and z.get("member") in names for z in ir.walk(e))


def stack_cursor_pairs(fns):
    """{(vector member C, integer member F)}: F indexes C (C[F], C[--F], C.begin() + F ..) or is compared with C.size() somewhere in the class"""
    pairs = set()
    for fn in fns:
        for x in fn.nodes():
            ip = match.index_parts(x) if (x["k"] == "ArraySubscriptExpr" or "callee" in x) else None
            if ip:
                v = vector_field(fn, ip[0])
                if v:
                    for z in ir.walk(ip[1]):
                        f = int_field(fn, z)
                        if f:
                            pairs.add((v, f))
            c = match.binop(x, ("==", "!=", "<", ">", "<=", ">=")) if x["k"] in ("BinaryOperator", "CXXOperatorCallExpr", "UnaryOperator") else None
            if c:
                for a, b in ((c[1], c[2]), (c[2], c[1])):
                    a_ = peel(a)
                    f = int_field(fn, b)
                    if f and a_ is not None and "callee" in a_ and a_.get("member_call") and a_["callee"]["name"] == "size" and len(kids(a_)) == 1:
                        v = vector_field(fn, kids(a_)[0])
                        if v:
                            pairs.add((v, f))
    return pairs


def can_hold_two(fns, C):
    """the class pushes onto C at a point that another push reaches without passing a pop: two live levels exist"""
    for fn in fns:
        if not fn.cfg:
            continue
        push = [x for x in fn.nodes() if "callee" in x and x.get("member_call") and x["callee"]["name"] in STACK_PUSH and kids(x) and vector_field(fn, kids(x)[0]) == C]
        if not push:
            continue
        g = cfgm.CFG(fn)
        pops = [g.pos(x) for x in fn.nodes() if "callee" in x and x.get("member_call") and x["callee"]["name"] in STACK_POP and kids(x)
                and vector_field(fn, kids(x)[0]) == C and g.pos(x)]
        pp = [g.pos(x) for x in push if g.pos(x)]
        for a in pp:
            for b in pp:
                if g.path_between_avoiding(a, b, pops) is not None:
                    return True
    return False


def check_front_level(ck, tu):
    groups = {}
    for fn in tu.functions:
        if fn.record == SMALL and fn.body is not None and fn.kind not in ("lambda", "dtor", "ctor"):
            groups.setdefault(tuple(fn.rtargs or []), []).append(fn)
    n = 0
    for rt, fns in sorted(groups.items()):
        pairs = stack_cursor_pairs(fns)
        vectors = set(c for c, f in pairs)
        for fn in fns:
            if not fn.cfg:
                continue
            for C, F in sorted(pairs):
                writes = []
                for x in fn.nodes():
                    if this_member_access(x) and x.get("member") == F and _is_write(fn, x):
                        e, par = x, fn.parent(x)
                        while par is not None and par["k"] in WRAPPERS:
                            e, par = par, fn.parent(par)
                        d = match.field_delta(par, F) if par is not None else None
                        amt = None if d is None else (1 if d[1] == 1 else const_int(d[1]))
                        writes.append((par if par is not None else x, "inc" if d and d[0] == "+" and amt == 1 else "other"))
                incs = [w for w, kd in writes if kd == "inc"]
                if not incs and not any(ctx_enqueue(x) for x in fn.nodes()):
                    continue
                n += check_front_level_fn(ck, tu, fns, fn, C, F, vectors, set(f for c, f in pairs), writes, incs)
    return n


def check_front_level_fn(ck, tu, fns, fn, C, F, vectors, cursors, writes, incs):
    g = cfgm.CFG(fn)
    tag = "%s::%s [%s] %s[%s]" % (fn.record.split("::")[-1], fn.name, inst(fn), C, F)
    sig = "%s:%s" % (fn.name, C)
    others = [w for w, kd in writes if kd != "inc"]
    ipos = []
    for w in incs:
        p = g.pos_deep(w)
        if p is None:
            raise Undecidable("%s: the increment of %s has no position in the CFG" % (fn.nloc(w), F))
        ipos.append(p)
    hands = [x for x in fn.nodes() if ctx_enqueue(x)]      # (ranges the owner reports itself through ctx.donesize are not given away)
    if incs and not any(ctx_enqueue(h) for h in hands):
        raise Undecidable("%s: %s advances the front cursor %s of %s but enqueues nothing itself; which level it gives away is not derived" % (fn.loc, fn.name, F, C))
    sizes0, fields0 = dict((v, 2) for v in vectors), dict((f, 0) for f in cursors)

    def levels_in(e, at, seen, out):
        """element accesses of the stacks that the value of e is made from: [(access node, position where it is evaluated)]"""
        stack = [e]
        while stack:
            y = stack.pop()
            if y is None:
                continue
            el = level_element(fn, y, sizes0, fields0) if (y["k"] in ("ArraySubscriptExpr", "UnaryOperator") or "callee" in y) else None
            if el is not None:
                out.append((y, at if at is not None else g.pos_deep(y)))
                continue
            if y["k"] == "DeclRefExpr" and y["ref"]["id"] in _locals(fn) and y["ref"]["id"] not in seen:
                did = y["ref"]["id"]            # (a local: also one that the normaliser made of a parameter of an inlined helper)
                seen.add(did)
                v = _locals(fn).get(did)
                if v is not None and kids(v) and kids(v)[0] is not None:
                    isref = v.get("isref") or (v.get("ty") or "").strip().endswith("&")
                    before = len(out)
                    levels_in(kids(v)[0], g.pos_deep(v), seen, out)
                    if isref and len(out) == before and mentions_vector(fn, kids(v)[0], vectors):
                        raise Undecidable("%s: the reference `%s` is bound to a level of a stack in a form that is not understood (%s)"
                                          % (fn.nloc(v), v.get("name"), dtable.describe(kids(v)[0])[:80]))
                for u in uses_of(fn, did):
                    if _is_write(fn, u):
                        pu = fn.parent(u)
                        while pu is not None and pu["k"] in WRAPPERS:
                            pu = fn.parent(pu)
                        b = match.binop(pu, ("=",)) if pu is not None else None
                        if b:
                            levels_in(b[2], g.pos_deep(pu), seen, out)
                continue
            if this_member_access(y) and y.get("member") in vectors:
                par = fn.parent(y)
                while par is not None and par["k"] in WRAPPERS:
                    par = fn.parent(par)
                if par is not None and "callee" in par and par.get("member_call") and par["callee"]["name"] in ("size", "empty", "capacity"):
                    continue
                raise Undecidable("%s: a stack of levels is used in a form that is not understood on the way to a hand-out (%s)"
                                  % (fn.nloc(y), dtable.describe(par if par is not None else y)[:80]))
            stack.extend(kids(y))

    two = None
    count = 0
    per_hand = []
    for h in hands:
        lv = []
        levels_in(h, None, set(), lv)
        per_hand.append((h, lv))
    if not incs:
        # a function that does not advance this cursor: of interest only if it gives away (enqueues) buckets of a level of this stack
        if not any(ctx_enqueue(h) and any((level_element(fn, y, sizes0, fields0) or (None,))[0] == C for y, at in lv) for h, lv in per_hand):
            return 0
    if others:
        raise Undecidable("%s: %s gives away levels of %s and writes the front cursor %s in a way other than advancing it by one; which level is retired is not derived"
                          % (fn.nloc(others[0]), fn.name, C, F))
    succ, pred = _pgraph(g)
    iset = set(ipos)

    def fewest(src, dst, avoid=None):
        """fewest advances of the cursor on a path from just after position src to position dst (not counting dst itself); None: no path"""
        dist = {}
        dq = collections.deque()
        for q in succ.get(src, []):
            dq.append((q, 0))
        while dq:
            q, d = dq.popleft()
            if q in dist and dist[q] <= d:
                continue
            dist[q] = d
            if q == dst or q == avoid:
                continue
            c = 1 if q in iset else 0
            for r in succ.get(q, []):
                if r not in dist or dist[r] > d + c:
                    if c:
                        dq.append((r, d + c))
                    else:
                        dq.appendleft((r, d))
        return dist.get(dst)

    exit_p = (g.exit, -1)
    for h, lv in per_hand:
        ph = g.pos(h)
        if ph is None:
            raise Undecidable("%s: the hand-out has no position in the CFG" % fn.nloc(h))
        mine = []
        for y, at in lv:
            el = level_element(fn, y, sizes0, fields0)
            if el is not None and el[0] == C:
                mine.append((y, at))
        if not mine:
            if ctx_enqueue(h) and not lv and incs:
                raise Undecidable("%s: a job is enqueued in %s, which advances %s, without reading a level of %s; which level is given away is not derived"
                                  % (fn.nloc(h), fn.name, F, C))
            continue
        after_h = fewest(ph, exit_p)
        if after_h is None:
            continue            # no path from this hand-out to the return
        for y, at in mine:
            if at is None:
                raise Undecidable("%s: the level taken from %s has no position in the CFG" % (fn.nloc(y), C))
            # With F0 the cursor at entry, Fb where the level is taken, F1 at the return: this call retires the levels F0 .. F1-1.  The level
            # taken is L = index(Fb); it must be one of them on every path: Fb - F0 >= -(L - Fb) and F1 - Fb > L - Fb.
            between = 0 if at == ph else fewest(at, ph, avoid=at)
            if between is None:
                between = 0 if g.dominates(at, ph) or at[0] == ph[0] else None
            if between is None:
                raise Undecidable("%s: the hand-out is not reached from the place where the level is taken (%s)" % (fn.nloc(h), dtable.describe(y)[:60]))
            post = between + after_h
            pre = fewest((g.entry, -1), at)
            if pre is None:
                continue
            reached_by_inc = any(g.reachable(p, at) for p in ipos)
            for nn in (1, 2, 3, 4):
                for ff in range(min(pre, nn), nn):          # the cursor was advanced `pre` times before the level is taken
                    el = level_element(fn, y, dict((v, nn) for v in vectors), dict((f, ff) for f in cursors))
                    if el is None or el[1] is None:
                        raise Undecidable("%s: the index of the level taken from %s is not understood (%s)" % (fn.nloc(y), C, dtable.describe(y)[:80]))
                    delta = el[1] - ff
                    low_ok = delta >= -pre
                    low_bad = delta < 0 and not reached_by_inc
                    high_bad = delta > post - 1
                    if not high_bad and not low_bad:
                        if not low_ok:
                            raise Undecidable("%s: `%s` is a level below the cursor %s; whether the cursor was advanced past it in this call on every path "
                                              "is not derived" % (fn.nloc(y), dtable.describe(y)[:60], F))
                        continue
                    if nn >= 2:
                        if two is None:
                            two = can_hold_two(fns, C)
                        if not two:
                            raise Undecidable("%s: %s takes level %d of %d while the cursor is at %d, but the class is not seen to push onto a non-empty %s"
                                              % (fn.nloc(y), dtable.describe(y)[:60], el[1], nn, ff, C))
                    if high_bad:
                        f0 = ff - pre
                        retired = "no level at all" if pre + post == 0 else \
                            ("level %d" % f0 if pre + post == 1 else "the levels %d..%d" % (f0, f0 + pre + post - 1))
                        ck.violation("FRONT-LEVEL", fn.qname, sig if delta > 0 or not incs else sig + ":retire",
                                     "%s gives away (ctx.enqueue) the remaining buckets of `%s`: with %d level(s) on %s and %s = %d where the level is taken "
                                     "that is level %d. On a path through this hand-out %s is advanced %d time(s) before and %d time(s) after that point, so the call "
                                     "retires %s - not level %d. A level the owner still works on is given away (the owner computes its LCPs, or hands it out again, "
                                     "while other threads sort its buckets), and what is left of a retired level that was not given away is never sorted"
                                     % (fn.name, dtable.describe(y)[:60], nn, C, F, ff, el[1], F, pre, post, retired, el[1]), fn.nloc(y))
                    else:
                        ck.violation("FRONT-LEVEL", fn.qname, sig + ":below",
                                     "%s gives away the buckets of `%s`: with %s = %d that is level %d, a level below the front cursor that an earlier call has "
                                     "retired and given away already" % (fn.name, dtable.describe(y)[:60], F, ff, el[1]), fn.nloc(y))
                    return 1
        count += 1
    if not count:
        if not incs:
            return 0
        raise Undecidable("%s: %s advances the front cursor %s of %s, but no hand-out of a level of %s is found in it" % (fn.loc, fn.name, F, C, C))
    binds = []
    for h, lv in per_hand:
        binds += [at for y, at in lv if at is not None]
    for a in ipos:
        for b in ipos:
            if g.path_between_avoiding(a, b, binds) is not None:
                raise Undecidable("%s: %s can be advanced twice without a level being taken in between; which levels are retired is not derived" % (fn.nloc(incs[0]), F))
    ck.ok("FRONT-LEVEL", tag, "%d hand-out(s) (ctx.enqueue): the level read is among those the call retires by advancing %s, for every stack height 1..4 "
          "and every cursor position" % (count, F))
    return 1


def run(ck):
    ck.explanation = (
        "Sortedness and LCP values depend on values and are not decided. Decided ownership/ordering clauses: USE-AFTER-RELEASE - in every member "
        "function of the self-deleting job classes no member of *this is reachable in the CFG after a release point (substep_notify_done(), delete "
        "this, giving up the job's own claim on the phase counter, or enqueuing a job while no handle is held); ADD-BEFORE-ENQUEUE / HANDLE-PAIR; "
        "RMW-RESULT (completion decided by the decrement's own result, acq_rel or stronger); PACKED-LCP-MASK (every read of the packed splitter_lcp byte selects the LCP or the flag with the builder's mask); PHASE-ARM (pwork_ armed with the number of jobs before "
        "the first one is enqueued); COMPLETION-BARRIER; COPY-BACK on all paths of the leaf sorter and on every path to a ctx.donesize() report "
        "of a range that is not handed on; CLASSIFY-BUCKET (every descent routine whose result classify() stores computes bucket = 2 * #{splitters < key} + "
        "[key is a splitter] - evaluated on the tree that build() makes of a sorted sample, for every position of a key relative to the splitters); "
        "SPLITTER-LCP-FLAGS (the same evaluation of build(), on five sorted samples: splitter_lcp[j] has bit 7 set exactly when the low byte of get_splitter(j) is zero "
        "and holds in bits 0..6 the number of common leading bytes of get_splitter(j-1) and get_splitter(j), 0 for j = 0); "
        "FRONT-LEVEL (work sharing hands out the buckets of the level at the front cursor of a stack and retires exactly that level). Two genuine use-after-free defects were found "
        "(distribute_finished, loop bound re-read after the last enqueue) and fixed. The ThreadPool itself is C10.")
    tu = ir.extract("witness/C04_parallel_sample_sort.cpp")
    for fn in tu.functions:
        fn.tu = tu
    memo = {}

    def lambdas_are_plain():
        for fn in tu.functions:
            if fn.kind == "lambda" and fn.body is not None and (fn.qname or "").startswith(NS):
                for x in fn.nodes():
                    if "callee" in x and (x["callee"]["name"] in ("substep_add", "substep_notify_done") or ctx_enqueue(x)):
                        raise Undecidable("%s: a lambda registers / releases / enqueues sub-steps; the registration balance of its creator is not counted" % fn.nloc(x))
    ck.guarded(lambdas_are_plain)
    for fn in tu.functions:
        if fn.record in (BIG, SMALL) and fn.kind not in ("lambda", "dtor") and fn.body is not None and fn.cfg:
            try:
                summary(tu, fn, memo)
            except ir.AnalysisBroken:
                pass        # raised again (and recorded) by the check of that function
    for fn in tu.functions:
        if not fn.record or fn.kind == "lambda" or fn.body is None:
            continue
        if fn.record in (BIG, SMALL, STEP):
            if fn.kind == "dtor":
                continue
            ck.guarded(lambda fn=fn: check_use_after_release(ck, tu, fn))
            if fn.record in (BIG, SMALL):
                ck.guarded(lambda fn=fn: check_add_before_enqueue(ck, tu, fn, memo))
            if fn.record == BIG:
                ck.guarded(lambda fn=fn: check_phase_arm(ck, tu, fn))
    def phase_arm_everywhere():
        have = set(w.split("[")[-1].rstrip("]") for (r, w, ok, d) in ck.instances if r == "PHASE-ARM")
        want = set(inst(fn) for fn in tu.functions if fn.record == BIG and fn.body is not None)
        ck.require(want and want <= have, "no phase starter (pwork_ armed, jobs enqueued) found for PS5BigSortStep [%s" % ", ".join(sorted(want - have)))
    ck.guarded(phase_arm_everywhere)
    ck.guarded(lambda: check_rmw(ck, tu))
    ck.guarded(lambda: check_completion(ck, tu))
    ck.guarded(lambda: check_copy_back(ck, tu))
    fin_memo, fin_sites = {}, []
    for fn in tu.functions:
        if fn.body is not None and (fn.qname or "").startswith(NS):
            ck.guarded(lambda fn=fn: fin_sites.append(check_finished_ranges(ck, tu, fn, fin_memo)))
    ck.guarded(lambda: ck.require(sum(1 for n in fin_sites if n) >= 4 or ck.deferred,
                                  "places where a range is reported finished (ctx.donesize) not found in the sorters"))
    ck.guarded(lambda: ck.require(check_classifier(ck, tu) >= 2, "no classifier class (SSClassify*) with descent routines stored by classify() found"))
    ck.guarded(lambda: check_packed_lcp(ck, tu))
    ck.guarded(lambda: ck.require(check_boundary_lcp(ck, tu) >= 2, "ps5_sample_sort_lcp not found"))
    ck.guarded(lambda: ck.require(check_boundary_array(ck, tu) >= 2, "no PS5BigSortStep instance found"))
    ck.guarded(lambda: check_result_array(ck, tu))
    ck.guarded(lambda: check_stale_data_pointer(ck, tu))
    ck.guarded(lambda: ck.require(check_array_bounds(ck, tu) >= 10, "fixed-size arrays of the sample sort classes not found"))
    ck.guarded(lambda: ck.require(check_front_level(ck, tu) >= 2, "no function that advances a front cursor of a stack of levels found in PS5SmallsortJob"))
    ck.floor("CLASSIFY-BUCKET", 2)      # per class instance: the one-key and the interleaved descent of the default classifier
    ck.floor("SPLITTER-LCP-FLAGS", 3)   # per classifier instance of the witness: TreeCalcUnrollInterleave<.., 10>, <.., 3>, TreeUnrollInterleave<.., 5>
    ck.floor("BUCKET-BOUNDARY-LCP", 2)   # per instance of ps5_sample_sort_lcp (two boundary types x string pointers)
    ck.floor("BOUNDARY-ARRAY-SIZE", 2)   # per instance of PS5BigSortStep
    ck.floor("FRONT-LEVEL", 2)          # per function: sample_sort_free_work, mkqs_free_work
    ck.floor("PACKED-LCP-MASK", 12)
    ck.floor("USE-AFTER-RELEASE", 40)
    ck.floor("ADD-BEFORE-ENQUEUE", 12)
    ck.floor("HANDLE-PAIR", 12)
    ck.floor("RMW-RESULT", 6)       # per instance: >= 4 x the phase decrement (checked per instance in check_rmw) + add/notify of PS5SortStep
    ck.floor("PHASE-ARM", 4)        # per instance: >= 4 x one phase starter (sample()/count_finished() may share a helper)
    ck.floor("COMPLETION-BARRIER", 2)
    ck.floor("COPY-BACK", 8)
    ck.floor("RESULT-ARRAY", 2)
