"""C04 — parallel string sort: no use of a self-deleting step after a release point,
add-before-enqueue, counters decided by their own RMW, phase arming, completion barrier,
copy_back on all paths of the leaf sorter."""
from engine import ir, dtable, match, cfg as cfgm
from engine.ir import kids, strip_casts, const_int, ref_of

NS = "tlx::sort_strings_detail::"
BIG = NS + "PS5BigSortStep"
SMALL = NS + "PS5SmallsortJob"
STEP = NS + "PS5SortStep"
ORDER = {0: "relaxed", 1: "consume", 2: "acquire", 3: "release", 4: "acq_rel", 5: "seq_cst"}
# functions that run while the anonymous handle (substep_add at the start of run()/distribute_finished()) is held: enqueues in them cannot
# complete the step (frozen table, confirmed by reading: run() brackets sort_sample_sort/sort_mkqs_cache and their *_free_work helpers)
UNDER_HANDLE = ("run", "sort_sample_sort", "sample_sort_free_work", "sort_mkqs_cache", "mkqs_free_work")


def this_member_access(x):
    """x reads/writes a member of *this (implicit or explicit this->), incl. member calls"""
    if x["k"] == "MemberExpr" and kids(x):
        b = strip_casts(kids(x)[0])
        return b is not None and b["k"] == "This"
    if x["k"] == "This":
        return True
    return False


def inst(fn):
    r = fn.rtargs
    lcp = "lcp" if any("StringShadowLcpPtr" in a for a in r) else "nolcp"
    st = "string" if any("basic_string" in a for a in r) else "cstr"
    return "%s/%s" % (st, lcp)


def is_call(x, name, on_this=True):
    if "callee" in x and x["callee"]["name"] == name and x.get("member_call"):
        o = strip_casts(kids(x)[0])
        return (o["k"] == "This") if on_this else True
    return False


def pool_enqueue(x):
    """ctx_.threads_.enqueue(lambda) / ctx.threads_.enqueue(lambda)"""
    if "callee" in x and x["callee"]["name"] == "enqueue" and x.get("member_call") and "ThreadPool" in (x["callee"].get("record") or ""):
        return True
    return False


def ctx_enqueue(x):
    """ctx_.enqueue(this, strptr, depth)"""
    return "callee" in x and x["callee"]["name"] == "enqueue" and x.get("member_call") and "PS5Context" in (x["callee"].get("record") or "")


def check_use_after_release(ck, tu, fn):
    g = cfgm.CFG(fn)
    tag = "%s::%s [%s]" % (fn.record.split("::")[-1], fn.name, inst(fn))
    sig0 = "%s::%s" % (fn.record.split("::")[-1], fn.name)
    releases = []
    holds = fn.name in UNDER_HANDLE
    own_add = [x for x in fn.nodes() if is_call(x, "substep_add")]
    for x in fn.nodes():
        if is_call(x, "substep_notify_done"):
            releases.append((x, "substep_notify_done() may run substep_all_done(), which deletes this"))
        if x["k"] == "CXXDeleteExpr" and strip_casts(kids(x)[0])["k"] == "This":
            releases.append((x, "delete this"))
        # giving up this job's claim on a phase counter: others may finish the step afterwards
        u = match.unop(x, ("--",))
        if u and match.this_field(u[1]) == "pwork_":
            releases.append((x, "--pwork_ gives up this job's claim: unless it reached zero another thread may complete and delete the step"))
        if "callee" in x and x["k"] == "CXXOperatorCallExpr" and x.get("op") == "--" and match.this_field(kids(x)[0]) == "pwork_":
            releases.append((x, "--pwork_ gives up this job's claim: unless it reached zero another thread may complete and delete the step"))
        if pool_enqueue(x) and not holds and not (own_add and g.pos(own_add[0]) and g.dominates(g.pos(own_add[0]), g.pos(x))):
            releases.append((x, "a job enqueued while no handle is held can run the remaining phases to completion and delete the step"))
    n_ok = 0
    for (r, why) in releases:
        pr = g.pos(r)
        if pr is None:
            continue
        bad = None
        for y in fn.nodes():
            if not this_member_access(y) or y is r:
                continue
            py = g.pos(y)
            if py is None or py == pr:
                continue
            if any(z is y for z in ir.walk(r)):
                continue          # operands of the release call itself are evaluated before it
            if not g.reachable(pr, py):
                continue
            # the `== 0` branch after an own decrement: we are the last job and own the object
            if "pwork_" in why:
                owner = False
                par = fn.parent(r)
                while par is not None and par["k"] != "IfStmt":
                    par = fn.parent(par)
                if par is not None and kids(par)[1] is not None and any(z is y for z in ir.walk(kids(par)[1])):
                    c = match.binop(kids(par)[0], ("==",))
                    if c and const_int(c[2]) == 0 and any(z is r for z in ir.walk(c[1])):
                        owner = True
                if owner:
                    continue
            # an unheld enqueue inside a loop: accesses in the loop body before the next enqueue are safe while iterations remain
            # (cond true => jobs still to be enqueued => the phase counter cannot reach zero); the loop condition / increment are not
            if "enqueued" in why:
                lp = fn.parent(r)
                while lp is not None and lp["k"] not in ("ForStmt", "WhileStmt"):
                    lp = fn.parent(lp)
                if lp is not None:
                    init, cond, inc, body = match.loop_parts(lp)
                    in_cond = (cond is not None and any(z is y for z in ir.walk(cond))) or (inc is not None and any(z is y for z in ir.walk(inc)))
                    in_body = any(z is y for z in ir.walk(body))
                    if in_body and not in_cond:
                        continue
            bad = y
            break
        if bad is not None:
            what = dtable.describe(bad) if bad["k"] != "This" else "this"
            ck.violation("USE-AFTER-RELEASE", fn.qname, "%s:%s" % (sig0, what.replace(" ", "")),
                         "member `%s` is accessed after a release point (%s): heap-use-after-free when the step completes in between" % (what, why), fn.nloc(bad))
            return
        n_ok += 1
    if releases:
        ck.ok("USE-AFTER-RELEASE", tag, "%d release point(s), no member access reachable afterwards" % len(releases))


def check_add_before_enqueue(ck, fn):
    g = cfgm.CFG(fn)
    tag = "%s::%s [%s]" % (fn.record.split("::")[-1], fn.name, inst(fn))
    enq = [x for x in fn.nodes() if ctx_enqueue(x) and strip_casts(kids(x)[1])["k"] == "This"]
    adds = [x for x in fn.nodes() if is_call(x, "substep_add")]
    notifies = [x for x in fn.nodes() if is_call(x, "substep_notify_done")]
    if not enq and not adds:
        return
    bad = False
    lists = []
    for x in fn.nodes():
        if x["k"] == "CompoundStmt":
            lists.append([c for c in kids(x) if c is not None])
    for e in enq:
        # the statement immediately before the enqueue statement is this->substep_add()
        okk = False
        for flat in lists:
            for i, s in enumerate(flat):
                if s is e or any(z is e for z in ir.walk(s)) and s["k"] not in ("CompoundStmt", "IfStmt", "WhileStmt", "ForStmt"):
                    j = i - 1
                    while j >= 0 and not (is_call(flat[j], "substep_add") or any(is_call(z, "substep_add") for z in ir.walk(flat[j]))):
                        # only log statements may sit between
                        if any("callee" in z and z["callee"]["name"] in ("enqueue", "substep_notify_done") for z in ir.walk(flat[j])):
                            break
                        j -= 1
                        if i - j > 3:
                            break
                    if j >= 0 and i - j <= 3 and any(is_call(z, "substep_add") for z in ir.walk(flat[j])):
                        okk = True
        if not okk:
            ck.violation("ADD-BEFORE-ENQUEUE", fn.qname, "%s:%s" % (fn.name, fn.nloc(e).split(":")[-1] if False else "enqueue"),
                         "a child job is enqueued without registering it first (substep_add): it can notify before it is counted and the step completes too early", fn.nloc(e))
            bad = True
    # anonymous handle: one extra add at the start, one notify at the end, after the last enqueue
    if fn.name in ("run", "distribute_finished"):
        extra = len(adds) - len(enq)
        if extra != 1 or len(notifies) != 1:
            ck.violation("HANDLE-PAIR", fn.qname, fn.name, "the anonymous handle is not taken once (substep_add) and released once (substep_notify_done): %d adds for %d enqueues, %d notifies"
                         % (len(adds), len(enq), len(notifies)), fn.loc)
            bad = True
        else:
            pn = g.pos(notifies[0])
            first_add = min((g.pos(a) for a in adds if g.pos(a)), key=lambda p: 0 if g.dominates(p, pn) else 1)
            late = [e for e in enq if g.pos(e) and g.reachable(pn, g.pos(e))]
            calls_after = [x for x in fn.nodes() if "callee" in x and x["callee"]["name"] in ("sort_sample_sort", "sort_mkqs_cache") and g.pos(x) and g.reachable(pn, g.pos(x))]
            if late or calls_after or g.path_avoiding((g.entry, -1), [pn]) is not None:
                ck.violation("HANDLE-PAIR", fn.qname, fn.name + ":order", "the anonymous handle is not released exactly once on every path after the last child was enqueued", fn.nloc(notifies[0]))
                bad = True
    if not bad and (enq or fn.name in ("run", "distribute_finished")):
        ck.ok("ADD-BEFORE-ENQUEUE", tag, "%d child enqueues each directly preceded by substep_add()" % len(enq), nontrivial=bool(enq))
        if fn.name in ("run", "distribute_finished"):
            ck.ok("HANDLE-PAIR", tag, "anonymous handle taken first and released once after the last enqueue")


def atomic_rmw(x):
    """(field, op, order)"""
    if "callee" in x and kids(x):
        f = match.this_field(kids(x)[0])
        nm = x["callee"]["name"]
        if f and "atomic" in x["callee"]["qname"]:
            if nm in ("operator--", "operator++"):
                return f, nm, 5
            if nm in ("fetch_sub", "fetch_add"):
                a = kids(x)[1:]
                o = 5
                if len(a) > 1 and a[1]["k"] != "DefaultArg":
                    o = const_int(a[1])
                return f, nm, o
    return None


def check_rmw(ck, tu):
    n = 0
    for fn in tu.functions:
        if not fn.record or not (fn.record.startswith(BIG) or fn.record.startswith(STEP)):
            continue
        for x in fn.nodes():
            r = atomic_rmw(x)
            if not r or r[0] not in ("pwork_", "substep_working_"):
                continue
            f, op, order = r
            if op in ("operator--", "fetch_sub"):
                # the decision must be the result of this RMW
                par = fn.parent(x)
                while par is not None and par["k"] in ("ImplicitCastExpr",):
                    par = fn.parent(par)
                c = match.binop(par, ("==",)) if par is not None else None
                want = 0 if op == "operator--" else 1
                if not (c and (strip_casts(c[1]) is x) and const_int(c[2]) == want):
                    ck.violation("RMW-RESULT", fn.qname, "%s:%s" % (fn.name, f), "the completion decision on %s does not use the result of its own atomic decrement" % f, fn.nloc(x))
                    continue
                if order is None or order < 4:
                    ck.violation("RMW-RESULT", fn.qname, "%s:%s:order" % (fn.name, f),
                                 "the decrement of %s uses memory order %s: the last decrementer must acquire what the other jobs released (needs acq_rel or stronger)"
                                 % (f, ORDER.get(order, "?")), fn.nloc(x))
                    continue
                n += 1
                ck.ok("RMW-RESULT", "%s::%s %s [%s]" % (fn.record.split("::")[-1], fn.name, f, inst(fn) if fn.rtargs else "-"), "decision = result of the atomic decrement (order %s)" % ORDER.get(order))
            else:
                if order is not None and order < 3 and f == "substep_working_":
                    ck.violation("RMW-RESULT", fn.qname, "%s:%s:order" % (fn.name, f),
                                 "the increment of %s uses memory order %s (needs release or stronger: the registration must be visible before the job is)" % (f, ORDER.get(order, "?")), fn.nloc(x))
                else:
                    ck.ok("RMW-RESULT", "%s::%s ++%s" % (fn.record.split("::")[-1], fn.name, f), "atomic increment", nontrivial=False)
    return n


def check_phase_arm(ck, fn):
    """pwork_ = parts_ is stored before the first job of the phase is enqueued"""
    g = cfgm.CFG(fn)
    tag = "%s::%s [%s]" % (fn.record.split("::")[-1], fn.name, inst(fn))
    arms = [x for x in fn.nodes() if "callee" in x and x.get("op") == "=" and match.this_field(kids(x)[0]) == "pwork_"]
    arms += [x for x in fn.nodes() if match.binop(x, ("=",)) and match.this_field(match.binop(x, ("=",))[1]) == "pwork_" and x["k"] == "BinaryOperator"]
    enq = [x for x in fn.nodes() if pool_enqueue(x)]
    if not enq:
        return
    if len(arms) != 1 or not all(g.dominates(g.pos_deep(arms[0]), g.pos(e)) for e in enq):
        ck.violation("PHASE-ARM", fn.qname, fn.name, "the phase counter pwork_ is not set before the first job that decrements it is enqueued", fn.loc)
        return
    rhs = kids(arms[0])[1] if "callee" in arms[0] else match.binop(arms[0], ("=",))[2]
    if match.this_field(rhs) != "parts_":
        ck.violation("PHASE-ARM", fn.qname, fn.name + ":value", "pwork_ is armed with %s, the loop enqueues parts_ jobs" % dtable.describe(rhs), fn.nloc(arms[0]))
        return
    # the loop enqueues exactly parts (the armed number) jobs
    lp = fn.parent(enq[0])
    while lp is not None and lp["k"] != "ForStmt":
        lp = fn.parent(lp)
    okl = False
    if lp is not None:
        init, cond, inc, body = match.loop_parts(lp)
        b = match.binop(cond, ("<", "!="))
        lo = [z for z in ir.walk(init) if z["k"] == "VarDecl" and kids(z) and const_int(kids(z)[0]) == 0]
        if b and lo and ref_of(b[1]) == lo[0]["did"]:
            bound = strip_casts(b[2])
            if match.this_field(bound) == "parts_":
                okl = True
            elif bound["k"] == "DeclRefExpr":
                d = [z for z in fn.nodes() if z["k"] == "VarDecl" and z["did"] == bound["ref"]["id"] and kids(z)]
                okl = bool(d) and match.this_field(kids(d[0])[0]) == "parts_"
    if okl:
        ck.ok("PHASE-ARM", tag, "pwork_ = parts_ dominates the loop that enqueues parts_ jobs")
    else:
        ck.violation("PHASE-ARM", fn.qname, fn.name + ":count", "the number of enqueued jobs is not the number the phase counter was armed with", fn.nloc(enq[0]))


def check_completion(ck, tu):
    for fn in tu.some(qname=NS + "parallel_sample_sort_base"):
        g = cfgm.CFG(fn)
        enq = [x for x in fn.nodes() if ctx_enqueue(x)]
        waits = [x for x in fn.nodes() if "callee" in x and x["callee"]["name"] == "loop_until_empty"]
        if len(enq) == 1 and len(waits) == 1 and g.dominates(g.pos(enq[0]), g.pos(waits[0])) and g.path_avoiding(g.pos(enq[0]), [g.pos(waits[0])]) is None:
            ck.ok("COMPLETION-BARRIER", "parallel_sample_sort_base [%s]" % ("lcp" if "Lcp" in fn.targs[1] else "nolcp"), "root job enqueued, then loop_until_empty() on every path before the context is destroyed")
        else:
            ck.violation("COMPLETION-BARRIER", fn.qname, "base", "the sort returns (destroying the context and the shadow array) without waiting for the pool to drain", fn.loc)


def check_copy_back(ck, tu):
    for fn in tu.some(qname=SMALL + "::insertion_sort_cache"):
        g = cfgm.CFG(fn)
        cb = [x for x in fn.nodes() if "callee" in x and x["callee"]["name"] == "copy_back" and ref_of(kids(x)[0]) == fn.params[0]["did"]]
        rets = [x for x in fn.nodes() if x["k"] == "ReturnStmt"]
        tag = "insertion_sort_cache<%s> [%s]" % (fn.targs[0] if fn.targs else "", inst(fn))
        if len(cb) == 1 and g.path_avoiding((g.entry, -1), [g.pos(cb[0])]) is None:
            ck.ok("COPY-BACK", tag, "copy_back() of the (possibly flipped) input on every path, %d returns" % len(rets))
        else:
            ck.violation("COPY-BACK", fn.qname, "insertion_sort_cache", "there is a return path that skips copy_back(): a bucket living in the shadow array is never moved back "
                         "to the caller's array", fn.loc)


def check_result_array(ck, tu):
    """RESULT-ARRAY: what runs after the sub-sorts of a step (substep_all_done, calculate_lcp and what they call) finds
    the sorted strings in the ORIGINAL array - every leaf sorter copies back - which is the shadow array of a flipped
    pointer.  A read through p.active() there is right only if p is surely unflipped (a copy_back() result or freshly
    constructed) or the flipped case selects p.shadow()."""
    def shadow_ty(t):
        return "StringShadow" in (t or "")

    def surely_unflipped(e):
        e0 = match.strip_conv(e)
        while e0 is not None and e0["k"] in ("MaterializeTemporaryExpr", "CXXBindTemporaryExpr", "ExprWithCleanups", "ParenExpr") and kids(e0):
            e0 = match.strip_conv(kids(e0)[0])
        if e0 is None:
            return False
        if "callee" in e0 and e0.get("member_call") and e0["callee"]["name"] == "copy_back":
            return True
        if e0["k"] in ("CXXConstructExpr", "CXXTemporaryObjectExpr") and len([a for a in kids(e0) if a is not None and a["k"] != "DefaultArg"]) == 2:
            return True
        return False
    roots = [f for f in tu.functions if f.name in ("substep_all_done", "calculate_lcp") and f.body is not None and (f.qname or "").startswith(NS)]
    ck.require(len(roots) >= 2, "after-recursion hooks (substep_all_done / calculate_lcp) not instantiated")
    n = 0
    for root in roots:
        for c in root.nodes():
            if "callee" not in c or c["k"] != "CallExpr":
                continue
            cal = tu.by_did.get(c["callee"]["did"])
            if cal is None or cal.body is None:
                continue
            for i, (p, a) in enumerate(zip(cal.params, kids(c))):
                if not shadow_ty(p.get("ty")):
                    continue
                reads = [y for y in cal.nodes() if "callee" in y and y.get("member_call") and y["callee"]["name"] == "active" and ref_of(kids(y)[0]) == p["did"]]
                if not reads:
                    continue
                n += 1
                tag = "%s -> %s [%s]" % (root.qname.split("::")[-2] + "::" + root.name, cal.name, inst(root))
                bad = None
                for y in reads:
                    par = cal.parent(y)
                    while par is not None and par["k"] in ("ImplicitCastExpr", "MaterializeTemporaryExpr", "ParenExpr"):
                        par = cal.parent(par)
                    handled = False
                    if par is not None and par["k"] == "ConditionalOperator":
                        cnd, tv, fv = kids(par)
                        fl = [z for z in ir.walk(cnd) if "callee" in z and z.get("member_call") and z["callee"]["name"] == "flipped" and ref_of(kids(z)[0]) == p["did"]]
                        neg = any(z["k"] == "UnaryOperator" and z.get("op") == "!" for z in ir.walk(cnd))
                        t_, f_ = (fv, tv) if neg else (tv, fv)
                        sh = [z for z in ir.walk(t_) if "callee" in z and z.get("member_call") and z["callee"]["name"] == "shadow" and ref_of(kids(z)[0]) == p["did"]]
                        if fl and sh and any(z is y for z in ir.walk(f_)):
                            handled = True
                    if not handled and not surely_unflipped(a):
                        bad = y
                if bad is not None:
                    ck.violation("RESULT-ARRAY", cal.qname, "%s:%s" % (cal.name, root.name),
                                 "%s() runs after the sub-sorts have copied their buckets home and reads the strings through %s.active(); the step's pointer (%s) "
                                 "is flipped when the step sorts a bucket that lives in the shadow array, the sorted strings are then in %s.shadow(): the values "
                                 "computed here (LCPs at the bucket boundaries) come from stale strings" % (cal.name, p["name"], dtable.describe(a), p["name"]), cal.nloc(bad))
                else:
                    ck.ok("RESULT-ARRAY", tag, "reads the original array (flipped ? shadow() : active()) or gets a surely unflipped pointer")
    ck.require(n >= 2, "no after-recursion reader of a shadow pointer found")


def check_packed_lcp(ck, tu):
    """the tree builders store `lcp | (splitter ends inside the key ? FLAG : 0)` into the splitter_lcp byte; every
    reader must therefore select a part of the byte with a constant mask (the flag, or its complement)"""
    flags = set()
    n_writes = 0
    for fn in tu.functions:
        if not fn.record or "TreeBuilder" not in fn.record or fn.body is None:
            continue
        for z in fn.nodes():
            b = match.binop(z, ("=",)) if z["k"] == "BinaryOperator" else None
            if not b:
                continue
            d = match.deref_of(b[1])
            if d is None:
                continue
            tgt = [x for x in ir.walk(d) if x["k"] == "MemberExpr" and x.get("member", "").startswith("lcp")]
            if not tgt:
                continue
            orr = match.binop(b[2], ("|",))
            if not orr:
                continue
            n_writes += 1
            for side in orr[1:]:
                for x in ir.walk(side):
                    if x["k"] == "ConditionalOperator":
                        for br in kids(x)[1:]:
                            c = const_int(br)
                            if c:
                                flags.add(c)
    if not n_writes or len(flags) != 1:
        raise ir.AnalysisBroken("packing of the splitter LCP byte not recognised in the tree builders (flags %s)" % sorted(flags))
    flag = flags.pop()
    value_mask = 0xFF ^ flag
    # packed fields: the arrays handed to classifier.build()
    packed = set()
    for fn in tu.functions:
        if fn.body is None:
            continue
        for z in fn.nodes():
            if "callee" in z and z["callee"]["name"] == "build" and z.get("member_call") and len(kids(z)) >= 4:
                a = strip_casts(kids(z)[3])
                if a["k"] == "MemberExpr":
                    packed.add(a["member"])
    if not packed:
        raise ir.AnalysisBroken("no array is handed to classifier.build() as LCP table")
    n = 0
    for fn in tu.functions:
        if fn.body is None or not fn.qname.startswith("tlx::sort_strings_detail::"):
            continue
        for z in fn.nodes():
            if z["k"] != "ArraySubscriptExpr":
                continue
            base = strip_casts(kids(z)[0])
            if base["k"] != "MemberExpr" or base.get("member") not in packed:
                continue
            par = fn.parent(z)
            while par is not None and par["k"] in ("ImplicitCastExpr", "ParenExpr", "CStyleCastExpr", "CXXStaticCastExpr", "CXXFunctionalCastExpr"):
                par = fn.parent(par)
            if par is not None and par["k"] in ("BinaryOperator", "CompoundAssignOperator") and par.get("op") in ("=", "&=", "|=") and \
                    any(x is z for x in ir.walk(kids(par)[0])):
                continue        # a write
            n += 1
            mask = None
            if par is not None and par["k"] == "BinaryOperator" and par.get("op") == "&":
                for side in kids(par):
                    c = const_int(side)
                    if c is not None and not any(x is z for x in ir.walk(side)):
                        mask = c
            tag = "%s [%s]" % (fn.name, inst(fn))
            if mask not in (flag, value_mask):
                ck.violation("PACKED-LCP-MASK", fn.qname, "%s:%s" % (fn.name, base["member"]),
                             "%s[...] packs the splitter LCP (low bits) with the 0x%02X flag `splitter ends inside the key`; it is used here %s, so a flagged "
                             "splitter adds %d to the depth handed on" % (base["member"], flag, "unmasked" if mask is None else "with mask 0x%02X" % mask, flag),
                             fn.nloc(z))
            else:
                ck.ok("PACKED-LCP-MASK", tag, "%s & 0x%02X" % (base["member"], mask), nontrivial=False)
    return n


INVALIDATING = ("resize", "destroy", "clear", "reserve", "shrink_to_fit", "swap", "push_back", "emplace_back", "assign", "operator=")


def check_stale_data_pointer(ck, tu):
    """a raw pointer taken from a member buffer (`member.data()`) and kept in a local must not be used after a call
    that may re-allocate or release that buffer (directly or through other member functions of the same object)"""
    by_rec = {}
    for fn in tu.functions:
        if fn.record and fn.record.startswith("tlx::sort_strings_detail::PS5") and fn.body is not None and fn.kind != "lambda":
            by_rec.setdefault((fn.record, tuple(fn.rtargs or [])), []).append(fn)
    n = 0
    for (rec, _), fns in by_rec.items():
        # which members may each method invalidate (transitively through calls on this)
        direct, calls = {}, {}
        for fn in fns:
            inv, cl = set(), set()
            for z in fn.nodes():
                if "callee" not in z:
                    continue
                if z.get("member_call") and z["callee"]["name"] in INVALIDATING and kids(z):
                    m = match.this_field(kids(z)[0])
                    if m:
                        inv.add(m)
                if z["k"] == "CXXOperatorCallExpr" and z.get("op") == "=" and kids(z):
                    m = match.this_field(kids(z)[0])
                    if m:
                        inv.add(m)
                if z.get("member_call") and kids(z) and strip_casts(kids(z)[0])["k"] == "This":
                    cl.add(z["callee"]["did"])
            direct[fn.did], calls[fn.did] = inv, cl
        summ = {d: set(v) for d, v in direct.items()}
        changed = True
        while changed:
            changed = False
            for d in summ:
                for c in calls[d]:
                    if c in summ and not summ[c] <= summ[d]:
                        summ[d] |= summ[c]
                        changed = True
        for fn in fns:
            g = None
            for v in fn.nodes():
                if v["k"] != "VarDecl" or not kids(v) or "*" not in (v.get("ty") or ""):
                    continue
                src = [z for z in ir.walk(kids(v)[0]) if "callee" in z and z.get("member_call") and z["callee"]["name"] in ("data", "begin")
                       and kids(z) and match.this_field(kids(z)[0])]
                if not src:
                    continue
                member = match.this_field(kids(src[0])[0])
                n += 1
                if g is None:
                    g = cfgm.CFG(fn)
                pdecl = g.pos_deep(v)
                uses = [z for z in fn.nodes() if z["k"] == "DeclRefExpr" and z["ref"]["id"] == v["did"]]
                bad = None
                for c in fn.nodes():
                    if "callee" not in c or not c.get("member_call") or not kids(c):
                        continue
                    direct_inv = c["callee"]["name"] in INVALIDATING and match.this_field(kids(c)[0]) == member
                    via = strip_casts(kids(c)[0])["k"] == "This" and member in summ.get(c["callee"]["did"], ())
                    if not (direct_inv or via):
                        continue
                    pc = g.pos_deep(c)
                    if pc is None or pdecl is None or not (g.reachable(pdecl, pc) or g.dominates(pdecl, pc)):
                        continue        # the buffer is (re)sized before the pointer is taken
                    for u in uses:
                        pu = g.pos_deep(u)
                        if pu is not None and g.reachable(pc, pu):
                            bad = (c, u)
                            break
                    if bad:
                        break
                tag = "%s::%s [%s] %s = %s.data()" % (rec.split("::")[-1], fn.name, inst(fn), v.get("name"), member)
                if bad:
                    c, u = bad
                    ck.violation("STALE-DATA-POINTER", fn.qname, "%s:%s" % (fn.name, v.get("name")),
                                 "`%s` caches %s.data(); %s() (line %s) may destroy and re-allocate %s, and `%s` is used again afterwards (line %s): "
                                 "writes through it go to a freed block" % (v.get("name"), member, c["callee"]["name"], c.get("l"), member,
                                                                              v.get("name"), u.get("l")), fn.nloc(u))
                else:
                    ck.ok("STALE-DATA-POINTER", tag, "no use after a call that may re-allocate %s" % member)
    return n


def check_array_bounds(ck, tu):
    """indices of the fixed-size bucket / splitter arrays of the sample sort classes, by interval analysis"""
    from engine import intervals
    n_fn = 0
    for fn in tu.functions:
        if fn.body is None or not fn.qname.startswith("tlx::sort_strings_detail::"):
            continue
        if not (fn.record and ("PS5" in fn.record or "SSClassify" in fn.record or "SSTreeBuilder" in fn.record)):
            continue
        bad, n_sites = intervals.fixed_array_findings(fn)
        if not n_sites:
            continue
        n_fn += 1
        seen = set()
        for z, n, r in bad:
            key = dtable.describe(z)
            if key in seen:
                continue
            seen.add(key)
            ck.violation("ARRAY-INDEX-BOUND", fn.qname, "%s:%s" % (fn.name, key),
                         "%s is evaluated with an index in [%s, %s]; the array has %d elements" % (key, r[0], r[1], n), fn.nloc(z))
        if not bad:
            ck.ok("ARRAY-INDEX-BOUND", "%s::%s [%s]" % (fn.record.split("::")[-1], fn.name, inst(fn)),
                  "%d subscripts of fixed-size arrays; every index bound that follows from the control flow is < size" % n_sites)
    return n_fn


def run(ck):
    ck.explanation = (
        "Sortedness and LCP values depend on values and are not decided. Decided ownership/ordering clauses: USE-AFTER-RELEASE - in every member "
        "function of the self-deleting job classes no member of *this is reachable in the CFG after a release point (substep_notify_done(), delete "
        "this, giving up the job's own claim on the phase counter, or enqueuing a job while no handle is held); ADD-BEFORE-ENQUEUE / HANDLE-PAIR; "
        "RMW-RESULT (completion decided by the decrement's own result, acq_rel or stronger); PACKED-LCP-MASK (every read of the packed splitter_lcp byte selects the LCP or the flag with the builder's mask); PHASE-ARM (pwork_ armed with the number of jobs before "
        "the first one is enqueued); COMPLETION-BARRIER; COPY-BACK on all paths of the leaf sorter. Two genuine use-after-free defects were found "
        "(distribute_finished, loop bound re-read after the last enqueue) and fixed. The ThreadPool itself is C10.")
    tu = ir.extract("witness/C04_parallel_sample_sort.cpp")
    for fn in tu.functions:
        if not fn.record or fn.kind == "lambda":
            continue
        if fn.record in (BIG, SMALL, STEP):
            if fn.kind == "dtor":
                continue
            check_use_after_release(ck, tu, fn)
            if fn.record in (BIG, SMALL):
                check_add_before_enqueue(ck, fn)
            if fn.record == BIG and fn.name in ("sample", "count_finished"):
                check_phase_arm(ck, fn)
    check_rmw(ck, tu)
    check_completion(ck, tu)
    check_copy_back(ck, tu)
    check_packed_lcp(ck, tu)
    check_result_array(ck, tu)
    check_stale_data_pointer(ck, tu)
    ck.require(check_array_bounds(ck, tu) >= 10, "fixed-size arrays of the sample sort classes not found")
    ck.floor("PACKED-LCP-MASK", 12)
    ck.floor("USE-AFTER-RELEASE", 40)
    ck.floor("ADD-BEFORE-ENQUEUE", 12)
    ck.floor("HANDLE-PAIR", 12)
    ck.floor("RMW-RESULT", 10)
    ck.floor("PHASE-ARM", 8)
    ck.floor("COMPLETION-BARRIER", 2)
    ck.floor("COPY-BACK", 8)
    ck.floor("RESULT-ARRAY", 2)
