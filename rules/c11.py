"""C11 — Semaphore (lockset, guarded take, notify kind) and the two thread barriers
(arrival / release ordering, RMW decisions, twin agreement)."""
from engine import ir, dtable, match, sync, mustfact, cfg as cfgm
from engine.ir import kids, strip_casts, const_int, ref_of, walk
from rules.c10 import field_writes

SEM = "tlx::Semaphore"
BM = "tlx::ThreadBarrierMutex"
BS = "tlx::ThreadBarrierSpin"
ORDER = {0: "relaxed", 1: "consume", 2: "acquire", 3: "release", 4: "acq_rel", 5: "seq_cst"}


def check_semaphore(ck, tu):
    fns = [f for f in tu.find(record=SEM) if f.name in ("signal", "wait", "try_acquire")]
    ck.require(len(fns) == 4, "Semaphore: expected signal x2, wait, try_acquire (found %d)" % len(fns))
    flows = {f.did: sync.LockFlow(f, "mutex_") for f in fns}
    # waits: predicate = enclosing loop condition
    waiter_params = False
    for fn in fns:
        fl = flows[fn.did]
        g = fl.g
        tag = "%s/%d" % (fn.qname, len(fn.params))
        for x in fn.nodes():
            if x["k"] == "MemberExpr" and match.this_field(x) == "value_":
                if fl.held_at(x) is True:
                    ck.ok("SEM-LOCKSET", "%s @%s" % (tag, fn.nloc(x)), "value_ accessed with mutex_ held", nontrivial=False)
                else:
                    ck.violation("SEM-LOCKSET", fn.qname, "%s/%d:value_" % (fn.name, len(fn.params)), "value_ is accessed without holding mutex_", fn.nloc(x))
        for w in sync.wait_calls(fn):
            par = fn.parent(w["node"])
            loop = None
            while par is not None:
                if par["k"] in ("WhileStmt", "DoStmt"):
                    loop = par
                    break
                par = fn.parent(par)
            if w["pred"] is None and loop is None:
                ck.violation("NO-BARE-WAIT", fn.qname, fn.name, "cv_.wait() without predicate and without an enclosing re-check loop", fn.nloc(w["node"]))
                continue
            cond = match.loop_parts(loop)[1] if loop is not None else None
            refs = [y["ref"]["id"] for y in ir.walk(cond) if y["k"] == "DeclRefExpr"] if cond is not None else []
            if any(fn.param_index(r) is not None for r in refs):
                waiter_params = True
            ck.ok("NO-BARE-WAIT", tag, "wait re-checks %s in a loop with mutex_ held" % (dtable.describe(cond) if cond is not None else "its predicate"))
        # guarded take: on every path to `value_ -= delta` the last thing known about value_ is value_ >= delta + slack
        delta = fn.params[0]["did"] if fn.params else None
        slack = fn.params[1]["did"] if len(fn.params) > 1 else None
        def is_take(x):
            if match.binop(x, ("-=",)) or x.get("op") == "--":
                return True
            b_ = match.binop(x, ("=",))
            d_ = match.binop(b_[2], ("-",)) if b_ else None
            return bool(d_ and match.this_field(d_[1]) == "value_")            # value_ = value_ - X
        takes = [(x, f, eff) for x, f, eff in field_writes(fn) if f == "value_" and is_take(x)]
        if not takes:
            continue
        locals_ = {v["did"]: v for v in fn.nodes() if v["k"] == "VarDecl"}
        assigned = {ref_of(match.binop(z, ("=", "+=", "-="))[1]) for z in fn.nodes()
                    if z["k"] in ("BinaryOperator", "CompoundAssignOperator") and match.binop(z, ("=", "+=", "-="))}

        def params_sum(e, depth=0):
            """sorted list of parameter ids if e is a sum of parameters (through never-reassigned locals), else None"""
            e = strip_casts(e)
            while e is not None and e["k"] == "ParenExpr":
                e = strip_casts(kids(e)[0])
            if e is None or depth > 4:
                return None
            d = ref_of(e)
            if d is not None:
                if fn.param_index(d) is not None:
                    return [d]
                v = locals_.get(d)
                if v is not None and kids(v) and d not in assigned:
                    return params_sum(kids(v)[0], depth + 1)
                return None
            sm = match.binop(e, ("+",))
            if sm:
                l, r = params_sum(sm[1], depth + 1), params_sum(sm[2], depth + 1)
                return sorted(l + r) if l is not None and r is not None else None
            return None
        want = sorted(d for d in (delta, slack) if d is not None)

        def implies(c, truth):
            c = strip_casts(c)
            while c is not None and (c["k"] == "ParenExpr" or (c["k"] == "UnaryOperator" and c.get("op") == "!")):
                if c["k"] == "UnaryOperator":
                    truth = not truth
                c = strip_casts(kids(c)[0])
            bb = match.binop(c, ("<", ">=", ">", "<="))
            if not bb:
                return False
            op, l, r = bb
            if match.this_field(r) == "value_":
                l, r = r, l
                op = {"<": ">", ">": "<", "<=": ">=", ">=": "<="}[op]
            if match.this_field(l) != "value_" or params_sum(r) != want:
                return False
            return (op == ">=" and truth) or (op == "<" and not truth)
        waits_ = {w["node"]["id"]: w for w in sync.wait_calls(fn)}

        def effect(n):
            if n["id"] in waits_:
                w = waits_[n["id"]]
                if w["pred"] is not None:
                    lf = tu.by_did.get(w["pred"].get("fn"))
                    rets = [r for r in ir.walk(lf.body) if r["k"] == "ReturnStmt" and kids(r)] if lf is not None and lf.body is not None else []
                    if len(rets) == 1 and implies(kids(rets[0])[0], True):
                        return "gen"
                return "kill"
            if "callee" in n and n["callee"]["name"] in ("unlock", "lock"):
                return "kill"
            if "callee" in n and n.get("member_call") and kids(n) and strip_casts(kids(n)[0])["k"] == "This" and not n["callee"].get("const"):
                raise dtable.Undecidable("%s: call of %s() between the availability test and the take" % (fn.loc, n["callee"]["name"]))
            if any(n is x for x, f, eff in field_writes(fn) if f == "value_"):
                return "kill"
            return None
        mf = mustfact.MustFact(fn, g, implies, effect)
        for x, f, eff in takes:
            b = match.binop(x, ("-=",))
            if not b and match.binop(x, ("=",)):
                d_ = match.binop(match.binop(x, ("=",))[2], ("-",))
                b = ("-=", d_[1], d_[2])
            amount = params_sum(b[2]) if b else None
            if b and amount is None:
                raise dtable.Undecidable("%s: amount taken from the semaphore not understood: %s" % (fn.loc, dtable.describe(b[2])))
            if amount != [delta]:
                ck.violation("SEM-GUARDED-TAKE", fn.qname, fn.name, "the semaphore is decremented by %s instead of delta"
                             % (dtable.describe(b[2]) if b else "1"), fn.nloc(x))
            elif mf.before(x) is True:
                ck.ok("SEM-GUARDED-TAKE", tag, "value_ -= delta only after value_ >= delta + slack was established in the same hold")
            else:
                ck.violation("SEM-GUARDED-TAKE", fn.qname, fn.name, "value_ -= delta is reachable on a path on which value_ >= delta + slack "
                             "was not the last thing established under the lock", fn.nloc(x))
    # writes that add tokens need a notify; kind depends on the waiters
    for fn in fns:
        fl = flows[fn.did]
        g = fl.g
        notes = sync.notify_calls(fn)
        tag = "%s/%d" % (fn.qname, len(fn.params))
        for x, f, eff in field_writes(fn):
            if f != "value_":
                continue
            adds = (x.get("op") in ("++", "+=")) or (match.binop(x, ("+=",)) is not None) or (match.unop(x, ("++",)) is not None)
            if match.binop(x, ("=",)):
                adds = False
            if not adds:
                continue
            px = g.pos_deep(x)
            ns = [n for n in notes if g.pos(n["node"])]
            if not ns or g.path_avoiding(px, [g.pos(n["node"]) for n in ns]) is not None:
                ck.violation("WRITE-NOTIFY", fn.qname, "%s/%d" % (fn.name, len(fn.params)), "tokens are added without notifying cv_ on every path (lost wake-up)", fn.nloc(x))
                continue
            if fl.held_at(x) is not True:
                ck.violation("WRITE-NOTIFY", fn.qname, "%s/%d:unlocked" % (fn.name, len(fn.params)), "value_ is increased without holding mutex_", fn.nloc(x))
                continue
            ck.ok("WRITE-NOTIFY", tag, "token-adding write followed by a notify on all paths, under mutex_")
            for n in ns:
                if n["kind"] == "notify_all":
                    ck.ok("NOTIFY-KIND", tag, "notify_all")
                elif waiter_params:
                    ck.violation("NOTIFY-KIND", fn.qname, "%s/%d" % (fn.name, len(fn.params)),
                                 "waiters block on value_ < delta + slack with their own (delta, slack): after adding tokens a single notify_one can wake a waiter "
                                 "whose request is still not covered while one that is covered stays blocked; notify_all is required", fn.nloc(n["node"]))
                else:
                    ck.ok("NOTIFY-KIND", tag, "notify_one with a parameter-free waiter predicate")


def atomic_op(x):
    """(field, op, order) for load/store/fetch_add/fetch_sub on an atomic field of *this"""
    if "callee" in x and x.get("member_call") and x["callee"]["name"] in ("load", "store", "fetch_add", "fetch_sub", "exchange") and kids(x):
        f = match.this_field(kids(x)[0])
        if f:
            args = kids(x)[1:]
            order = 5
            oi = {"load": 0, "store": 1, "fetch_add": 1, "fetch_sub": 1, "exchange": 1}[x["callee"]["name"]]
            if len(args) > oi and args[oi]["k"] != "DefaultArg":
                o = const_int(args[oi])
                order = o if o is not None else None
            return f, x["callee"]["name"], order
    return None


def check_spin(ck, tu):
    fns = [f for f in tu.find(record=BS) if f.name in ("wait", "wait_yield")]
    ck.require(len(fns) >= 2, "ThreadBarrierSpin::wait / wait_yield not instantiated")
    skel = {}
    for fn in fns:
        g = cfgm.CFG(fn)
        tag = "%s<%s>" % (fn.qname, "lambda" if "lambda" in fn.full else "default")
        ops = [(x, atomic_op(x)) for x in fn.nodes() if atomic_op(x)]
        snap = [x for x, (f, op, o) in ops if f == "step_" and op == "load" and fn.parent(x) is not None and fn.parent(x)["k"] == "VarDecl"]
        arrive = [x for x, (f, op, o) in ops if f == "waiting_" and op == "fetch_add"]
        reset = [x for x, (f, op, o) in ops if f == "waiting_" and op == "store"]
        release = [x for x, (f, op, o) in ops if f == "step_" and op in ("fetch_add", "store")]
        spin = [x for x, (f, op, o) in ops if f == "step_" and op == "load" and x not in snap]
        lam = [x for x in fn.nodes() if "callee" in x and x.get("op") == "()" and kids(x) and ref_of(kids(x)[0]) == fn.params[0]["did"]]
        bad = []
        # the last arriver's work may live in a private helper that receives the action
        hfn, hcall, hg = None, None, None
        if len(snap) == 1 and len(arrive) == 1 and len(spin) == 1 and not reset and not release and not lam:
            for x in fn.nodes():
                if "callee" in x and x.get("member_call") and kids(x) and strip_casts(kids(x)[0])["k"] == "This":
                    cal = tu.by_did.get(x["callee"]["did"])
                    if cal is None or cal.body is None or cal.did == fn.did:
                        continue
                    ai = [i for i, a in enumerate(kids(x)[1:]) if ref_of(a) == fn.params[0]["did"]]
                    if len(ai) != 1 or ai[0] >= len(cal.params):
                        continue
                    hops = [(y, atomic_op(y)) for y in cal.nodes() if atomic_op(y)]
                    reset = [y for y, (f, op, o) in hops if f == "waiting_" and op == "store"]
                    release = [y for y, (f, op, o) in hops if f == "step_" and op in ("fetch_add", "store")]
                    lam = [y for y in cal.nodes() if "callee" in y and y.get("op") == "()" and kids(y) and ref_of(kids(y)[0]) == cal.params[ai[0]]["did"]]
                    if any(f == "waiting_" and op == "fetch_add" for y, (f, op, o) in hops):
                        reset = []
                    hfn, hcall, hg = cal, x, cfgm.CFG(cal)
                    break
        if not (len(snap) == 1 and len(arrive) == 1 and len(reset) == 1 and len(release) == 1 and len(spin) == 1 and len(lam) == 1):
            raise dtable.Undecidable("%s: barrier skeleton not recognised (snap=%d arrive=%d reset=%d release=%d spin=%d action=%d)"
                                     % (fn.loc, len(snap), len(arrive), len(reset), len(release), len(spin), len(lam)))
        P = g.pos
        if not g.dominates(P(snap[0]), P(arrive[0])):
            bad.append(("snapshot", "the generation is sampled after the arrival was published: a late sampler spins on the next generation forever", snap[0]))
        # last decided by the RMW's own result
        par = fn.parent(arrive[0])
        while par is not None and par["k"] in ("ImplicitCastExpr",):
            par = fn.parent(par)
        cmpn = match.binop(par, ("==", "!=")) if par is not None else None
        if not (cmpn and (strip_casts(cmpn[1]) is arrive[0] or strip_casts(cmpn[2]) is arrive[0])):
            # the result may be named first: const size_t arrived = waiting_.fetch_add(1, ...); if (arrived == thread_count_)
            vd = par if par is not None and par["k"] == "VarDecl" else None
            uses = [y for y in fn.nodes() if vd is not None and y["k"] == "DeclRefExpr" and y["ref"]["id"] == vd["did"]]
            cmpn = None
            if len(uses) == 1:
                up = fn.parent(uses[0])
                while up is not None and up["k"] == "ImplicitCastExpr":
                    up = fn.parent(up)
                cmpn = match.binop(up, ("==", "!=")) if up is not None else None
                par = up
            if cmpn is None:
                raise dtable.Undecidable("%s: how the last arriver is decided from the arrival fetch_add is not understood" % fn.loc)
        other_side = cmpn[1] if match.this_field(cmpn[1]) == "thread_count_" else cmpn[2]
        if match.this_field(other_side) != "thread_count_":
            bad.append(("rmw-result", "the last arriver is not decided by comparing the result of the arrival fetch_add with thread_count_", arrive[0]))
        else:
            # the completion work belongs to the arriver whose result equals thread_count_ only
            cb = None
            for bid, blk in g.blocks.items():
                els = g.elements(bid)
                if len(blk.get("succ", [])) == 2 and els and isinstance(els[-1], int) and fn.byid(els[-1]) is not None and \
                        any(y is par or y is strip_casts(par) for y in ir.walk(fn.byid(els[-1]))):
                    cb = blk
            if cb is None:
                raise dtable.Undecidable("%s: branch on the arrival result not found" % fn.loc)
            neg = cmpn[0] == "!="
            cn = fn.byid(g.elements(cb["id"])[-1])
            while cn is not None and strip_casts(cn) is not strip_casts(par) and cn["k"] in ("ParenExpr", "UnaryOperator", "ImplicitCastExpr"):
                if cn["k"] == "UnaryOperator" and cn.get("op") == "!":
                    neg = not neg
                cn = kids(cn)[0]
            others = cb["succ"][0] if neg else cb["succ"][1]
            seen_, work_ = set(), [others]
            relb = G_rel = None
            tgt_blocks = set()
            if hfn is None:
                tgt_blocks = {g.pos(release[0])[0], g.pos(reset[0])[0]}
            else:
                tgt_blocks = {g.pos_deep(hcall)[0]}
            leak = False
            while work_:
                b_ = work_.pop()
                if b_ in seen_ or b_ is None:
                    continue
                seen_.add(b_)
                if b_ in tgt_blocks:
                    leak = True
                    break
                work_.extend(g.succ[b_])
            if leak:
                bad.append(("rmw-result", "an arriver whose fetch_add result differs from thread_count_ can reach the reset / release of the generation", arrive[0]))
        G2 = hg if hfn is not None else g
        if not (G2.dominates(G2.pos(reset[0]), G2.pos(release[0])) and G2.dominates(G2.pos(lam[0]), G2.pos(release[0]))):
            bad.append(("release-order", "the generation counter is advanced (releasing the spinners) before the arrival counter was reset and the action has run", release[0]))
        if not g.dominates(P(arrive[0]), g.pos_deep(hcall) if hfn is not None else P(lam[0])):
            bad.append(("action-early", "the action runs before the arrival was counted", lam[0]))
        ro = atomic_op(release[0])[2]
        so = atomic_op(spin[0])[2]
        if ro is None or ro not in (3, 4, 5):
            bad.append(("release-memorder", "the releasing increment of step_ uses memory order %s (needs release or stronger)" % ORDER.get(ro, "?"), release[0]))
        if so is None or so not in (2, 4, 5, 1):
            bad.append(("spin-memorder", "the spinning load of step_ uses memory order %s (needs acquire or stronger)" % ORDER.get(so, "?"), spin[0]))
        ao = atomic_op(arrive[0])[2]
        if ao is None or ao < 4:
            bad.append(("arrive-memorder", "the arrival fetch_add uses memory order %s (needs acq_rel)" % ORDER.get(ao, "?"), arrive[0]))
        # spinners compare with their snapshot
        sp = fn.parent(spin[0])
        while sp is not None and sp["k"] == "ImplicitCastExpr":
            sp = fn.parent(sp)
        cs = match.binop(sp, ("==", "!=")) if sp is not None else None
        snapvar = fn.parent(snap[0])["did"]
        if not (cs and snapvar in (ref_of(cs[1]), ref_of(cs[2]))):
            bad.append(("spin-snapshot", "waiters do not spin on their own snapshot of the generation", spin[0]))
        for sig, msg, node in bad:
            ck.violation("SPIN-ORDER", fn.qname, "%s:%s" % (fn.name, sig), msg, fn.nloc(node))
        if not bad:
            ck.ok("SPIN-ORDER", tag, "snapshot -> arrival RMW decides last -> reset + action -> release (>= release) ; spin (acquire) on the snapshot")
        skel[(fn.name, "lambda" in fn.full)] = (not bad,)


def check_mutex_barrier(ck, tu):
    fns = [f for f in tu.find(record=BM) if f.name == "wait"]
    ck.require(fns, "ThreadBarrierMutex::wait not instantiated")
    for fn in fns:
        fl = sync.LockFlow(fn, "mutex_")
        g = fl.g
        tag = "%s<%s>" % (fn.qname, "lambda" if "lambda" in fn.full else "default")
        bad = []
        snap = [x for x in fn.nodes() if x["k"] == "VarDecl" and kids(x) and match.this_field(kids(x)[0]) == "step_"]
        if len(snap) != 1:
            raise dtable.Undecidable("%s: generation snapshot not found" % fn.loc)
        cur = snap[0]["did"]

        def counts_index(e):
            p = match.index_parts(e)
            if p and match.this_field(p[0]) == "counts_":
                return p[1]
            return None
        def arrive_target(x):
            u = match.unop(x, ("++",))
            if u:
                return u[1]
            b_ = match.binop(x, ("+=",)) if x["k"] in ("CompoundAssignOperator", "CXXOperatorCallExpr") else None
            if b_ and const_int(b_[2]) == 1:
                return b_[1]
            return None
        arrive = [x for x in fn.nodes() if arrive_target(x) is not None and counts_index(arrive_target(x)) is not None]
        resets = [x for x in fn.nodes() if match.binop(x, ("=",)) and counts_index(match.binop(x, ("=",))[1]) is not None]
        flips = [x for x in fn.nodes() if match.binop(x, ("=",)) and match.this_field(match.binop(x, ("=",))[1]) == "step_"]
        lam = [x for x in fn.nodes() if "callee" in x and x.get("op") == "()" and kids(x) and ref_of(kids(x)[0]) == fn.params[0]["did"]]
        notes = sync.notify_calls(fn)
        waits = sync.wait_calls(fn)
        if not (len(arrive) == 1 and len(resets) == 1 and len(flips) >= 1 and len(lam) == 1 and len(notes) == 1 and len(waits) == 1):
            raise dtable.Undecidable("%s: barrier skeleton not recognised" % fn.loc)
        P = g.pos_deep
        if ref_of(counts_index(arrive_target(arrive[0]))) != cur:
            bad.append(("arrive-index", "arrival is not counted in the generation that was sampled", arrive[0]))
        if not g.dominates(P(snap[0]), P(arrive[0])):
            bad.append(("snapshot", "the generation is sampled after arriving", snap[0]))
        # waiters re-check counts_[current] against thread_count_: either `while (stay) cv.wait(lock)` or cv.wait(lock, proceed)
        w = waits[0]
        stay = proceed = None
        if w["pred"] is not None:
            lf = tu.by_did.get(w["pred"].get("fn"))
            if lf is None or lf.body is None:
                raise dtable.Undecidable("%s: body of the wait predicate not available" % fn.loc)
            rets = [r for r in walk(lf.body) if r["k"] == "ReturnStmt" and kids(r)]
            if len(rets) != 1:
                raise dtable.Undecidable("%s: wait predicate with %d return statements" % (fn.loc, len(rets)))
            proceed = kids(rets[0])[0]
        else:
            loop = fn.parent(w["node"])
            while loop is not None and loop["k"] not in ("WhileStmt", "DoStmt", "ForStmt"):
                loop = fn.parent(loop)
            if loop is not None:
                stay = match.loop_parts(loop)[1]
        if stay is None and proceed is None:
            bad.append(("bare-wait", "waiters do not re-check in a loop", w["node"]))
        else:
            c = stay if stay is not None else proceed
            neg = False
            c0 = strip_casts(c)
            while c0 is not None and (c0["k"] == "ParenExpr" or (c0["k"] == "UnaryOperator" and c0.get("op") == "!")):
                if c0["k"] == "UnaryOperator":
                    neg = not neg
                c0 = strip_casts(kids(c0)[0])
            b = match.binop(c0, ("<", "!=", ">=", "==", ">", "<="))
            ok_pred = False
            if b:
                op, l, r = b
                if counts_index(r) is not None:
                    l, r = r, l
                    op = {"<": ">", ">": "<", "<=": ">=", ">=": "<=", "==": "==", "!=": "!="}[op]
                if counts_index(l) is not None and ref_of(counts_index(l)) == cur and match.this_field(r) == "thread_count_":
                    # counts_ <= thread_count_ always; "stay" forms: < !=   "proceed" forms: >= ==
                    is_stay = (op in ("<", "!=")) != neg
                    is_proceed = (op in (">=", "==")) != neg
                    if op in ("<", "!=", ">=", "=="):
                        ok_pred = is_stay if stay is not None else is_proceed
            if not ok_pred:
                bad.append(("wait-pred", "waiters do not wait for counts_[their generation] to reach thread_count_", c))
        # last arriver: flip, reset the OTHER counter, action, notify_all - all in one hold, in dominance order
        ri = counts_index(match.binop(resets[0], ("=",))[1])
        if ref_of(ri) == cur or (match.this_field(ri) == "step_" and g.path_from_entry_avoiding(P(resets[0]), [P(f_) for f_ in flips]) is not None):
            bad.append(("reset-index", "the last arriver resets the counter of the generation its waiters are still testing: they block again", resets[0]))
        for x, what in [(f_, "generation flip") for f_ in flips] + [(resets[0], "counter reset"), (lam[0], "action"), (notes[0]["node"], "notify")]:
            if fl.held_at(x) is not True:
                bad.append(("unlocked:" + what.replace(" ", "-"), "the %s happens without mutex_ held" % what, x))
        if notes[0]["kind"] != "notify_all":
            bad.append(("notify-kind", "waiters are released with notify_one: all but one stay blocked", notes[0]["node"]))
        if not (g.dominates(P(arrive[0]), P(lam[0]))):
            bad.append(("action-early", "the action can run before the last participant has arrived", lam[0]))
        unl = [u for u in fn.nodes() if "callee" in u and u["callee"]["name"] == "unlock"]
        if any(g.pos(u) and g.dominates(g.pos(u), P(lam[0])) for u in unl):
            bad.append(("action-unlocked", "mutex_ is released before the action has run: released threads can overtake it", lam[0]))
        # the branch condition: last iff counts_[current] reached thread_count_
        for sig, msg, node in bad:
            ck.violation("BARRIER-ORDER", fn.qname, "wait:" + sig, msg, fn.nloc(node))
        if not bad:
            ck.ok("BARRIER-ORDER", tag, "snapshot -> arrive -> (wait loop on own generation | flip, reset other counter, action, notify_all) in one hold of mutex_")
    wy = [f for f in tu.find(record=BM) if f.name == "wait_yield"]
    for fn in wy:
        calls = [x for x in fn.nodes() if "callee" in x and x["callee"]["name"] == "wait" and x.get("member_call")]
        if len(calls) == 1 and ref_of(kids(calls[0])[1]) == fn.params[0]["did"]:
            ck.ok("BARRIER-ORDER", fn.qname + " (forward)", "wait_yield forwards the action to wait()", nontrivial=False)
        else:
            ck.violation("BARRIER-ORDER", fn.qname, "wait_yield:forward", "wait_yield does not forward to wait(action)", fn.loc)


def run(ck):
    ck.explanation = (
        "Semaphore: lock-state dataflow shows value_ is only touched under mutex_, every decrement is dominated in the same hold by the test "
        "value_ >= delta + slack of the same parameters, waits re-check in a loop, token-adding writes are followed by a notify, and - because the "
        "waiters' predicate depends on per-call (delta, slack) - that notify must be notify_all. Barriers: ordering rules by CFG dominance: generation "
        "snapshot before arrival, last arriver decided by the arrival RMW's own result, reset of the arrival counter and the action both dominate the "
        "release of the generation, memory orders of release/spin at least release/acquire, mutex barrier does everything in one lock hold and resets "
        "the other generation's counter. Liveness over all schedules is not decided.")
    tu = ir.extract("witness/C11_sync.cpp")
    check_semaphore(ck, tu)
    check_mutex_barrier(ck, tu)
    check_spin(ck, tu)
    ck.floor("SEM-LOCKSET", 4)
    ck.floor("SEM-GUARDED-TAKE", 2)
    ck.floor("NO-BARE-WAIT", 1)
    ck.floor("WRITE-NOTIFY", 1)
    ck.floor("NOTIFY-KIND", 1)
    ck.floor("BARRIER-ORDER", 2)
    ck.floor("SPIN-ORDER", 4)
