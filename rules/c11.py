"""C11 — Semaphore (lockset, guarded take, notify kind) and the two thread barriers
(arrival / release ordering, RMW decisions, twin agreement).

Every verdict "violated" in this file is a concrete counterexample:
  * lock-state dataflow (engine/sync.py) showing a path on which mutex_ is not held at an access - and only if every
    operation on the mutex / its guards in that function is of a recognised kind (closed world), otherwise "cannot decide";
  * an evaluation of the member functions themselves (engine/skel.py) on a small model: the Semaphore functions on a grid
    of (value_, delta, slack) with an adversarial environment at every point where mutex_ is released (cv wait, unlock/lock),
    the barriers as one to three simulated threads that run one after the other and hand over exactly where a thread blocks
    (cv_.wait / the spin on the generation counter).  The evidence is the schedule and the values.
Fields are found by their type, not by their name.
Nothing is concluded from the shape of the code: statement order, names of locals, helper functions, loop forms, operand
order, the carrier of a value (local, field of a small struct, std::pair / std::tuple / std::tie, out-parameter) are
invisible to the evaluation.  An access to the guarded state through a pointer / reference is checked against the lock
state at the place of the access, like the member expressions themselves.  A construct the evaluation does not understand (unknown call that receives the
object, unknown atomic operation, data-dependent branch) raises Undecidable (exit 2)."""
import os

from engine import ir, dtable, match, sync, skel
from engine.ir import kids, strip_casts, const_int, ref_of, walk

SEM = "tlx::Semaphore"
BM = "tlx::ThreadBarrierMutex"
BS = "tlx::ThreadBarrierSpin"
ORDER = {0: "relaxed", 1: "consume", 2: "acquire", 3: "release", 4: "acq_rel", 5: "seq_cst"}
M64 = 1 << 64
ACTION = ("action",)
GUARDS = sync.GUARDS


# ------------------------------------------------------------------------------------------------ evaluation machinery
class Counterexample(Exception):
    """a concrete run of the model that breaks the rule"""
    def __init__(self, sig, msg, loc):
        Exception.__init__(self, msg)
        self.sig, self.msg, self.loc = sig, msg, loc


class StopRun(Exception):
    """the schedule under evaluation has shown what it was made for"""


class AbortThread(Exception):
    """the simulated thread is preempted for good at this point (its effects so far stay)"""


def _is_shared(k):
    if isinstance(k, tuple) and len(k) > 1 and k[0] == "elem":
        return _is_shared(k[1])
    return isinstance(k, tuple) and len(k) > 0 and k[0] in ("field", "mem", "meta")


class LayerEnv(dict):
    """locals of one simulated thread on top of the object's fields shared by all threads"""
    serial = 0

    def __init__(self, shared):
        dict.__init__(self)
        self.shared = shared

    def __contains__(self, k):
        return (k in self.shared) if _is_shared(k) else dict.__contains__(self, k)

    def __getitem__(self, k):
        return self.shared[k] if _is_shared(k) else dict.__getitem__(self, k)

    def __setitem__(self, k, v):
        if _is_shared(k):
            self.shared[k] = v
        else:
            dict.__setitem__(self, k, v)

    def get(self, k, d=None):
        return self[k] if k in self else d

    def items(self):
        # only engine/skel.py's "same state at the loop head again" test asks for this; that test compares the state before
        # a do-while's first condition with the state before its second body and takes an idle spin for a livelock.  The
        # models bound their loops themselves (spin limit, scripts that end), so every snapshot is made distinct.
        LayerEnv.serial += 1
        return list(dict.items(self)) + list(self.shared.items()) + [(("meta", "snapshot"), LayerEnv.serial)]


def unsigned_ty(e):
    t = (e.get("cty") or e.get("ty") or "") if e else ""
    return t.startswith("unsigned") or t in ("size_t", "std::size_t")


def is_guard_ty(t):
    t = (t or "").strip()
    if t.startswith("const "):
        t = t[6:]
    return any(t.startswith(p) for p in GUARDS)


def _uint(t):
    return t.strip() in ("unsigned long", "size_t", "std::size_t", "unsigned int", "unsigned long long", "unsigned")


def _const_uint(t):
    return t.startswith("const ") and _uint(t[6:])


def _uint_pair(t):
    return t.endswith("[2]") and _uint(t[:-3])


def _mutex(t):
    return t.endswith("mutex")


def _scalar(t):
    t = t.strip()
    if t.endswith("const"):
        t = t[:-5].strip()
    if t.startswith("const "):
        t = t[6:].strip()
    if t.endswith("*"):                    # a pointer to a scalar is carried like a number
        return not t.endswith("**") and _scalar(t[:-1])
    return _uint(t) or t in ("bool", "int", "long", "long long", "short", "unsigned short", "char", "unsigned char", "signed char",
                             "ptrdiff_t", "std::ptrdiff_t", "ssize_t", "uint64_t", "uint32_t", "int64_t", "int32_t", "std::uint64_t",
                             "std::uint32_t", "std::int64_t", "std::int32_t")


def _is_rec(v):
    return isinstance(v, tuple) and len(v) == 3 and v[0] == "rec"


def _atomic_uint(t):
    return "atomic<" in t and _uint(t[t.index("atomic<") + 7:].rstrip("> "))


def field_roles(tu, record, spec):
    """the fields of the class by what they are (type), not by what they are called: {role: name}; a role that does not
    match exactly one field is not understood"""
    fields = tu.record(record)["fields"]
    out = {}
    for role, (pred, n) in spec.items():
        xs = [f["name"] for f in fields if pred((f.get("ty") or "").strip())]
        if len(xs) != n:
            raise dtable.Undecidable("%s: %d fields can be the %s (expected %d): layout of the class not understood" % (record, len(xs), role, n))
        out[role] = xs[0] if n == 1 else tuple(xs)
    return out


def renamed(msg, names):
    """the messages speak of the fields by the names they have in tlx; a renamed field is shown under its new name"""
    for std, now in names.items():
        if std != now:
            msg = msg.replace(std, now)
    return msg


class Sim(skel.Skel):
    """one thread of control: the integer skeleton of a member function on the small model; unsigned arithmetic wraps"""
    def __init__(self, fn, tu, world, shared):
        skel.Skel.__init__(self, fn, env=None, unknown=world.unknown, event=world.event, tu=tu)
        self.env = LayerEnv(shared)
        self.world = world
        self.cur = None
        self.tid = None
        self.cur_e = None
        self.plain = {}
        self.this_obj = None         # while a member function of a small struct runs: key of the object it runs on ...
        self.this_rec = ()           # ... and the names of its type
        self.tmp = 0

    def arith(self, op, a, b, e):
        r = skel.Skel.arith(self, op, a, b, e)
        if isinstance(r, int) and not isinstance(r, bool) and op in ("+", "-", "*", "<<") and unsigned_ty(e):
            r %= M64
        return r

    def here(self, node=None):
        n = node if node is not None and node.get("l") is not None else self.cur
        return self.fn.nloc(n) if n is not None else self.fn.loc

    # ---- small structs: a local / returned object of a plain record type (no bases, scalar fields, no user-declared
    # members other than ordinary member functions whose bodies are at hand) is the value ("rec", type, ((field, value), ...));
    # obj.f is read from and written into that value, obj.m(...) runs the body of m on that value.  A field that was never
    # written is None (data) like an uninitialised local.
    def plain_methods(self, r):
        """the user-declared members of the record are ordinary member functions that can be evaluated: no constructor,
        destructor or operator (they would change what building / copying / assigning the object means), nothing virtual"""
        for m in r.get("methods") or ():
            f = self.tu.by_did.get(m.get("did"))
            if m.get("virtual") or f is None or f.kind != "method" or f.body is None or (f.name or "").startswith("operator"):
                return False
        return True

    def plain_record(self, ty):
        """names of the fields if ty is such a record, else None"""
        t = ir._bare(ty)
        if t not in self.plain:
            fs = None
            rs = [r for r in self.tu.records if t in (r.get("full"), r.get("qname"))] if self.tu is not None and t else []
            shapes = {tuple((f.get("name"), f.get("ty")) for f in r.get("fields") or ()) for r in rs}    # a struct local to a template: one record per instance
            if rs and len(shapes) == 1 and not any(r.get("bases") for r in rs) and rs[0].get("fields") and \
                    all(_scalar(f.get("ty") or "") and f.get("name") for f in rs[0]["fields"]):
                with_methods = any(r.get("methods") for r in rs)
                # a member function of the struct is evaluated outside the lock-state dataflow of the class under test: it must
                # not be able to reach that class's state, so a struct with member functions carries numbers only, no pointers
                if not with_methods or (len(rs) == 1 and self.plain_methods(rs[0]) and
                                        not any("*" in (f.get("ty") or "") or "&" in (f.get("ty") or "") for f in rs[0]["fields"])):
                    fs = tuple(f["name"] for f in rs[0]["fields"])
            self.plain[t] = fs
        return self.plain[t]

    def this_member(self, x):
        """x is `this->f` / `f` inside a member function of a small struct that is being evaluated: the key of that field of
        the object the function runs on, else None"""
        if self.this_obj is None or x is None or x["k"] != "MemberExpr" or not match.this_field(x):
            return None
        if ir._bare(x.get("owner")) not in self.this_rec:
            raise dtable.Undecidable("%s: member %s of another class is used inside a member function of a small struct" % (self.here(x), x.get("member")))
        return ("sub", self.this_obj, x["member"])

    def record_call(self, x):
        """obj.m(args) / p->m(args) where obj is a small struct held as a value: runs the body of m on that object"""
        c = x["callee"]
        if x["k"] == "CXXOperatorCallExpr" or not x.get("member_call") or self.tu is None or self.depth >= 5:
            return NotImplemented
        args = [a for a in kids(x) if a is not None and a["k"] != "DefaultArg"]
        if not args:
            return NotImplemented
        obj = strip_casts(args[0])
        while obj is not None and obj["k"] in ("ParenExpr", "MaterializeTemporaryExpr", "CXXBindTemporaryExpr", "ExprWithCleanups") and kids(obj):
            obj = strip_casts(kids(obj)[0])
        if obj is None or obj["k"] == "This":
            return NotImplemented
        callee = self.tu.by_did.get(c.get("did"))
        if callee is None or callee.body is None or callee.kind != "method" or callee.d.get("static") or callee.did == self.fn.did:
            return NotImplemented
        rec = ir._bare(c.get("record"))
        if not rec or self.plain_record(rec) is None or len(args) - 1 != len(callee.params):
            return NotImplemented
        recs = tuple({n for r in self.tu.records if rec in (r.get("full"), r.get("qname")) for n in (r.get("full"), r.get("qname")) if n})
        oty = (obj.get("ty") or "").rstrip()
        if oty.endswith("*"):
            p = self.ev(obj)
            key = p[1] if isinstance(p, tuple) and len(p) == 2 and p[0] == "ptr" else None
        elif ("callee" not in obj or match.index_parts(obj) or match.deref_of(obj)) and obj["k"] != "InitListExpr":
            key = self.lvalue(obj)
        else:                                # a temporary: helper().m()
            v = self.ev(obj)
            self.tmp += 1
            key = ("tmp", self.tmp)
            self.env[key] = v
        if key is None or not _is_rec(self.load(key)) or self.load(key)[1] not in recs:
            raise dtable.Undecidable("%s: call of %s() on an object that is not understood" % (self.here(x), c.get("name")))
        saved_alias = dict(self.alias)
        binds = []
        for p, a in zip(callee.params, args[1:]):          # like engine/skel.py's inline(): references name the caller's objects
            ty = (p.get("ty") or "").rstrip()
            if ty.endswith("&") and not ty.endswith("&&") and "const" not in ty.split("<")[0]:
                k = self.lvalue(a)
                if k is None:
                    raise dtable.Undecidable("%s: argument of %s() bound to a reference is not a named object" % (self.here(x), c.get("name")))
                binds.append((p["did"], k, True))
            elif ty.endswith("&") and self.lvalue(a) is not None:
                binds.append((p["did"], self.lvalue(a), True))
            else:
                binds.append((p["did"], self.ev(a), False))
        for did, v, is_alias in binds:
            if is_alias:
                self.alias[did] = v
            else:
                self.env[did] = v
        saved = (self.fn, self.cur, self.this_obj, self.this_rec)
        self.fn, self.this_obj, self.this_rec = callee, key, recs
        self.depth += 1
        try:
            self.run(kids(callee.body))
            ret = None
        except skel.Return as r_:
            ret = r_.v
        finally:
            self.fn, self.cur, self.this_obj, self.this_rec = saved
            self.depth -= 1
            self.alias = saved_alias
        return ret

    def member_base(self, x):
        """obj of obj.f / p->f, unless the object is *this"""
        if x is None or x["k"] != "MemberExpr" or not kids(x) or kids(x)[0] is None or match.this_field(x):
            return None
        b = strip_casts(kids(x)[0])
        while b is not None and b["k"] == "ParenExpr":
            b = strip_casts(kids(b)[0])
        return b

    def lvalue(self, e):
        x = strip_casts(e)
        while x is not None and x["k"] == "ParenExpr":
            x = strip_casts(kids(x)[0])
        tk = self.this_member(x)
        if tk is not None:
            return tk
        b = self.member_base(x)
        if b is None:
            return skel.Skel.lvalue(self, e)
        if x.get("arrow"):
            p = self.ev(b)
            bk = p[1] if isinstance(p, tuple) and len(p) == 2 and p[0] == "ptr" else None
        else:
            bk = self.lvalue(b)
        return ("sub", bk, x["member"]) if bk is not None else None

    def load(self, key):
        if isinstance(key, tuple) and len(key) == 3 and key[0] == "sub":
            b = self.load(key[1])
            if _is_rec(b):
                for n, v in b[2]:
                    if n == key[2]:
                        return v
            return None
        if _is_shared(key) and key[0] != "meta":
            self.world.on_access(self, key, self.place())
        return skel.Skel.load(self, key)

    def place(self):
        """the expression (else the statement) of the running function that is being evaluated, None if that is not known"""
        for n in (self.cur_e, self.cur):
            if n is not None and n.get("id") is not None and self.fn.byid(n["id"]) is n:
                return n
        return None

    def ev(self, e):
        """keeps track of the innermost expression under evaluation: the place of an access through a pointer / a reference"""
        prev = self.cur_e
        if e is not None and e.get("l") is not None:
            self.cur_e = e
        try:
            return self.ev_(e)
        finally:
            self.cur_e = prev

    def ev_(self, e):
        x = match.strip_conv(e)
        while x is not None and x["k"] in ("ParenExpr", "ExprWithCleanups", "MaterializeTemporaryExpr", "CXXBindTemporaryExpr") and kids(x):
            x = match.strip_conv(kids(x)[0])
        if x is None or const_int(x) is not None:
            return skel.Skel.ev(self, e)
        if x["k"] == "CXXDefaultInitExpr" and len(kids(x)) == 1:      # the default member initialiser stands for the element
            return self.ev(kids(x)[0])
        if x["k"] == "ImplicitValueInitExpr" and _scalar(x.get("ty") or ""):
            return False if ir._bare(x.get("ty")) == "bool" else 0
        tk = self.this_member(x)
        if tk is not None:
            return self.load(tk)
        if "callee" in x and x.get("member_call"):
            r = self.record_call(x)
            if r is not NotImplemented:
                return r
        b = self.member_base(x)
        if b is not None:
            named = not x.get("arrow") and ("callee" not in b or match.index_parts(b) or match.deref_of(b)) and b["k"] != "InitListExpr"
            if x.get("arrow") or named:
                key = self.lvalue(x)         # evaluates what the object expression has to evaluate
                return self.load(key) if key is not None else None
            bv = self.ev(b)                  # a temporary: helper().f
            return dict(bv[2]).get(x["member"]) if _is_rec(bv) else None
        if x["k"] in ("CXXConstructExpr", "CXXTemporaryObjectExpr") and not [a for a in kids(x) if a is not None and a["k"] != "DefaultArg"]:
            fs = self.plain_record(x.get("ty"))
            if fs is not None:               # default-initialised: the fields hold nothing yet
                return ("rec", ir._bare(x.get("ty")), tuple((n, None) for n in fs))
        r = self.std_tuple(x)
        if r is not NotImplemented:
            return r
        if x["k"] == "InitListExpr":
            fs = self.plain_record(x.get("ty"))
            if fs is not None:
                vals = [self.ev(a) for a in kids(x)]          # one per field, in the order of the fields (= the order written)
                if len(vals) != len(fs):
                    raise dtable.Undecidable("%s: initialiser list does not have one element per field of the record" % self.here(x))
                return ("rec", ir._bare(x.get("ty")), tuple(zip(fs, vals)))
        return skel.Skel.ev(self, e)

    def args_in_any_order(self, x, args):
        """values of function arguments; the order in which a compiler evaluates them is not fixed, so at most one of them
        may do something the model observes"""
        vals, acting = [], 0
        for a in args:
            t0 = self.world.shared[("meta", "tick")]
            vals.append(self.ev(a))
            acting += self.world.shared[("meta", "tick")] != t0
        if acting > 1:
            raise dtable.Undecidable("%s: several arguments of one call act on the synchronisation state: their order of evaluation is unspecified" % self.here(x))
        return vals

    def std_tuple(self, x):
        """std::pair / std::tuple of scalars as carriers of a few values: make_pair, make_tuple, pair(a, b), tie(x, y) = value,
        get<I>(value); .first / .second are fields of the value"""
        if "callee" not in x:
            return NotImplemented
        c = x["callee"]
        qn = c.get("qname") or ""
        args = [a for a in kids(x) if a is not None and a["k"] != "DefaultArg"]
        ty = ir._bare(x.get("ty"))
        plain_args = all(_scalar(ir._bare(strip_casts(a).get("ty"))) or _scalar(ir._bare(a.get("ty"))) for a in args)
        if qn == "std::make_pair" and len(args) == 2 and plain_args:
            return ("rec", "std::pair", tuple(zip(("first", "second"), self.args_in_any_order(x, args))))
        if qn == "std::make_tuple" and args and plain_args:
            return ("rec", "std::tuple", tuple((str(i), v) for i, v in enumerate(self.args_in_any_order(x, args))))
        if x["k"] in ("CXXConstructExpr", "CXXTemporaryObjectExpr") and ty.startswith("std::pair<") and len(args) == 2 and plain_args:
            return ("rec", "std::pair", tuple(zip(("first", "second"), self.args_in_any_order(x, args))))
        if x["k"] in ("CXXConstructExpr", "CXXTemporaryObjectExpr") and ty.startswith("std::tuple<") and len(args) >= 2 and plain_args:
            return ("rec", "std::tuple", tuple((str(i), v) for i, v in enumerate(self.args_in_any_order(x, args))))
        if qn == "std::tie" and args:
            keys = tuple(self.lvalue(a) for a in args)
            if any(k is None for k in keys):
                raise dtable.Undecidable("%s: std::tie of something that is not a named object" % self.here(x))
            return ("tie", keys)
        if x["k"] == "CXXOperatorCallExpr" and x.get("op") == "=" and c.get("record") == "std::tuple" and len(args) == 2:
            t = match.strip_conv(args[0])
            if t is not None and "callee" in t and t["callee"].get("qname") == "std::tie":
                v = self.ev(args[1])         # the right-hand side of an assignment is evaluated first (C++17); tie() itself does nothing
                lhs = self.ev(t)
                if not _is_rec(v) or v[1] not in ("std::pair", "std::tuple") or len(v[2]) != len(lhs[1]):
                    raise dtable.Undecidable("%s: assignment to std::tie from a value that is not understood" % self.here(x))
                for k, (n, fv) in zip(lhs[1], v[2]):
                    self.store(k, fv)
                return lhs
            return NotImplemented
        if qn == "std::get" and len(args) == 1:
            ta = c.get("targs") or []
            v = self.ev(args[0])
            idx = str(ta[0]).rstrip("uUlL") if ta else ""
            if _is_rec(v) and v[1] in ("std::pair", "std::tuple") and idx.isdigit() and int(idx) < len(v[2]):
                return v[2][int(idx)][1]
            return None
        return NotImplemented

    def store(self, key, v):
        if key is None:
            raise dtable.Undecidable("%s: assignment through an lvalue that is not understood" % self.here())
        if isinstance(key, tuple) and len(key) == 3 and key[0] == "sub":
            b = self.load(key[1])
            if not _is_rec(b) or key[2] not in dict(b[2]):
                raise dtable.Undecidable("%s: assignment to a member of an object that is not understood" % self.here())
            return self.store(key[1], ("rec", b[1], tuple((n, v if n == key[2] else o) for n, o in b[2])))
        if isinstance(v, int) and not isinstance(v, bool) and _is_shared(key):
            v %= M64
        old = self.load(key)
        skel.Skel.store(self, key, v)
        self.world.on_store(self, key, old, v)

    def stmt(self, s):
        if s is None:
            return
        if s["k"] != "CompoundStmt":
            self.cur = s
        if s["k"] == "DeclStmt":
            for v in kids(s):
                if v["k"] == "VarDecl" and is_guard_ty(v.get("ty")):
                    self.world.on_guard(self, v)
        prev, self.cur_e = self.cur_e, None
        try:
            skel.Skel.stmt(self, s)
        finally:
            self.cur_e = prev


class World:
    """what the simulated threads see of the synchronisation primitives; subclasses say what an event means"""
    atomics = ()

    def __init__(self, tu):
        self.tu = tu
        self.shared = {("meta", "tick"): 0}

    def tick(self):
        self.shared[("meta", "tick")] += 1

    # ---- hooks of engine/skel.py
    def unknown(self, e, sk):
        if "callee" in e:
            for a in kids(e):
                for y in walk(a):
                    callable_ = y["k"] == "DeclRefExpr" and isinstance(sk.env.get(y["ref"]["id"]), tuple)      # the action / a lambda
                    if y["k"] == "This" or y["k"] == "LambdaExpr" or callable_ or (y["k"] == "DeclRefExpr" and y["ref"]["id"] in sk.alias):
                        raise dtable.Undecidable("%s: call of %s() that receives the object, a reference into it or a callable is not understood"
                                                 % (sk.here(e), e["callee"]["name"]))
        return None

    def event(self, e, sk):
        k = e["k"]
        if k == "LambdaExpr":
            return ("lambda", e.get("fn"))
        if k == "MemberExpr":
            if match.this_field(e) in self.atomics:
                raise dtable.Undecidable("%s: use of the atomic %s that is not a recognised atomic operation" % (sk.here(e), e["member"]))
            return NotImplemented
        if "callee" not in e:
            return NotImplemented
        c = e["callee"]
        name = c["name"]
        rec = c.get("record") or ""
        args = kids(e)
        if k in ("CXXConstructExpr", "CXXTemporaryObjectExpr") and is_guard_ty(e.get("ty")):
            return ("guard",)
        if name in ("move", "forward", "as_const") and len(args) == 1 and (c.get("qname") or "").startswith("std::"):
            return sk.ev(args[0])
        if e.get("member_call") and args:
            obj = strip_casts(args[0])
            if "condition_variable" in rec:
                if name == "wait":
                    self.tick()
                    return self.cv_wait(sk, e)
                if name in ("notify_one", "notify_all"):
                    self.tick()
                    self.on_notify(sk, e, name)
                    return None
                raise dtable.Undecidable("%s: condition_variable::%s is not modelled" % (sk.here(e), name))
            if obj is not None and (is_guard_ty(obj.get("ty")) or (obj.get("ty") or "").endswith("mutex")):
                if name in ("lock", "unlock"):
                    self.tick()
                    self.on_lock(sk, e, name)
                    return None
                raise dtable.Undecidable("%s: %s() on the mutex / its guard is not modelled" % (sk.here(e), name))
            if match.this_field(obj) in self.atomics:
                self.tick()
                return self.atomic(sk, e, match.this_field(obj))
        if k == "CXXOperatorCallExpr" and args:
            if match.this_field(args[0]) in self.atomics:
                self.tick()
                return self.atomic(sk, e, match.this_field(args[0]))
            if e.get("op") == "()":
                obj = sk.ev(args[0])
                if obj == ACTION:
                    self.tick()
                    self.on_action(sk, e)
                    return None
                if isinstance(obj, tuple) and obj[:1] == ("lambda",):
                    return self.call_lambda(sk, obj[1], args[1:], e)
                if self.tu.by_did.get(c.get("did")) is None or self.tu.by_did[c["did"]].body is None:
                    raise dtable.Undecidable("%s: call of a callable object that is neither the action nor a lambda of this function" % sk.here(e))
        return NotImplemented

    def call_lambda(self, sk, did, args, e):
        lf = self.tu.by_did.get(did)
        if lf is None or lf.body is None:
            raise dtable.Undecidable("%s: body of the lambda called here is not available" % sk.here(e))
        for p, a in zip(lf.params, args):
            sk.env[p["did"]] = sk.ev(a)
        saved, savedcur = sk.fn, sk.cur
        sk.fn = lf
        sk.depth += 1
        try:
            sk.run(kids(lf.body))
            ret = None
        except skel.Return as r:
            ret = r.v
        finally:
            sk.fn, sk.cur = saved, savedcur
            sk.depth -= 1
        return ret

    def cv_wait(self, sk, e):
        args = [a for a in kids(e)[1:] if a is not None and a["k"] != "DefaultArg"]
        if len(args) < 2:
            self.block(sk, e)
            return None
        pv = sk.ev(args[1])
        if not (isinstance(pv, tuple) and pv[:1] == ("lambda",)):
            raise dtable.Undecidable("%s: predicate of cv wait is not a lambda that can be evaluated" % sk.here(e))
        rounds = 0
        while True:           # wait(lock, pred) is `while (!pred()) wait(lock);`
            r = self.call_lambda(sk, pv[1], [], e)
            if r is None:
                raise dtable.Undecidable("%s: predicate of cv wait depends on data" % sk.here(e))
            if r:
                return None
            rounds += 1
            if rounds > 16:
                raise dtable.Undecidable("%s: predicate of cv wait never becomes true in the model" % sk.here(e))
            self.block(sk, e)

    def order_arg(self, sk, e, args, i):
        if len(args) <= i or args[i] is None or args[i]["k"] == "DefaultArg":
            return 5
        o = const_int(args[i])
        if o is None:
            o = sk.ev(args[i])
        if not isinstance(o, int) or isinstance(o, bool) or o not in ORDER:
            raise dtable.Undecidable("%s: memory order argument is not a constant" % sk.here(e))
        return o

    def atomic(self, sk, e, f):
        """decodes an operation on the atomic field f into (kind, order, value function) and lets the world perform it"""
        name = e["callee"]["name"]
        key = ("field", f)
        if e["k"] != "CXXOperatorCallExpr":
            args = [a for a in kids(e)[1:] if a is not None]
            if name == "load":
                return self.on_atomic(sk, e, f, "load", self.order_arg(sk, e, args, 0), None, None)
            if name == "store" and args:
                v = sk.ev(args[0])
                return self.on_atomic(sk, e, f, "store", self.order_arg(sk, e, args, 1), lambda old: v, lambda old, new: None)
            if name in ("fetch_add", "fetch_sub") and args:
                d = sk.ev(args[0])
                if not isinstance(d, int):
                    raise dtable.Undecidable("%s: amount of %s depends on data" % (sk.here(e), name))
                sg = 1 if name == "fetch_add" else -1
                return self.on_atomic(sk, e, f, "rmw", self.order_arg(sk, e, args, 1), lambda old: (old + sg * d) % M64, lambda old, new: old)
            if name == "exchange" and args:
                v = sk.ev(args[0])
                return self.on_atomic(sk, e, f, "rmw", self.order_arg(sk, e, args, 1), lambda old: v, lambda old, new: old)
            if name.startswith("operator ") and not args:       # conversion to the value type
                return self.on_atomic(sk, e, f, "load", 5, None, None)
        else:
            op = e.get("op")
            args = kids(e)[1:]
            if op in ("++", "--"):
                sg = 1 if op == "++" else -1
                post = len(kids(e)) == 2
                return self.on_atomic(sk, e, f, "rmw", 5, lambda old: (old + sg) % M64, (lambda old, new: old) if post else (lambda old, new: new))
            if op in ("+=", "-=") and args:
                d = sk.ev(args[0])
                if not isinstance(d, int):
                    raise dtable.Undecidable("%s: amount of %s depends on data" % (sk.here(e), op))
                sg = 1 if op == "+=" else -1
                return self.on_atomic(sk, e, f, "rmw", 5, lambda old: (old + sg * d) % M64, lambda old, new: new)
            if op == "=" and args:
                v = sk.ev(args[0])
                return self.on_atomic(sk, e, f, "store", 5, lambda old: v, lambda old, new: v)
        raise dtable.Undecidable("%s: atomic operation %s on %s is not modelled" % (sk.here(e), name, f))

    # ---- meanings, overridden
    def on_store(self, sk, key, old, new):
        pass

    def on_access(self, sk, key, node):
        """a field of the object is read / written through an lvalue that is not the member expression itself (pointer,
        reference, element): the lock-state check of the member expressions does not see this access"""

    def on_guard(self, sk, v):
        pass

    def on_lock(self, sk, e, name):
        pass

    def on_notify(self, sk, e, kind):
        pass

    def on_action(self, sk, e):
        pass

    def on_atomic(self, sk, e, f, kind, order, newval, result):
        raise dtable.Undecidable("%s: atomic operation outside a barrier model" % sk.here(e))

    def block(self, sk, e):
        raise dtable.Undecidable("%s: cv wait outside a model" % sk.here(e))


# ------------------------------------------------------------------------------------------------ lock state (closed world)
def mutex_aliases(fn, mutex):
    """local references `std::mutex& m = mutex_;`"""
    return {v["did"] for v in fn.nodes() if v["k"] == "VarDecl" and (v.get("ty") or "").rstrip().endswith("&") and kids(v)
            and match.this_field(kids(v)[0]) == mutex}


def lock_open_uses(fn, mutex, known_guards=()):
    """uses of the mutex field / of a guard object that the lock-state dataflow does not interpret: with one of them present
    'not held' cannot be concluded"""
    out = []
    alias = mutex_aliases(fn, mutex)
    for x in fn.nodes():
        if x["k"] == "VarDecl" and is_guard_ty(x.get("ty")) and x.get("did") not in known_guards:
            out.append(x)                    # a guard the dataflow did not see being built from the mutex
            continue
        if "callee" in x and x["k"] not in ("CXXConstructExpr", "CXXTemporaryObjectExpr") and is_guard_ty(x["callee"].get("ret")):
            out.append(x)                    # a guard handed out by a function
            continue
        isg = x["k"] == "DeclRefExpr" and is_guard_ty(x.get("ty"))
        ism = (x["k"] == "MemberExpr" and match.this_field(x) == mutex) or (x["k"] == "DeclRefExpr" and x["ref"]["id"] in alias)
        if not (isg or ism):
            continue
        par = fn.parent(x)
        while par is not None and par["k"] in ("ImplicitCastExpr", "ParenExpr"):
            par = fn.parent(par)
        if par is None:
            out.append(x)
            continue
        if par["k"] == "VarDecl" and par.get("did") in alias:
            continue
        if "callee" in par:
            name = par["callee"]["name"]
            first = kids(par) and strip_casts(kids(par)[0]) is x
            if par.get("member_call") and first and name in ("lock", "unlock"):
                if isg and x["ref"].get("kind") == "param":
                    out.append(x)            # a guard handed in by the caller: its state belongs to the caller's dataflow
                continue
            if par["k"] in ("CXXConstructExpr", "CXXTemporaryObjectExpr") and is_guard_ty(par.get("ty")) and ism:
                continue
            if "condition_variable" in (par["callee"].get("record") or "") and name == "wait" and isg:
                continue
        out.append(x)
    return out


class LockSet:
    """lock state at the nodes of a set of member functions: API functions start unlocked, private helpers start in the
    state common to all their call sites"""
    def __init__(self, tu, record, roots, mutex):
        self.tu, self.mutex = tu, mutex
        self.flows = {}
        self.open = {}
        self.fns = []
        self.entry = {}
        members = {f.did: f for f in tu.find(record=record) if f.body is not None}
        callers = {}
        self.callees = {}
        self.calls_out = {}
        order = []
        seen = set()
        stack = list(roots)
        while stack:                       # helpers reachable through calls on *this
            f = stack.pop()
            if f.did in seen:
                continue
            seen.add(f.did)
            order.append(f)
            for x in f.nodes():
                if "callee" in x and x.get("member_call") and kids(x) and strip_casts(kids(x)[0])["k"] == "This":
                    cal = members.get(x["callee"].get("did"))
                    if cal is not None and cal.did != f.did:
                        callers.setdefault(cal.did, []).append((f, x))
                        self.callees.setdefault(f.did, []).append(cal)
                        stack.append(cal)
        for fid, sites in list(callers.items()):
            cal = members[fid]
            if not self.neutral(cal):        # the callee changes the lock state under the caller's feet
                for f, x in sites:
                    self.calls_out.setdefault(f.did, []).append(x)
        rootids = {r.did for r in roots}
        self.fns = order
        pending = list(order)
        rounds = 0
        while pending:
            rounds += 1
            if rounds > 50:
                raise dtable.Undecidable("lock state of the helper call graph of %s does not settle" % record)
            nxt = []
            for f in pending:
                if f.did in rootids:
                    self._flow(f, False)
                    continue
                sites = callers.get(f.did, [])
                if any(c.did not in self.flows for c, x in sites):
                    nxt.append(f)
                    continue
                held = [self.flows[c.did].held_at(x) for c, x in sites]
                self._flow(f, all(h is True for h in held))
            if len(nxt) == len(pending):
                raise dtable.Undecidable("recursive helper calls in %s: lock state not derived" % record)
            pending = nxt

    def _flow(self, f, entry):
        alias = mutex_aliases(f, self.mutex)
        self.flows[f.did] = sync.LockFlow(f, (lambda e: match.this_field(e) == self.mutex or ref_of(e) in alias) if alias else self.mutex, entry_held=entry)
        self.entry[f.did] = entry
        self.open[f.did] = lock_open_uses(f, self.mutex, self.flows[f.did].guards) + self.calls_out.get(f.did, [])

    def neutral(self, f, seen=()):
        """a call of f leaves the lock state as it found it: f locks only through guards that live and die inside it"""
        if f.did in seen:
            return True
        if is_guard_ty(f.d.get("ret")):
            return False
        for x in f.nodes():
            if "callee" in x and x.get("member_call") and kids(x) and x["callee"]["name"] in ("lock", "unlock", "try_lock", "release", "swap"):
                o = strip_casts(kids(x)[0])
                if match.this_field(o) == self.mutex or (o["k"] == "DeclRefExpr" and is_guard_ty(o.get("ty")) and o["ref"].get("kind") == "param"):
                    return False
            if x["k"] == "ReturnStmt" and kids(x) and is_guard_ty((strip_casts(kids(x)[0]) or {}).get("ty")):
                return False
        return all(self.neutral(c, tuple(seen) + (f.did,)) for c in self.callees.get(f.did, []))

    def status(self, fn, node):
        """True: held on every path | False: the dataflow, which interprets every lock operation of the function, has a path
        on which it is not held | Undecidable: not known to be held and the function has lock operations it does not interpret"""
        fl = self.flows.get(fn.did)
        if fl is None:
            raise dtable.Undecidable("%s: lock state of %s not derived" % (fn.nloc(node), fn.qname))
        h = fl.held_at(node)
        if h is True:
            return True
        if h == "?":
            raise dtable.Undecidable("%s: node is not in the control-flow graph: lock state unknown" % fn.nloc(node))
        if self.open[fn.did]:
            u = self.open[fn.did][0]
            raise dtable.Undecidable("%s: %s is not known to be held here and the function uses the mutex / a guard in a way the lock "
                                     "dataflow does not interpret (line %s)" % (fn.nloc(node), self.mutex, u.get("l")))
        return False


# ------------------------------------------------------------------------------------------------ Semaphore
V_GRID = (0, 1, 2, 3, 4, 6)
D_GRID = (0, 1, 2, 3)
S_GRID = (0, 1, 2)
HAVOC = ("same", 0, 1, 2, 3, 4, 6)
BIG = 6            # >= every delta + slack of the grid: lets re-check loops end
MAX_HAVOC = 2


class SemWorld(World):
    """one call of a Semaphore member on (value_, delta, slack); whenever mutex_ is given up (cv wait, unlock ... lock, a second
    guard) the environment sets value_ to the next value of the script"""
    def __init__(self, tu, vname, v0, script, ls=None):
        World.__init__(self, tu)
        self.ls = ls
        self.vkey = ("field", vname)
        self.shared[self.vkey] = v0
        self.script = script
        self.used = 0
        self.log = []
        self.guards = 0

    def havoc(self, sk, why, node):
        key = self.vkey
        old = self.shared[key]
        nxt = self.script[self.used] if self.used < len(self.script) else BIG
        self.used += 1
        if nxt != "same":
            self.shared[key] = nxt
        self.log.append(("havoc", why, old, self.shared[key], sk.fn, node))

    def block(self, sk, e):
        self.log.append(("wait", sk.fn, e))
        self.havoc(sk, "wait", e)

    def on_lock(self, sk, e, name):
        if name == "lock":
            self.havoc(sk, "lock", e)

    def on_guard(self, sk, v):
        self.guards += 1
        if self.guards > 1:
            self.havoc(sk, "lock", v)

    def on_notify(self, sk, e, kind):
        self.log.append(("notify", kind, sk.fn, e))

    def on_store(self, sk, key, old, new):
        if key == self.vkey and old != new:
            self.log.append(("store", old, new, sk.fn, sk.cur))

    def on_access(self, sk, key, node):
        if key != self.vkey or self.ls is None or sk.fn.did not in self.ls.flows:
            return                       # a lambda (predicate of a cv wait: runs under the lock of the wait)
        if node is None:
            raise dtable.Undecidable("%s: place of an access to the value through a pointer / reference is not known" % sk.here())
        if any(y["k"] == "MemberExpr" and match.this_field(y) == key[1] for y in walk(node)):
            return                       # the member expression is in the expression: the lockset check has looked at it
        if self.ls.status(sk.fn, node) is not True:
            self.log.append(("unlocked", sk.fn, node))


def sem_runs(tu, fn, grid, vname, ls=None):
    """all runs of fn over the grid and over the environment's scripts: yields (v0, d, s, script, log)"""
    for v0, d, s in grid:
        pending = [()]
        while pending:
            script = pending.pop()
            w = SemWorld(tu, vname, v0, script, ls)
            sk = Sim(fn, tu, w, w.shared)
            for p, val in zip(fn.params, (d, s)):
                sk.env[p["did"]] = val
            try:
                sk.run(kids(fn.body))
            except skel.Return:
                pass
            if w.used > len(script) and len(script) < MAX_HAVOC:
                pending.extend(script + (h,) for h in HAVOC)
                continue            # the longer scripts cover this run
            yield v0, d, s, script, w.log


def call_text(fn, v0, d, s, script):
    args = [str(x) for x in (d, s)[:len(fn.params)]]
    t = "%s(%s) entered with value_=%d" % (fn.name, ", ".join(args), v0)
    if script:
        t += ", value_ after each reacquisition of mutex_: %s" % ", ".join("unchanged" if h == "same" else str(h) for h in script)
    return t


def check_semaphore(ck, tu):
    api = [f for f in tu.find(record=SEM) if f.name in ("signal", "wait", "try_acquire") and f.body is not None]
    for nm in ("signal", "wait", "try_acquire"):
        ck.require(any(f.name == nm for f in api), "Semaphore::%s not found" % nm)
    roles = field_roles(tu, SEM, {"value": (_uint, 1), "mutex": (_mutex, 1)})
    VAL, MTX = roles["value"], roles["mutex"]
    names = {"value_": VAL, "mutex_": MTX}
    ls = LockSet(tu, SEM, api, MTX)
    # --- lockset: every access of value_ in the API functions and their helpers
    for fn in ls.fns:
        tag = "%s/%d" % (fn.qname, len(fn.params))
        for x in fn.nodes():
            if x["k"] == "MemberExpr" and match.this_field(x) == VAL:
                if ls.status(fn, x) is True:
                    ck.ok("SEM-LOCKSET", "%s @%s" % (tag, fn.nloc(x)), renamed("value_ accessed with mutex_ held", names), nontrivial=False)
                else:
                    ck.violation("SEM-LOCKSET", fn.qname, "%s/%d:value_" % (fn.name, len(fn.params)), renamed("value_ is accessed without holding mutex_", names), fn.nloc(x))
    # --- evaluation
    obs = {}
    blocked = {}           # (v0, d, s) -> the call blocked before anything else

    def evaluate(fn):
        taker = fn.name in ("wait", "try_acquire")
        tag = "%s/%d" % (fn.qname, len(fn.params))
        np = len(fn.params)
        if taker and np not in (1, 2):
            raise dtable.Undecidable("%s: %s with %d parameters (expected delta[, slack])" % (fn.loc, fn.name, np))
        if not taker and np > 1:
            raise dtable.Undecidable("%s: signal with %d parameters" % (fn.loc, np))
        grid = [(v, d if np >= 1 else 0, s if np >= 2 else 0) for v in V_GRID for d in (D_GRID if np >= 1 else (0,)) for s in (S_GRID if np >= 2 else (0,))]
        found = {}             # (rule, sig) -> (msg, loc)
        takes = waits = adds = 0
        notes = {}             # notify node id -> (kind, fn, node)
        for v0, d, s, script, log in sem_runs(tu, fn, grid, VAL, ls):
            need = d + s
            txt = call_text(fn, v0, d, s, script)
            first = next((ev for ev in log if ev[0] in ("wait", "store")), None)
            if taker:
                blocked[(fn.name, v0, d, s)] = first is not None and first[0] == "wait"
            for i, ev in enumerate(log):
                if ev[0] == "unlocked":
                    found.setdefault(("SEM-LOCKSET", "%s/%d:value_:alias" % (fn.name, np)), (
                        "value_ is accessed without holding mutex_ (through a reference / pointer to it)", ev[1].nloc(ev[2])))
                elif ev[0] == "wait":
                    waits += 1
                    hv = log[i + 1]
                    if hv[2] == hv[3]:      # woken with nothing changed: whatever made the call wait still holds
                        nxt = next((z for z in log[i + 2:] if z[0] in ("wait", "store", "notify")), None)
                        if nxt is None or nxt[0] != "wait":
                            found.setdefault(("NO-BARE-WAIT", fn.name), (
                                "cv_.wait() without predicate and without an enclosing re-check loop: %s - after a wake-up that changed nothing the call "
                                "goes on instead of waiting again" % txt, ev[1].nloc(ev[2])))
                elif ev[0] == "store":
                    old, new, f_, st = ev[1], ev[2], ev[3], ev[4]
                    loc = f_.nloc(st) if st is not None else f_.loc
                    if taker and new == (old - d) % M64:
                        takes += 1
                        if old < need:
                            found.setdefault(("SEM-GUARDED-TAKE", fn.name), (
                                "value_ -= delta is reachable on a path on which value_ >= delta + slack was not the last thing established under the "
                                "lock: %s takes %d at value_=%d although delta + slack = %d" % (txt, d, old, need), loc))
                    elif taker and (old - new) % M64 < (1 << 63):
                        found.setdefault(("SEM-GUARDED-TAKE", fn.name), (
                            "the semaphore is decremented by %d instead of delta: %s" % ((old - new) % M64, txt), loc))
                    else:
                        adds += 1
                        later = [z for z in log[i + 1:] if z[0] == "notify"]
                        if not later:
                            found.setdefault(("WRITE-NOTIFY", "%s/%d" % (fn.name, np)), (
                                "tokens are added without notifying cv_ on every path (lost wake-up): %s raises value_ from %d to %d and returns "
                                "without a notify" % (txt, old, new), loc))
                        for z in later:
                            notes[z[3]["id"]] = (z[1], z[2], z[3])
                        if st is not None:
                            for y in walk(st):
                                if y["k"] == "MemberExpr" and match.this_field(y) == VAL and f_.did in ls.flows and ls.status(f_, y) is not True:
                                    found.setdefault(("WRITE-NOTIFY", "%s/%d:unlocked" % (fn.name, np)), ("value_ is increased without holding mutex_", loc))
        obs[fn.did] = (found, takes, waits, adds, notes, tag)
    undecided = []
    for fn in api:
        try:
            evaluate(fn)
        except ir.AnalysisBroken as e:      # one function that cannot be evaluated does not hide what the others show
            undecided.append(str(e))
    # do the waiters' decisions depend on their own parameters?  (same value_, different (delta, slack), different decision)
    waiter_params = None
    waiters_known = all(f.did in obs for f in api if f.name in ("wait", "try_acquire"))
    for (nm, v0, d, s), b in sorted(blocked.items()):
        for (nm2, v1, d2, s2), b2 in blocked.items():
            if nm2 == nm and v1 == v0 and b and not b2 and waiter_params is None:
                waiter_params = "at value_=%d %s(%d, %d) blocks while %s(%d, %d) can proceed" % (v0, nm, d, s, nm, d2, s2)
    for fn in api:
        if fn.did not in obs:
            continue
        found, takes, waits, adds, notes, tag = obs[fn.did]
        taker = fn.name in ("wait", "try_acquire")
        np = len(fn.params)
        for (rule, sig), (msg, loc) in sorted(found.items()):
            ck.violation(rule, fn.qname, sig, renamed(msg, names), loc)
        bad = {r for r, s_ in found}
        if taker:
            if not takes and "SEM-GUARDED-TAKE" not in bad:
                undecided.append("%s: no run of %s on the grid takes delta tokens: what the function does is not understood" % (fn.loc, fn.name))
            elif "SEM-GUARDED-TAKE" not in bad:
                ck.ok("SEM-GUARDED-TAKE", tag, "on %d-point grid x environment scripts: value_ -= delta only at value_ >= delta + slack established in the same hold"
                      % (len(V_GRID) * len(D_GRID) * len(S_GRID)))
        if waits and "NO-BARE-WAIT" not in bad:
            ck.ok("NO-BARE-WAIT", tag, "a wake-up that changed nothing is always followed by another wait (mutex_ held)")
        if adds and not any(r == "WRITE-NOTIFY" for r in bad):
            ck.ok("WRITE-NOTIFY", tag, "token-adding write followed by a notify in every run, under mutex_")
        if adds:
            for kind, nf, n in notes.values():
                if kind == "notify_all":
                    ck.ok("NOTIFY-KIND", tag, "notify_all")
                elif waiter_params:
                    ck.violation("NOTIFY-KIND", fn.qname, "%s/%d" % (fn.name, np), renamed(
                                 "waiters block on value_ < delta + slack with their own (delta, slack): after adding tokens a single notify_one can wake a waiter "
                                 "whose request is still not covered while one that is covered stays blocked; notify_all is required (%s)" % waiter_params, names), nf.nloc(n))
                elif waiters_known:
                    ck.ok("NOTIFY-KIND", tag, "notify_one with a parameter-free waiter predicate")
    ck.deferred.extend(undecided)


# ------------------------------------------------------------------------------------------------ barriers: common
THREADS = (1, 2, 3)


def ctor_field(tu, record, field, n):
    """value the one-argument constructor gives to `field` for argument n"""
    for c in tu.find(record=record):
        if c.kind == "ctor" and len(c.params) == 1 and unsigned_ty(c.params[0]):
            for i in c.inits:
                if i.get("field") == field and i.get("e") is not None:
                    w = World(tu)
                    sk = Sim(c, tu, w, w.shared)
                    sk.env[c.params[0]["did"]] = n
                    v = sk.ev(i["e"])
                    if isinstance(v, int) and not isinstance(v, bool):
                        return v % M64
                    raise dtable.Undecidable("%s: initialiser of %s not understood" % (c.loc, field))
    raise dtable.Undecidable("%s: constructor initialising %s not found" % (record, field))


class BarrierWorld(World):
    """N threads enter the same member function one after the other; a thread runs until it has to block, then the next one
    enters; when the blocked thread's reason to block is gone control returns to it (innermost first)"""
    def __init__(self, tu, fn, what, n):
        World.__init__(self, tu)
        self.fn = fn
        self.what = what
        self.N = n
        self.gen = 0
        self.sched = ""
        self.names = {}
        self.inconclusive = False

    def begin(self):
        self.started = 0
        self.stack = []
        self.returned = []
        self.action_runs = 0
        self.notified = []

    def cex(self, sig, msg, sk, node=None):
        raise Counterexample(sig, "%s [%d thread%s, generation %d of the model%s]"
                             % (renamed(msg, self.names), self.N, "" if self.N == 1 else "s", self.gen + 1, self.sched), sk.here(node))

    def run_thread(self):
        t = self.started
        self.started += 1
        self.stack.append(t)
        sk = Sim(self.fn, self.tu, self, self.shared)
        sk.tid = t
        if not self.fn.params:
            raise dtable.Undecidable("%s: barrier wait without an action parameter" % self.fn.loc)
        sk.env[self.fn.params[0]["did"]] = ACTION
        try:
            try:
                sk.run(kids(self.fn.body))
            except skel.Return:
                pass
            except AbortThread:
                return
            self.on_return(sk, t)
            self.returned.append(t)
        finally:
            self.stack.pop()

    def generation(self):
        self.begin()
        self.run_thread()
        if len(self.returned) != self.N and not self.inconclusive:
            raise dtable.Undecidable("%s: model of %s ended with %d of %d threads through" % (self.fn.loc, self.what, len(self.returned), self.N))


def run_barrier(ck, rule, fn, tag, variants, okmsg):
    """variants: callables that run one schedule and raise Counterexample; all findings of distinct kind are reported"""
    found = {}
    for v in variants:
        try:
            v()
        except Counterexample as c:
            found.setdefault(c.sig, (c.msg, c.loc))
        except StopRun:
            pass
    for sig, (msg, loc) in sorted(found.items()):
        ck.violation(rule, fn.qname, "%s:%s" % (fn.name, sig), msg, loc)
    if not found:
        ck.ok(rule, tag, okmsg)
    return not found


# ------------------------------------------------------------------------------------------------ ThreadBarrierSpin
class SpinWorld(BarrierWorld):
    """the two atomics are told apart by what the threads do with them: the one a thread writes first is the arrival counter
    (in the messages: waiting_), the other one the generation (step_)"""
    SPIN_LIMIT = 6

    def __init__(self, tu, fn, n, count_field, tcount, atomics, trigger, preempt_last=False):
        BarrierWorld.__init__(self, tu, fn, "ThreadBarrierSpin", n)
        self.atomics = tuple(atomics)
        self.shared[("field", count_field)] = tcount
        for a in self.atomics:
            self.shared[("field", a)] = 0
        self.names = {"thread_count_": count_field}
        self.arrive_f = self.gen_f = None
        self.trigger = trigger
        self.preempt_last = self.inconclusive = preempt_last
        # explicit fences change what the orders written at the operations mean: they are not modelled
        self.fences = [y for f in tu.find(record=BS) for y in f.nodes() if "callee" in y and y["callee"]["name"] in ("atomic_thread_fence", "atomic_signal_fence")]
        self.sched = ", others run %s" % ("right after a thread's arrival" if trigger == 0 else "at a thread's spin load no. %d" % trigger)
        if preempt_last:
            self.sched += ", the last thread is preempted right after its arrival"

    def begin(self):
        BarrierWorld.begin(self)
        self.arrived = []
        self.loads = {}
        self.idle = {}
        self.released = False
        self.acq = set()
        self.last_order = {}
        self.w0 = self.shared[("field", self.arrive_f)] if self.arrive_f else 0

    def is_last(self, t):
        return len(self.arrived) == self.N and self.arrived[-1] == t

    def memorder(self, sig, msg, sk, e):
        if self.fences:
            raise dtable.Undecidable("%s: %s - but the class uses explicit fences (line %s), whose effect is not modelled"
                                     % (sk.here(e), msg, self.fences[0].get("l")))
        self.cex(sig, msg, sk, e)

    def let_others_run(self):
        while self.started < self.N:
            self.run_thread()

    def on_atomic(self, sk, e, f, kind, order, newval, result):
        t = self.stack[-1]
        key = ("field", f)
        if self.arrive_f is None:
            if kind == "load":
                return self.shared[key]          # a sample taken before anything was written
            self.arrive_f = f
            self.gen_f = [a for a in self.atomics if a != f][0]
            self.names.update({"waiting_": self.arrive_f, "step_": self.gen_f})
            self.w0 = self.shared[key]
        if f == self.arrive_f:
            if kind == "load":
                return self.shared[key]
            if t not in self.arrived:
                if kind != "rmw":
                    raise dtable.Undecidable("%s: a thread's first write to %s is not a read-modify-write: arrival not understood" % (sk.here(e), f))
                old = self.shared[key]
                new = newval(old)
                self.shared[key] = new
                self.arrived.append(t)
                if order < 4:
                    self.memorder("arrive-memorder", "the arrival fetch_add uses memory order %s (needs acq_rel)" % ORDER[order], sk, e)
                if self.preempt_last and len(self.arrived) == self.N:
                    raise AbortThread()
                if self.trigger == 0:
                    self.let_others_run()
                return result(old, new)
            # a second write: the reset of the arrival counter
            if not self.is_last(t):
                self.cex("rmw-result", "an arriver whose fetch_add result differs from thread_count_ can reach the reset / release of the generation: "
                         "thread %d of %d arrivals so far writes waiting_" % (self.arrived.index(t) + 1, len(self.arrived)), sk, e)
            old = self.shared[key]
            new = newval(old)
            self.shared[key] = new
            return result(old, new)
        # the generation counter
        if kind == "load":
            if t in self.arrived:
                n = self.loads[t] = self.loads.get(t, 0) + 1
                if self.trigger and n == self.trigger:
                    self.let_others_run()
                self.last_order[t] = (order, sk.here(e))
                if self.released and order in (1, 2, 4, 5):
                    self.acq.add(t)          # this load observes the release and synchronises with it
                if self.preempt_last and n > self.trigger + 3:
                    raise StopRun()
                if self.started == self.N and not self.preempt_last:
                    i = self.idle[t] = self.idle.get(t, 0) + 1
                    if i > self.SPIN_LIMIT:
                        if self.released:
                            self.cex("snapshot", "the generation is sampled after the arrival was published: a late sampler spins on the next generation forever "
                                     "(thread %d keeps spinning although step_ was advanced after its arrival)" % (t + 1), sk, e)
                        self.cex("no-release", "all %d threads have arrived and thread %d spins: nobody advances step_" % (self.N, t + 1), sk, e)
            return self.shared[key]
        # a write to the generation counter: the release of the generation
        if not self.is_last(t):
            self.cex("rmw-result", "an arriver whose fetch_add result differs from thread_count_ can reach the reset / release of the generation: "
                     "step_ is advanced by arrival %s of %d so far" % (self.arrived.index(t) + 1 if t in self.arrived else "-", len(self.arrived)), sk, e)
        if self.action_runs == 0 or self.shared[("field", self.arrive_f)] != self.w0:
            self.cex("release-order", "the generation counter is advanced (releasing the spinners) before the arrival counter was reset and the action has run "
                     "(waiting_=%d, action ran %d times at that moment)" % (self.shared[("field", self.arrive_f)], self.action_runs), sk, e)
        if order not in (3, 4, 5):
            self.memorder("release-memorder", "the releasing increment of step_ uses memory order %s (needs release or stronger)" % ORDER[order], sk, e)
        old = self.shared[key]
        new = newval(old)
        self.shared[key] = new
        if new != old:
            self.released = True
            self.idle = {}
        return result(old, new)

    def on_action(self, sk, e):
        t = self.stack[-1]
        if t not in self.arrived:
            self.cex("action-early", "the action runs before the arrival was counted", sk, e)
        if not self.is_last(t):
            self.cex("action-early", "the action runs after only %d of %d threads have arrived" % (len(self.arrived), self.N), sk, e)
        self.action_runs += 1
        if self.action_runs > 1:
            self.cex("action-twice", "the action runs %d times in one generation" % self.action_runs, sk, e)

    def on_return(self, sk, t):
        if len(self.arrived) < self.N or not self.released or self.action_runs != 1:
            self.cex("spin-snapshot", "waiters do not spin on their own snapshot of the generation: thread %d leaves the barrier with %d of %d arrivals, "
                     "step_ %s, action ran %d times" % (t + 1, len(self.arrived), self.N, "advanced" if self.released else "not advanced", self.action_runs), sk)
        if not self.is_last(t) and t not in self.acq:
            o, where = self.last_order.get(t, (None, None))
            if o is None:
                self.cex("spin-snapshot", "waiters do not spin on their own snapshot of the generation: thread %d leaves without having read step_ after its arrival" % (t + 1), sk)
            if self.fences:
                raise dtable.Undecidable("%s: no acquire load sees the advanced generation, but the class uses explicit fences, whose effect is not modelled" % where)
            raise Counterexample("spin-memorder", renamed("the spinning load of step_ uses memory order %s (needs acquire or stronger): no load of thread %d that sees the "
                                 "advanced step_ is an acquire [%d threads, generation %d of the model%s]" % (ORDER[o], t + 1, self.N, self.gen + 1, self.sched), self.names), where)

    def block(self, sk, e):
        raise dtable.Undecidable("%s: condition variable in the spin barrier" % sk.here(e))


def check_spin(ck, tu):
    fns = [f for f in tu.find(record=BS) if f.name in ("wait", "wait_yield") and f.body is not None]
    for nm in ("wait", "wait_yield"):
        ck.require(any(f.name == nm for f in fns), "ThreadBarrierSpin::%s not instantiated" % nm)
    roles = field_roles(tu, BS, {"count": (_const_uint, 1), "atomics": (_atomic_uint, 2)})
    tcount = {n: ctor_field(tu, BS, roles["count"], n) for n in THREADS}
    for fn in fns:
        tag = "%s<%s>" % (fn.qname, "lambda" if "lambda" in fn.full else "default")

        def schedule(n, trigger, preempt=False, fn=fn):
            def go():
                w = SpinWorld(tu, fn, n, roles["count"], tcount[n], roles["atomics"], trigger, preempt)
                for g in range(2):
                    w.gen = g
                    w.generation()
                    if preempt:
                        break
            return go
        variants = [schedule(n, tr) for n in THREADS for tr in (0, 1, 3)] + [schedule(n, tr, True) for n in THREADS[1:] for tr in (0, 1)]
        run_barrier(ck, "SPIN-ORDER", fn, tag, variants,
                    "1-3 threads x 2 generations x 5 schedules: arrival RMW decides last -> reset + action -> release (>= release) ; spin (acquire) on a snapshot taken before arrival")


# ------------------------------------------------------------------------------------------------ ThreadBarrierMutex
COUNTS_BASE = 1000


class MutexWorld(BarrierWorld):
    def __init__(self, tu, fn, n, roles, tcount, spurious, ls=None):
        BarrierWorld.__init__(self, tu, fn, "ThreadBarrierMutex", n)
        self.ls = ls
        self.shared[("field", roles["count"])] = tcount
        self.shared[("field", roles["counts"])] = COUNTS_BASE
        self.shared[("mem", COUNTS_BASE)] = 0
        self.shared[("mem", COUNTS_BASE + 1)] = 0
        self.step_key = ("field", roles["step"])
        self.shared[self.step_key] = 0
        self.names = {"thread_count_": roles["count"], "counts_": roles["counts"], "step_": roles["step"], "mutex_": roles["mutex"]}
        self.spurious = spurious
        self.sched = ", one wake-up without notify per waiter" if spurious else ""

    def begin(self):
        BarrierWorld.begin(self)
        self.waiting = set()
        self.woken = set()
        self.was_woken = set()
        self.spur_done = set()

    def state(self):
        return "counts_=[%s, %s], step_=%s" % (self.shared[("mem", COUNTS_BASE)], self.shared[("mem", COUNTS_BASE + 1)], self.shared[self.step_key])

    def block(self, sk, e):
        t = self.stack[-1]
        if self.spurious and t not in self.spur_done:
            self.spur_done.add(t)
            return                     # woken without notify, nothing changed
        self.waiting.add(t)
        while t not in self.woken and self.started < self.N:
            self.run_thread()          # the mutex is free while t sleeps: the next thread enters
        if t not in self.woken:
            if t in self.was_woken:
                self.cex("wait-pred", "waiters do not wait for counts_[their generation] to reach thread_count_: thread %d was notified after the last arrival, "
                         "re-tests its condition and blocks again with nobody left to wake it (%s) - it tests a counter that was reset or that of the "
                         "other generation" % (t + 1, self.state()), sk, e)
            if any(k == "notify_one" for k in self.notified):
                self.cex("notify-kind", "waiters are released with notify_one: all but one stay blocked (thread %d is never woken)" % (t + 1), sk, e)
            if not self.notified:
                self.cex("no-notify", "all %d threads have entered, thread %d sleeps on the condition variable and nobody notifies (%s)" % (self.N, t + 1, self.state()), sk, e)
            self.cex("lost-wakeup", "thread %d goes to sleep after the notify of its generation was sent (%s)" % (t + 1, self.state()), sk, e)
        self.woken.discard(t)
        self.waiting.discard(t)
        self.was_woken.add(t)

    def held(self, sk, e, what):
        if self.ls is not None and sk.fn.did in self.ls.flows and self.ls.status(sk.fn, e) is not True:
            self.cex("unlocked:" + what, "mutex_ is released before the action has run: released threads can overtake it" if what == "action" else
                     "the %s happens without mutex_ held" % what, sk, e)

    def on_access(self, sk, key, node):
        if self.ls is None or sk.fn.did not in self.ls.flows:
            return                       # a lambda (predicate of a cv wait: runs under the lock of the wait)
        if node is None:
            raise dtable.Undecidable("%s: place of an access to the barrier's state through a pointer / reference is not known" % sk.here())
        self.held(sk, node, "access of %s" % (self.names["counts_"] if key[0] in ("mem", "elem") else key[1] if key[0] == "field" else "the counters"))

    def on_notify(self, sk, e, kind):
        self.held(sk, e, "notify")
        self.notified.append(kind)
        if kind == "notify_all":
            self.woken |= self.waiting
        elif self.waiting - self.woken:
            self.woken.add(max(self.waiting - self.woken))

    def on_action(self, sk, e):
        self.held(sk, e, "action")
        if self.started < self.N:
            self.cex("action-early", "the action can run before the last participant has arrived: it runs with %d of %d threads inside (%s)"
                     % (self.started, self.N, self.state()), sk, e)
        self.action_runs += 1
        if self.action_runs > 1:
            self.cex("action-twice", "the action runs %d times in one generation (%s)" % (self.action_runs, self.state()), sk, e)

    def on_return(self, sk, t):
        if self.started < self.N or self.action_runs != 1:
            self.cex("bare-wait", "waiters do not re-check in a loop: thread %d leaves the barrier with %d of %d threads inside and the action run %d times (%s)"
                     % (t + 1, self.started, self.N, self.action_runs, self.state()), sk)

    def on_atomic(self, sk, e, f, kind, order, newval, result):
        raise dtable.Undecidable("%s: atomic in the mutex barrier" % sk.here(e))


def check_mutex_barrier(ck, tu):
    fns = [f for f in tu.find(record=BM) if f.name in ("wait", "wait_yield") and f.body is not None]
    ck.require(any(f.name == "wait" for f in fns), "ThreadBarrierMutex::wait not instantiated")
    roles = field_roles(tu, BM, {"count": (_const_uint, 1), "counts": (_uint_pair, 1), "step": (_uint, 1), "mutex": (_mutex, 1)})
    tcount = {n: ctor_field(tu, BM, roles["count"], n) for n in THREADS}
    names = {"mutex_": roles["mutex"]}
    ls = LockSet(tu, BM, fns, roles["mutex"])
    # everything the barrier does to its state happens in one hold of mutex_: that is what lets the model run a thread
    # from one cv wait to the next without interleaving
    unlocked = {}
    for fn in ls.fns:
        for x in fn.nodes():
            what = None
            if x["k"] == "MemberExpr" and match.this_field(x) in (roles["step"], roles["counts"]):
                what = "access of %s" % x["member"]
            elif "callee" in x and x.get("op") == "()" and kids(x) and ref_of(kids(x)[0]) is not None and fn.param_index(ref_of(kids(x)[0])) is not None:
                what = "action"
            elif "callee" in x and x["callee"]["name"] in ("notify_one", "notify_all") and "condition_variable" in (x["callee"].get("record") or ""):
                what = "notify"
            if what and ls.status(fn, x) is not True:
                unlocked.setdefault(fn.did, []).append((what, x, fn))
    for fn in fns:
        tag = "%s<%s>" % (fn.qname, "lambda" if "lambda" in fn.full else "default")
        if fn.name == "wait_yield":
            tag = fn.qname + " (forward)"
        bad = False
        reach = {fn.did}
        work = [fn]
        while work:
            f = work.pop()
            for x in f.nodes():
                if "callee" in x and x.get("member_call") and x["callee"].get("did") in ls.flows and x["callee"]["did"] not in reach:
                    reach.add(x["callee"]["did"])
                    work.append(tu.by_did[x["callee"]["did"]])
        seen = set()
        for did in sorted(reach):
            for what, x, f in unlocked.get(did, []):
                sig = "unlocked:" + what.replace(" ", "-")
                if (sig, x["id"]) in seen:
                    continue
                seen.add((sig, x["id"]))
                bad = True
                msg = "mutex_ is released before the action has run: released threads can overtake it" if what == "action" else \
                    "the %s happens without mutex_ held" % what
                ck.violation("BARRIER-ORDER", fn.qname, "%s:%s" % (fn.name, sig), renamed(msg, names), f.nloc(x))
        if bad:
            continue

        def schedule(n, spurious, fn=fn):
            def go():
                w = MutexWorld(tu, fn, n, roles, tcount[n], spurious, ls)
                for g in range(3):
                    w.gen = g
                    w.generation()
            return go
        run_barrier(ck, "BARRIER-ORDER", fn, tag, [schedule(n, sp) for n in THREADS for sp in (False, True)],
                    "1-3 threads x 3 generations, with and without spurious wake-ups: nobody leaves before all entered, action once by the last, "
                    "all woken, counters reusable; all in one hold of mutex_")


def extract_as_written(src):
    """the evaluation follows new helpers, const locals and reference aliases itself, so the tree is taken as written; the
    rewriting of engine/normalize.py is not needed and one of its rewrites is wrong for this code: a reference alias
    `size_t& arrived = counts_[generation]` with `generation = step_` is replaced by counts_[step_] also after cv_.wait(),
    where other threads have changed step_"""
    old = os.environ.get("VERIF_NO_NORMALIZE")
    os.environ["VERIF_NO_NORMALIZE"] = "1"
    try:
        return ir.extract(src)
    finally:
        if old is None:
            del os.environ["VERIF_NO_NORMALIZE"]
        else:
            os.environ["VERIF_NO_NORMALIZE"] = old


def run(ck):
    ck.explanation = (
        "Semaphore: lock-state dataflow shows value_ is only touched under mutex_ (private helpers inherit the state of their call sites). The member "
        "functions are then evaluated on a grid of (value_, delta, slack) with an environment that changes value_ whenever mutex_ is given up: every "
        "decrement by delta happens at value_ >= delta + slack, a wake-up that changed nothing leads to another wait, token-adding writes are followed "
        "by a notify, and - because the evaluated decisions to block depend on per-call (delta, slack) - that notify must be notify_all. Barriers: one to three "
        "model threads run the member function itself one after the other, handing over where a thread blocks (cv wait / spin load); observed per "
        "generation: nobody leaves before all arrived, the action runs once, by the last arriver, before the release; the arrival counter is reset before "
        "the release; arrivals/releases/spins use at least acq_rel/release/acquire; a late sampler or a stale counter shows as a thread that never "
        "leaves. Schedules other than the evaluated ones and more than 3 threads are not decided.")
    ck.assumptions.append("barrier models start from zero-initialised counters (the default member initialisers of the tlx headers)")
    tu = extract_as_written("witness/C11_sync.cpp")
    ck.guarded(lambda: check_semaphore(ck, tu))
    ck.guarded(lambda: check_mutex_barrier(ck, tu))
    ck.guarded(lambda: check_spin(ck, tu))
    ck.floor("SEM-LOCKSET", 2)        # per access of the value field; how many there are is up to the code (helpers, cached reads)
    ck.floor("SEM-GUARDED-TAKE", 2)
    ck.floor("NO-BARE-WAIT", 1)
    ck.floor("WRITE-NOTIFY", 1)
    ck.floor("NOTIFY-KIND", 1)
    ck.floor("BARRIER-ORDER", 2)
    ck.floor("SPIN-ORDER", 4)
