"""C13 — heaps: comparison-site decisions (sift/heapify), index arithmetic,
handle table coupling / reset / growth, radix-heap bucket coupling, clear completeness.

Reporting policy: a violation needs positive evidence (a valuation of a decision table, a CFG path, an evaluated index, a
scenario) over constructs the rule understands completely.  Where a rule merely fails to find the shape it expects, it
raises dtable.Undecidable unless the absence holds in a closed world (every operation on the state in question is classified)."""
from engine import ir, dtable, match, cfg as cfgm
from engine.ir import kids, strip_casts, const_int, ref_of

DH = "tlx::DAryHeap"
AH = "tlx::DAryAddressableIntHeap"
RH = "tlx::RadixHeap"

LOOPS = ("WhileStmt", "ForStmt", "DoStmt", "CXXForRangeStmt")
CASTS = ("ImplicitCastExpr", "CStyleCastExpr", "CXXStaticCastExpr", "CXXFunctionalCastExpr")
RVALUE_CASTS = ("IntegralCast", "IntegralToBoolean", "IntegralToFloating", "FloatingCast", "FloatingToIntegral", "LValueToRValue")
_NEG = {"<": ">=", ">": "<=", "<=": ">", ">=": "<", "==": "!=", "!=": "=="}


def inst_tag(fn):
    return "%s<%s>" % (fn.record.split("::")[-1], ",".join(a.split("::")[-1][:24] for a in fn.rtargs))


def same_node(a, b):
    return a is not None and b is not None and a.get("id") == b.get("id") and a["k"] == b["k"]


def inside(fn, x, root):
    """x is a node of the subtree root (by identity of the original nodes)"""
    return root is not None and any(y is x or same_node(y, x) for y in ir.walk(root))


def enclosing(fn, x, kinds):
    """(ancestor of one of the kinds, the child of it through which x is reached)"""
    node, par = x, fn.parent(x)
    while par is not None and par["k"] not in kinds:
        node, par = par, fn.parent(par)
    return par, node


# ---------------------------------------------------------------- tree normal form for the decision tables
def _is_empty_stmt(s):
    return s is None or s["k"] == "NullStmt" or (s["k"] == "CompoundStmt" and all(_is_empty_stmt(c) for c in kids(s)))


def _negate(c):
    """!c, folded into the relational operator where there is one"""
    s = strip_casts(c)
    if s is not None and s["k"] == "BinaryOperator" and s.get("op") in _NEG:
        out = dict(s)
        out["op"] = _NEG[s["op"]]
        return out
    if s is not None and s["k"] == "UnaryOperator" and s.get("op") == "!" and kids(s):
        return kids(s)[0]
    return {"k": "UnaryOperator", "op": "!", "id": -21, "ty": "bool", "l": (c or {}).get("l"), "ch": [c]}


def _assign_stmt(s):
    """statement position: `t = c ? a : b` becomes if (c) t = a; else t = b;  and `t = t` disappears"""
    if s is None:
        return None
    if s["k"] in ("BinaryOperator", "CXXOperatorCallExpr"):
        b = match.binop(s, ("=",))
        if b:
            r = strip_casts(b[2])
            if r is not None and r["k"] == "ConditionalOperator":
                c, x, y = kids(r)
                mk = lambda v: _assign_stmt(dict(s, ch=[b[1], v]))
                return _simplify_node({"k": "IfStmt", "id": s.get("id"), "l": s.get("l"), "f": s.get("f"), "ch": [c, mk(x), mk(y)]})
            if match.same_expr(b[1], b[2]):
                return {"k": "NullStmt", "id": s.get("id"), "l": s.get("l")}
    return s


def xu_of(n):
    """(which, target, other) if n raises/lowers target to other: t = std::max(t, o), or the node an if-form was folded into"""
    if n is None:
        return None
    if n.get("xu"):
        return n["xu"], kids(n)[0], kids(n)[1]
    for which in ("min", "max"):
        eu = match.extreme_update(n, which) if n["k"] in ("BinaryOperator", "CXXOperatorCallExpr", "IfStmt") else None
        if eu:
            return which, eu[0], eu[1]
    return None


def _simplify_node(n):
    k = n["k"]
    if k == "UnaryOperator" and n.get("op") == "!" and kids(n):
        s = strip_casts(kids(n)[0])
        if s is not None and s["k"] == "BinaryOperator" and s.get("op") in _NEG:
            return _negate(s)
    if k == "CompoundStmt":
        n["ch"] = [_assign_stmt(c) for c in kids(n)]
    if k in ("WhileStmt", "ForStmt", "DoStmt", "CXXForRangeStmt") and kids(n):
        parts = list(kids(n))
        bi = {"WhileStmt": 1, "ForStmt": 3, "DoStmt": 0, "CXXForRangeStmt": 2}[k]
        if bi < len(parts):
            parts[bi] = _assign_stmt(parts[bi])
            n["ch"] = parts
    if k == "IfStmt" and len(kids(n)) >= 3:
        c, t, e = kids(n)[:3]
        t, e = _assign_stmt(t), _assign_stmt(e)
        if _is_empty_stmt(t) and not _is_empty_stmt(e):
            c, t, e = _negate(c), e, None
        if _is_empty_stmt(e):
            e = None
        n["ch"] = [c, t, e]
        if e is None:
            for which in ("min", "max"):
                eu = match.extreme_update(n, which)
                if eu:
                    return {"k": "BinaryOperator", "op": "=", "id": n.get("id"), "l": n.get("l"), "f": n.get("f"), "ty": eu[0].get("ty"),
                            "xu": which, "ch": [eu[0], eu[1]]}
    return n


def simplify(n):
    """copy of a statement tree in a normal form for the decision tables: negations folded into relational operators, an
    empty then-branch swapped with its else-branch, conditional assignments turned into if/else, if-forms of min/max updates
    folded into one update node (see xu_of).  Node ids are kept, so positions and parents of the original still apply."""
    if n is None:
        return None
    out = dict(n)
    if "ch" in n:
        out["ch"] = [simplify(c) for c in n["ch"]]
    for key in ("init", "condvar"):
        if isinstance(n.get(key), dict):
            out[key] = simplify(n[key])
    return _simplify_node(out)


def base_atom(n):
    """atomize fallback: None for what the interpreter decomposes itself, an auxiliary (free) atom for everything else"""
    k = n["k"]
    if const_int(n) is not None or k in ("CXXBoolLiteralExpr", "IntegerLiteral", "ConditionalOperator"):
        return None
    if k == "UnaryOperator" and n.get("op") == "!":
        return None
    if k == "BinaryOperator" and n.get("op") in ("&&", "||", ","):
        return None
    if k in CASTS and kids(n) and n.get("cast") in ("IntegralToBoolean", "PointerToBoolean", "NoOp", "IntegralCast", "LValueToRValue"):
        return None
    if k == "DeclRefExpr" and (n.get("ty") or "").replace("const ", "") == "bool":
        return None
    return ("aux:" + dtable.describe(n), False)


def has_aux(val):
    return any(k.startswith("aux:") or k.startswith("flag:") for k in val)


def leaf_items(lf):
    """(kind, node) of a leaf's events in execution order: 'expr' | 'decl' | 'loop'"""
    return [(e[0], e[1]) for e in lf["events"] if e[0] in ("expr", "decl", "loop")]


def leaf_nodes(lf, loops=True):
    for kind, n in leaf_items(lf):
        if kind == "loop" and not loops:
            continue
        yield from ir.walk(n)


# ---------------------------------------------------------------- index roles
def heap_index(e):
    """index expression if e is this->heap_[i] (through std::move)"""
    e = strip_casts(e)
    c = match.call_named(e, ("move",))
    if c:
        e = strip_casts(kids(c)[-1])
    p = match.index_parts(e)
    if p and match.this_field(p[0]) == "heap_":
        return p[1]
    return None


def this_call(e, names):
    c = match.call_named(e, names)
    if c and c.get("member_call") and strip_casts(kids(c)[0])["k"] == "This":
        return c
    return None


def fn_arity(fn):
    try:
        return int(fn.rtargs[1].rstrip("UuLl"))
    except (IndexError, ValueError):
        return None


def expr_role(e, roles, fn=None):
    """'hole' | 'parent' | 'child' | None for an index expression, from the roles of the variables it is built from"""
    s = strip_casts(e)
    if s is None:
        return None
    if s["k"] == "DeclRefExpr":
        return roles.get(s["ref"]["id"])
    c = this_call(s, ("parent",))
    if c and len(kids(c)) > 1 and expr_role(kids(c)[1], roles, fn) == "hole":
        return "parent"
    c = this_call(s, ("left",))
    if c and len(kids(c)) > 1 and expr_role(kids(c)[1], roles, fn) == "hole":
        return "child"
    bb = match.binop(s, ("+",))
    if bb:
        for x, y in ((bb[1], bb[2]), (bb[2], bb[1])):
            if expr_role(x, roles, fn) == "child" and const_int(y) is not None:
                return "child"
    # written-out index arithmetic over the hole: (k - 1) / arity, arity * k + 1 + j
    ar = fn_arity(fn) if fn is not None else None
    loc = {y["ref"]["id"] for y in ir.walk(s) if y["k"] == "DeclRefExpr" and y["ref"].get("kind") in ("local", "param")}
    if ar and len(loc) == 1 and roles.get(next(iter(loc))) == "hole" and not any("callee" in y and not y.get("op") for y in ir.walk(s)):
        d = next(iter(loc))
        vals = [eval_arith(s, {d: k}) for k in range(1, 8)]
        if all(v is not None for v in vals):
            if all(v == (k - 1) // ar for v, k in zip(vals, range(1, 8))):
                return "parent"
            # exactly the first child: that is what left() yields and what the scan of the children starts from (the
            # further children are reached as child + constant, see above)
            if all(v == ar * k + 1 for v, k in zip(vals, range(1, 8))):
                return "child"
    return None


def index_roles(fn):
    """decl id -> 'hole' | 'parent' | 'child' for the index variables of a sift/heapify function"""
    roles = {}
    value_var = None
    # the hole: value = move(heap_[H])
    for x in ir.walk(fn.body):
        if x["k"] == "VarDecl" and kids(x):
            hi = heap_index(kids(x)[0])
            if hi is not None and ref_of(hi) is not None and value_var is None:
                value_var = x["did"]
                roles[ref_of(hi)] = "hole"
    changed = True
    guard = 0
    while changed and guard < 10:
        changed = False
        guard += 1
        for x in ir.walk(fn.body):
            tgt, src = None, None
            if x["k"] == "VarDecl" and kids(x):
                tgt, src = x["did"], kids(x)[0]
            else:
                b = match.binop(x, ("=",))
                if b and ref_of(b[1]) is not None and strip_casts(b[1])["k"] == "DeclRefExpr":
                    tgt, src = ref_of(b[1]), b[2]
            if tgt is None or tgt in roles:
                continue
            r = expr_role(src, roles, fn)
            if r in ("parent", "child"):
                roles[tgt] = r
                changed = True
    return roles, value_var


def operand_role(e, roles, value_var, fn=None):
    if ref_of(e) == value_var and strip_casts(e)["k"] == "DeclRefExpr":
        return "value", None
    hi = heap_index(e)
    if hi is not None and ref_of(hi) in roles:
        return roles[ref_of(hi)], ref_of(hi)
    if hi is not None and ref_of(hi) is None:
        r = expr_role(hi, roles, fn)
        if r:
            return r, None
    return None, None


def is_cmp(n):
    fc = match.functor_call(n) if n is not None and "callee" in n else None
    if fc and match.this_field(fc[0]) == "cmp_" and len(fc[1]) == 2:
        return fc[1]
    return None


def select_decision(ck, fn, x, v1, v2, roles, value_var):
    """the comparison x = cmp(heap_[v1], heap_[v2]) of two children: tabulates the body of the enclosing scan loop.
    True if a violation was reported"""
    if v1 is None or v2 is None or v1 == v2:
        raise dtable.Undecidable("%s: comparison of two children that are not held in two index variables: %s" % (fn.nloc(x), dtable.describe(x)))
    loop, via = enclosing(fn, x, LOOPS)
    if loop is None:
        raise dtable.Undecidable("%s: comparison of two children outside a scan loop" % fn.nloc(x))
    body = match.loop_parts(loop)[3] if loop["k"] != "CXXForRangeStmt" else kids(loop)[2]
    if not same_node(via, body):
        raise dtable.Undecidable("%s: comparison of two children in the control part of a loop" % fn.nloc(x))
    name = {v1: "a", v2: "b"}

    def atomize(n, run):
        ops = is_cmp(n)
        if ops:
            ids = [ref_of(heap_index(o)) if heap_index(o) is not None else None for o in ops]
            if all(i in name for i in ids) and ids[0] != ids[1]:
                return ("lt(%s,%s)" % (name[ids[0]], name[ids[1]]), False)
        return base_atom(n)

    leaves = dtable.explore(simplify(body), atomize, fn)

    def moves(lf):
        """assignments between the two index variables on this leaf; None in the list = an assignment of another form"""
        out = []
        for n in leaf_nodes(lf):
            b = match.binop(n, ("=",)) if n["k"] in ("BinaryOperator", "CXXOperatorCallExpr") else None
            if b and strip_casts(b[1])["k"] == "DeclRefExpr" and ref_of(b[1]) in name:
                out.append((ref_of(b[1]), ref_of(b[2])) if ref_of(b[2]) in name and ref_of(b[2]) != ref_of(b[1]) else None)
        return out
    targets = {m[0] for lf in leaves for m in moves(lf) if m}
    if len(targets) != 1:
        raise dtable.Undecidable("%s: cannot tell which index holds the selected child after %s" % (fn.nloc(x), dtable.describe(x)))
    run_v = next(iter(targets))                 # the running minimum; the other one scans
    oth_v = v1 if run_v == v2 else v2
    a_or, a_ro = "lt(%s,%s)" % (name[oth_v], name[run_v]), "lt(%s,%s)" % (name[run_v], name[oth_v])
    atoms = list(dtable.atoms_of(leaves))
    for a in (a_or, a_ro):
        if a not in atoms:
            atoms.append(a)
    rows = [(v, lf) for v, lf in dtable.table(leaves, lambda v: not (v.get(a_or) and v.get(a_ro)), atoms)
            if a_or in lf["val"] or a_ro in lf["val"]]          # elsewhere the comparator was not consulted: no decision taken
    groups = {}
    for v, lf in rows:
        groups.setdefault(tuple(sorted((k, b_) for k, b_ in v.items() if k not in (a_or, a_ro))), []).append((v, lf))
    if all(len({(run_v, oth_v) in moves(lf) for v, lf in grp}) == 1 for grp in groups.values()):
        raise dtable.Undecidable("%s: the selection does not depend on the comparison %s" % (fn.nloc(x), dtable.describe(x)))
    for grp in groups.values():
        if len({(run_v, oth_v) in moves(lf) for v, lf in grp}) == 1:
            continue                             # under these side conditions no selection is made either way
        for v, lf in grp:
            mv = moves(lf)
            sel = (run_v, oth_v) in mv
            wrong = None
            if v[a_or] and not sel:
                wrong = "a strictly smaller child is passed over"
            elif v[a_ro] and sel:
                wrong = "the selection moves to a strictly larger child"
            if wrong is None:
                continue
            if None in mv or (oth_v, run_v) in mv:
                raise dtable.Undecidable("%s: selection of the smaller child not understood (other assignments to the index variables)" % fn.nloc(x))
            ck.violation("HEAP-DECISION", fn.qname, "%s:select" % fn.name,
                         "child selection does not keep the smaller child: %s in row %s of %s (a, b = its operands)" % (
                             wrong, dtable.fmt_val({k: b_ for k, b_ in v.items() if k in (a_or, a_ro)}), dtable.describe(x)), fn.nloc(x))
            return True
    return False


def branch_effect(st):
    """(stops, moves) of a branch"""
    if st is None:
        return False, False
    stops = any(y["k"] in ("BreakStmt", "ReturnStmt") for y in ir.walk(st))
    mvs = any(heap_index(match.binop(y, ("=",))[1]) is not None for y in ir.walk(st) if match.binop(y, ("=",)))
    return stops, mvs


def controlling(fn, x):
    """(statement, condition expression, pre) that decides on the comparison x; a never-reassigned bool local that holds
    the result and is tested by the very next statement counts as that statement's condition"""
    par, via = enclosing(fn, x, ("IfStmt", "WhileStmt", "ForStmt", "DoStmt", "CXXForRangeStmt", "VarDecl"))
    pre = None
    if par is not None and par["k"] == "VarDecl":
        did = par["did"]
        ds = fn.parent(par)
        comp = fn.parent(ds) if ds is not None else None
        writes = [y for y in ir.walk(fn.body) if (match.binop(y) and match.binop(y)[0].endswith("=") and match.binop(y)[0] not in ("==", "!=", "<=", ">=")
                                                  and ref_of(match.binop(y)[1]) == did) or (match.unop(y, ("++", "--")) and ref_of(match.unop(y, ("++", "--"))[1]) == did)]
        uses = [y for y in ir.walk(fn.body) if y["k"] == "DeclRefExpr" and y["ref"]["id"] == did]
        if (par.get("ty") or "").replace("const ", "") != "bool" or writes or len(uses) != 1 or comp is None or comp["k"] != "CompoundStmt":
            raise dtable.Undecidable("%s: result of the comparison is stored and used in a way that is not understood" % fn.nloc(x))
        sibs = [c for c in kids(comp) if c is not None]
        i = [j for j, c in enumerate(sibs) if same_node(c, ds)]
        nxt = sibs[i[0] + 1] if i and i[0] + 1 < len(sibs) else None
        if nxt is None or nxt["k"] not in ("IfStmt", "WhileStmt") or not inside(fn, uses[0], kids(nxt)[0]):
            raise dtable.Undecidable("%s: result of the comparison is not tested by the next statement" % fn.nloc(x))
        init = kids(par)[0]
        pre = lambda r, did=did, init=init: r.env.__setitem__(did, init)
        par, x = nxt, uses[0]
    if par is None:
        raise dtable.Undecidable("%s: comparison without controlling statement" % fn.nloc(x))
    cond = kids(par)[0] if par["k"] in ("IfStmt", "WhileStmt") else (kids(par)[1] if par["k"] in ("ForStmt", "DoStmt") else None)
    if cond is None or not inside(fn, x, cond):
        raise dtable.Undecidable("%s: the comparison is not part of the condition of the statement that encloses it" % fn.nloc(x))
    return par, cond, pre


def check_decisions(ck, fn):
    roles, value_var = index_roles(fn)
    ck.require(value_var is not None, "%s: hole element not found" % fn.loc)
    tag = "%s::%s" % (inst_tag(fn), fn.name)
    sites = 0
    bad = False
    for x in ir.walk(fn.body):
        ops = is_cmp(x)
        if not ops:
            continue
        (r1, v1), (r2, v2) = operand_role(ops[0], roles, value_var, fn), operand_role(ops[1], roles, value_var, fn)
        if r1 is None or r2 is None:
            raise dtable.Undecidable("%s: comparator operands not understood: %s" % (fn.nloc(x), dtable.describe(x)))
        sites += 1
        if (r1, r2) == ("child", "child"):
            # select the smaller child: cmp(heap_[a], heap_[b]) must lead to b = a, cmp(heap_[b], heap_[a]) must not
            bad = select_decision(ck, fn, x, v1, v2, roles, value_var) or bad
            continue
        pair = {("child", "value"): ("sink", False), ("value", "child"): ("sink", True),
                ("parent", "value"): ("rise", True), ("value", "parent"): ("rise", False)}.get((r1, r2))
        if pair is None:
            raise dtable.Undecidable("%s: unexpected comparison roles %s/%s" % (fn.nloc(x), r1, r2))
        kind, swapped = pair
        par, cond, pre = controlling(fn, x)

        def atomize(n, run, fn=fn):
            o2 = is_cmp(n)
            if o2:
                a, _ = operand_role(o2[0], roles, value_var, fn)
                b, _ = operand_role(o2[1], roles, value_var, fn)
                return ("cmp(%s,%s)" % (a, b), False)
            b = match.binop(n, (">", "<", "<=", ">=", "!=", "=="))
            if b and strip_casts(n)["k"] == "BinaryOperator":
                return ("aux:" + dtable.describe(n), False)
            return None
        leaves = dtable.explore(cond, atomize, fn, as_expr=True, pre=pre)
        other, val = ("child" if kind == "sink" else "parent"), "value"
        a_small = "cmp(%s,%s)" % (other, val)       # the other element is strictly smaller than value
        a_large = "cmp(%s,%s)" % (val, other)
        atoms = [a for a in dtable.atoms_of(leaves)]
        for a in (a_small, a_large):
            if a not in atoms:
                atoms.append(a)
        # what does a true condition mean: move or stop?
        if par["k"] == "IfStmt":
            sp = simplify(par)
            if sp["k"] != "IfStmt":
                raise dtable.Undecidable("%s: cannot tell whether the branch moves or stops" % fn.nloc(par))
            flipped = _is_empty_stmt(kids(par)[1]) and not _is_empty_stmt(kids(par)[2])
            (t_stop, t_move), (e_stop, e_move) = branch_effect(kids(sp)[1]), branch_effect(kids(sp)[2])
            if t_move and not t_stop and not e_move:
                true_moves = True
            elif t_stop and not t_move:
                true_moves = False
            else:
                raise dtable.Undecidable("%s: cannot tell whether the branch moves or stops" % fn.nloc(par))
            if flipped:
                true_moves = not true_moves     # simplify() negated the condition; the table below uses the original one
        else:
            true_moves = True
        rows = list(dtable.table(leaves, lambda v: not (v.get(a_small) and v.get(a_large)), atoms))
        if any(k.startswith("flag:") for v, lf in rows for k in v):
            raise dtable.Undecidable("%s: the condition depends on a flag that is not understood" % fn.nloc(x))
        # rows are judged per valuation of the auxiliary (range) conditions: where the outcome does not depend on the comparator
        # no decision is taken (index out of range ...)
        groups = {}
        for v, lf in rows:
            groups.setdefault(tuple(sorted((k, b_) for k, b_ in v.items() if k.startswith("aux:"))), []).append((v, lf))
        if all(len({lf["result"] for v, lf in grp}) == 1 for grp in groups.values()):
            raise dtable.Undecidable("%s: the outcome of the condition does not depend on the comparison %s" % (fn.nloc(x), dtable.describe(x)))
        for aux_key, grp in groups.items():
            if len({lf["result"] for v, lf in grp}) == 1:
                continue
            for v, lf in grp:
                moves = lf["result"] == true_moves
                if kind == "sink":
                    req, forb = v[a_small], v[a_large]     # child < value: must sink; value < child: must not
                else:
                    req, forb = v[a_large], v[a_small]     # value < parent: must rise; parent < value: must not
                if (req and not moves) or (forb and moves):
                    ck.violation("HEAP-DECISION", fn.qname, "%s:%s:%s" % (fn.name, kind, dtable.fmt_val({k: x_ for k, x_ in v.items() if not k.startswith("aux:")})),
                                 "%s decision wrong: hole %s although %s" % (kind, "moves" if moves else "stays",
                                 ("the value is strictly smaller than the %s" % other) if (kind == "rise") == req else
                                 ("the %s is strictly smaller than the value" % other) if kind == "sink" and req else "the order forbids it"), fn.nloc(x))
                    bad = True
                    break
            if bad:
                break
    ck.require(sites >= 2 or fn.name == "sift_up", "%s: too few comparison sites (%d)" % (fn.loc, sites))
    if not bad:
        ck.ok("HEAP-DECISION", tag, "%d comparison sites: smaller child selected, hole sinks iff child<value / rises iff value<parent (ties free)" % sites)


# ---------------------------------------------------------------- index arithmetic
def eval_arith(e, env, hook=None):
    """integer value of an index expression under env (decl id -> value); hook(e) may supply values of calls"""
    e = strip_casts(e)
    if e is None:
        return None
    if hook is not None and hook(e) is not None:
        return hook(e)
    c = const_int(e)
    if c is not None and e["k"] != "DeclRefExpr":
        return c
    if e["k"] == "DeclRefExpr":
        if e["ref"]["id"] in env:
            return env[e["ref"]["id"]]
        if c is not None:
            return c
    if e["k"] == "MemberExpr" and c is not None:
        return c
    if e["k"] == "ConditionalOperator":
        t = eval_arith(kids(e)[0], env, hook)
        return None if t is None else eval_arith(kids(e)[1] if t else kids(e)[2], env, hook)
    if e["k"] == "UnaryOperator" and e.get("op") in ("-", "!", "+") and kids(e):
        v = eval_arith(kids(e)[0], env, hook)
        return None if v is None else {"-": -v, "!": int(not v), "+": v}[e["op"]]
    b = match.binop(e, ("+", "-", "*", "/", "%", ">>", "<<", "<", ">", "<=", ">=", "==", "!=", "&&", "||")) if e["k"] == "BinaryOperator" else None
    if b:
        l, r = eval_arith(b[1], env, hook), eval_arith(b[2], env, hook)
        if l is None or r is None:
            return None
        if b[0] in ("/", "%") and (r == 0 or l < 0 or r < 0):
            return None
        if b[0] in (">>", "<<") and (r < 0 or l < 0):
            return None
        return {"+": lambda: l + r, "-": lambda: l - r, "*": lambda: l * r, "/": lambda: l // r, "%": lambda: l % r, ">>": lambda: l >> r,
                "<<": lambda: l << r, "<": lambda: int(l < r), ">": lambda: int(l > r), "<=": lambda: int(l <= r), ">=": lambda: int(l >= r),
                "==": lambda: int(l == r), "!=": lambda: int(l != r), "&&": lambda: int(bool(l) and bool(r)), "||": lambda: int(bool(l) or bool(r))}[b[0]]()
    return None


def returned_expr(f):
    """the value a small function returns, as one expression over its parameters"""
    e = dtable.stmts_as_expr([x for x in kids(f.body) if x is not None]) if f.body is not None else None
    if e is None:
        raise dtable.Undecidable("%s: %s() is not a plain index computation (declarations, then returns)" % (f.loc, f.name))
    return e


def arith_leaves(e, out):
    """the maximal sub-expressions of e that are not integer arithmetic (variables, calls, element reads)"""
    e = strip_casts(e)
    if e is None or (const_int(e) is not None and e["k"] != "DeclRefExpr") or (e["k"] == "DeclRefExpr" and e["ref"].get("kind") not in ("local", "param") and const_int(e) is not None):
        return out
    if e["k"] == "BinaryOperator" and e.get("op") in ("+", "-", "*", "/", "%", ">>", "<<"):
        arith_leaves(kids(e)[0], out)
        arith_leaves(kids(e)[1], out)
    elif e["k"] == "UnaryOperator" and e.get("op") in ("-", "+") and kids(e):
        arith_leaves(kids(e)[0], out)
    elif e["k"] == "ParenExpr" and kids(e):
        arith_leaves(kids(e)[0], out)
    elif not any(match.same_expr(e, o) for o in out):
        out.append(e)
    return out


def written_out_parents(tu, rec, rt, arity):
    """closed world for parent indices that are not computed by parent(): every division in the other member functions of
    the heap type is the parent of its one operand, (x - 1) / arity, or the parent of the last element, (size - 2) / arity;
    returns how many there are"""
    n = 0
    for f in tu.find(record=rec):
        if f.rtargs != rt or f.body is None or f.name == "parent":
            continue
        judged = set()
        for y in ir.walk(f.body):
            if y["k"] == "CompoundAssignOperator" and y.get("op") in ("/=", ">>="):
                raise dtable.Undecidable("%s: %s() divides in place: index arithmetic not verified" % (f.nloc(y), f.name))
            if not (y["k"] == "BinaryOperator" and y.get("op") in ("/", ">>")):
                continue
            top, par = y, f.parent(y)           # the whole computation the division is part of
            while par is not None and (par["k"] in CASTS + ("ParenExpr",) or (par["k"] == "BinaryOperator" and par.get("op") in ("+", "-", "*", "/", "%", ">>", "<<"))):
                top, par = par, f.parent(par)
            if top.get("id") in judged:
                continue
            judged.add(top.get("id"))
            leaves = arith_leaves(top, [])
            good = False
            if len(leaves) == 1:
                lf0 = leaves[0]
                hook = lambda e, k: k if match.same_expr(e, lf0) else None
                first = 2 if heap_size(lf0) else 1
                vals = [eval_arith(top, {}, lambda e, k=k: hook(e, k)) for k in range(first, first + 8)]
                want = [((k - 1) - 1) // arity if heap_size(lf0) else (k - 1) // arity for k in range(first, first + 8)]
                good = vals == want
            if not good:
                raise dtable.Undecidable("%s: the division %s in %s() is not understood: not the parent index (x - 1) / %d of its operand"
                                         % (f.nloc(y), dtable.describe(top)[:60], f.name, arity))
            n += 1
    return n


def check_index_inverse(ck, tu, rec):
    """left() / parent() are evaluated as index arithmetic: left(k) == arity*k+1 and parent(c) == (c-1)/arity for every
    child c of k, i.e. they are mutually inverse.  A function of the pair that the instantiation does not contain is not
    called by any code of that heap type (member functions of a class template exist only where they are used): index
    arithmetic that is written out instead is evaluated where the comparison sites use it (HEAP-DECISION)."""
    lefts = tu.find(name="left", record=rec)
    parents = tu.find(name="parent", record=rec)
    insts = []
    for f in lefts + parents:
        if f.rtargs not in insts:
            insts.append(f.rtargs)
    for rt in insts:
        def one(rt=rt):
            lf = [f for f in lefts if f.rtargs == rt]
            pf = [f for f in parents if f.rtargs == rt]
            ck.require(len(lf) <= 1 and len(pf) <= 1, "%s: several left()/parent() in one instantiation" % (lf + pf)[0].loc)
            lf, pf = (lf[0] if lf else None), (pf[0] if pf else None)
            any_f = lf or pf
            arity = fn_arity(any_f)
            ck.require(arity and all(f is None or len(f.params) == 1 for f in (lf, pf)), "%s: left()/parent() signature not understood" % any_f.loc)
            le, pe = (returned_expr(lf) if lf else None), (returned_expr(pf) if pf else None)
            for k in range(0, 40):
                want = arity * k + 1
                l = want
                if lf is not None:
                    l = eval_arith(le, {lf.params[0]["did"]: k})
                    if l is None:
                        raise dtable.Undecidable("%s: left() is not plain index arithmetic" % lf.loc)
                for j in range(arity):
                    p = k
                    if pf is not None and want + j >= 1:
                        p = eval_arith(pe, {pf.params[0]["did"]: (l if l >= 1 else want) + j})
                        if p is None:
                            raise dtable.Undecidable("%s: parent() is not plain index arithmetic" % pf.loc)
                    if p != k or l != want:
                        ck.violation("INDEX-INVERSE", any_f.qname, "arity=%d" % arity,
                                     "left(%d)=%s, parent(%d)=%s: children of node k must be arity*k+1..arity*k+arity and parent their inverse" % (k, l, l + j, p), any_f.loc)
                        return
            n = written_out_parents(tu, rec, rt, arity)        # parent indices computed without parent()
            if lf is not None and pf is not None:
                ck.ok("INDEX-INVERSE", inst_tag(lf), "parent(left(k)+j) == k for k<40, j<%d; left(k) == %d*k+1" % (arity, arity))
            elif lf is not None:
                ck.ok("INDEX-INVERSE", inst_tag(lf), "left(k) == %d*k+1 for k<40; parent() is not instantiated (no code of this heap type calls it), "
                      "the %d divisions written out instead all evaluate to (k-1)/%d" % (arity, n, arity))
            else:
                raise dtable.Undecidable("%s: left() is not instantiated for this heap type: child indices that are computed in another way are not verified" % pf.loc)
        ck.guarded(one)


# ---------------------------------------------------------------- handle table
def handles_store(x):
    """(key_expr, value_expr) if x is handles_[K] = V"""
    b = match.binop(x, ("=",)) if x is not None and not x.get("xu") else None
    if b:
        p = match.index_parts(b[1])
        if p and match.this_field(p[0]) == "handles_":
            return p[1], b[2]
    return None


def heap_store(x):
    """(index_expr, value_expr) if x is heap_[I] = V"""
    b = match.binop(x, ("=",))
    if b and strip_casts(b[1])["k"] != "DeclRefExpr":
        hi = heap_index(b[1])
        if hi is not None:
            return hi, b[2]
    return None


def is_not_present(e):
    e = strip_casts(e)
    return bool(match.call_named(e, ("not_present",)))


def heap_size(e):
    """e is heap_.size() or this->size()"""
    c = match.call_named(match.strip_conv(e), ("size",))
    if c is None or not c.get("member_call") or not kids(c):
        return False
    o = strip_casts(kids(c)[0])
    return match.this_field(o) == "heap_" or o["k"] == "This"


def heap_last(e):
    """e denotes the last element of heap_: heap_.back() | heap_[heap_.size() - 1]"""
    k = strip_casts(e)
    bk = match.call_named(k, ("back",))
    if bk and kids(bk) and match.this_field(kids(bk)[0]) == "heap_":
        return True
    hi = heap_index(k)
    b = match.binop(hi, ("-",)) if hi is not None else None
    return bool(b and heap_size(b[1]) and const_int(b[2]) == 1)


def heap_ops(body):
    stores = [(x, heap_store(x)) for x in ir.walk(body) if heap_store(x)]
    swaps = [x for x in ir.walk(body) if match.call_named(x, ("swap", "iter_swap")) and any(heap_index(a) is not None or heap_last(a) for a in kids(x))]
    pushes = [x for x in ir.walk(body) if match.call_named(x, ("push_back", "emplace_back")) and x.get("member_call") and match.this_field(kids(x)[0]) == "heap_"]
    pops = [x for x in ir.walk(body) if match.call_named(x, ("pop_back",)) and x.get("member_call") and match.this_field(kids(x)[0]) == "heap_"]
    return stores, swaps, pushes, pops


def this_callees(tu, fn):
    """(call node, callee Fn) for the member functions of the same class that fn calls on *this"""
    for c in ir.walk(fn.body):
        if "callee" in c and c.get("member_call") and kids(c) and strip_casts(kids(c)[0])["k"] == "This":
            cal = tu.by_did.get(c["callee"].get("did"))
            if cal is not None and cal.body is not None and cal.did != fn.did and cal.record == fn.record:
                yield c, cal


def is_handle_setter(cal):
    """a helper that only records handles: no loops, no change of heap_ itself"""
    if any(y["k"] in LOOPS for y in ir.walk(cal.body)):
        return False
    st, sw, pu, po = heap_ops(cal.body)
    return not (st or sw or pu or po) and any(handles_store(y) for y in ir.walk(cal.body))


def handle_stores(tu, fn):
    """[(node whose CFG position counts, key expr, value expr, id)] for handles_[K] = V in fn and, with the parameters
    replaced by the arguments, in the handle-setting helpers it calls"""
    out = []
    for y in ir.walk(fn.body):
        hs = handles_store(y)
        if hs:
            out.append((y, hs[0], hs[1], ("own", y["id"])))
    for c, cal in this_callees(tu, fn):
        if is_handle_setter(cal):
            sub = {p_["did"]: a for p_, a in zip(cal.params, kids(c)[1:])}
            for y in ir.walk(cal.body):
                hs = handles_store(y)
                if hs:
                    out.append((c, dtable._subst(hs[0], sub), dtable._subst(hs[1], sub), (c["id"], y["id"])))
    return out


def classify_handles_mention(fn, m):
    """what an occurrence of this->handles_ does: 'read' | 'grow' | 'fill' | 'store' | None (not understood)"""
    p = fn.parent(m)
    if p is None:
        return None
    if p["k"] == "CXXForRangeStmt":
        return "fill" if match.fill_all(p) else None
    # a never-written local reference / pointer / iterator bound to handles_ that is used by fill loops only
    bound = p if p["k"] == "VarDecl" else None
    if "callee" in p and p.get("member_call") and kids(p) and same_node(kids(p)[0], m) and p["callee"]["name"] in ("data", "begin"):
        q = fn.parent(p)
        while q is not None and q["k"] in CASTS + ("CXXConstructExpr",):
            q = fn.parent(q)
        bound = q if q is not None and q["k"] == "VarDecl" else None
    if bound is not None and bound.get("did") is not None and bound["did"] not in local_facts(fn)[1]:
        ty = (bound.get("ty") or "").rstrip()
        if bound.get("isref") or ty.endswith(("&", "*")) or "iterator" in ty:
            uses = [y for y in ir.walk(fn.body) if y["k"] == "DeclRefExpr" and y["ref"]["id"] == bound["did"]]
            fills = [l for l in ir.walk(fn.body) if l["k"] == "ForStmt" and fill_of(fn, l) and match.this_field(fill_of(fn, l)[0]) == "handles_"]
            if uses and all(any(inside(fn, u, l) for l in fills) for u in uses):
                return "fill"
            return None
    if "callee" in p and p.get("member_call") and kids(p) and same_node(kids(p)[0], m) and not p.get("op"):
        nm = p["callee"]["name"]
        if nm in ("size", "empty", "capacity", "max_size"):
            return "read"
        if nm in ("resize", "reserve", "shrink_to_fit"):
            return "grow"
        if nm == "assign":
            return "fill" if match.fill_all(p) else None
        if nm in ("begin", "end"):
            q = fn.parent(p)
            while q is not None and q["k"] in CASTS + ("CXXConstructExpr",):
                q = fn.parent(q)
            fa = match.fill_all(q) if q is not None else None
            return "fill" if fa and match.this_field(fa[0]) == "handles_" else None
        if nm != "at":
            return None
    ip = match.index_parts(p)
    if not (ip and same_node(strip_casts(ip[0]), m)):
        return None
    q, node = fn.parent(p), p
    while q is not None and q["k"] == "ConditionalOperator" and not same_node(kids(q)[0], node):
        q, node = fn.parent(q), q
    if q is None:
        return None
    if q["k"] in CASTS:
        return "read" if q.get("cast") in RVALUE_CASTS else None
    if q["k"] in ("BinaryOperator", "CompoundAssignOperator"):
        op = q.get("op")
        if op == "=" or q["k"] == "CompoundAssignOperator":
            if same_node(kids(q)[0], node):
                return "store" if op == "=" else None
            return "read"
        return "read"
    if q["k"] == "VarDecl":
        return None if (q.get("isref") or (q.get("ty") or "").rstrip().endswith(("&", "*"))) else "read"
    if q["k"] in ("IfStmt", "WhileStmt", "ForStmt", "DoStmt"):
        return "read"
    if q["k"] == "ReturnStmt":
        return None if (fn.d.get("ret") or "").rstrip().endswith("&") else "read"
    if "callee" in q:
        if q.get("op") == "[]" and len(kids(q)) == 2 and same_node(kids(q)[1], node):
            return "read"
        if q.get("op") in ("==", "!=", "<", ">", "<=", ">=", "+", "-", "*", "/", "%"):
            return "read"
        cal = fn.tu.by_did.get(q["callee"].get("did"))
        if cal is not None:
            args = kids(q)[1:] if q.get("member_call") else kids(q)
            for a, prm in zip(args, cal.params):
                if same_node(a, node):
                    return None if (prm.get("ty") or "").rstrip().endswith("&") and not (prm.get("ty") or "").startswith("const ") else "read"
    return None


def callee_handle_kinds(tu, cal, depth=0, seen=None):
    """how a member function writes handles_: subset of {'pos', 'np', 'unknown'}"""
    seen = seen if seen is not None else set()
    if cal.did in seen or depth > 4:
        return set()
    seen.add(cal.did)
    out = set()
    for y in ir.walk(cal.body):
        hs = handles_store(y)
        if hs:
            out.add("np" if is_not_present(hs[1]) else "pos")
        fa = fill_of(cal, y)
        if fa and match.this_field(fa[0]) == "handles_":
            out.add("np" if is_not_present(fa[1]) else "unknown")
        if y["k"] == "MemberExpr" and match.this_field(y) == "handles_" and classify_handles_mention(cal, y) is None:
            out.add("unknown")
    for c, c2 in this_callees(tu, cal):
        out |= callee_handle_kinds(tu, c2, depth + 1, seen)
    return out


def find_reindex(fn):
    """(loop, handle store, first index) of a re-index loop: for every i in [first, heap_.size()): handles_[heap_[i]] = i;
    it is a full one if first == 0"""
    for l in match.loops_in(fn.body):
        if l["k"] not in ("ForStmt", "WhileStmt"):
            continue
        init, cond, inc, body = match.loop_parts(l)
        # the counter: the one local of the condition; the condition is evaluated for heaps of 1..5 elements below
        cv = {y["ref"]["id"] for y in ir.walk(cond) if y["k"] == "DeclRefExpr" and y["ref"].get("kind") == "local"} if cond is not None else set()
        if len(cv) != 1 or not any(heap_size(y) for y in ir.walk(cond)):
            continue
        var = next(iter(cv))
        runs = [[eval_arith(cond, {var: i}, lambda e, n=n: n if heap_size(e) else None) for i in range(n + 1)] for n in range(1, 6)]
        if any(v is None for r in runs for v in r):
            continue
        whole = all(all(r[:-1]) and not r[-1] for r in runs)      # true for every index of the heap, false behind it
        decl = [y for y in ir.walk(fn.body) if y["k"] == "VarDecl" and y["did"] == var and kids(y) and const_int(kids(y)[0]) is not None]
        if not decl:
            continue
        start = const_int(kids(decl[0])[0]) if whole else -1
        if l["k"] == "WhileStmt":
            # the counter starts at 0 when the loop is reached and only the loop advances it
            ds = fn.parent(decl[0])
            comp = fn.parent(ds) if ds is not None else None
            sibs = [c for c in kids(comp) if c is not None] if comp is not None and comp["k"] == "CompoundStmt" else []
            i = [j for j, c in enumerate(sibs) if same_node(c, ds)]
            if not (i and i[0] + 1 < len(sibs) and same_node(sibs[i[0] + 1], l)):
                continue
        writes = []
        for y in ir.walk(fn.body):
            bb = match.binop(y)
            if bb and bb[0].endswith("=") and bb[0] not in ("==", "!=", "<=", ">=") and ref_of(bb[1]) == var and strip_casts(bb[1])["k"] == "DeclRefExpr":
                writes.append(y)
            u = match.unop(y, ("++", "--"))
            if u and ref_of(u[1]) == var:
                writes.append(y)
        steps = [y for y in writes if (match.unop(y, ("++",)) or (match.binop(y, ("+=",)) and const_int(match.binop(y, ("+=",))[2]) == 1)
                                       or (match.binop(y, ("=",)) and match.binop(match.binop(y, ("=",))[2], ("+",)) and
                                           ref_of(match.binop(match.binop(y, ("=",))[2], ("+",))[1]) == var and const_int(match.binop(match.binop(y, ("=",))[2], ("+",))[2]) == 1))]
        if len(writes) != 1 or len(steps) != 1 or not inside(fn, writes[0], l):
            continue
        if any(y["k"] in ("ContinueStmt", "BreakStmt", "ReturnStmt") for y in ir.walk(body)):
            continue
        for y in ir.walk(body):
            hs = handles_store(y)
            if hs:
                hk = heap_index(hs[0])
                if hk is not None and ref_of(hk) == var and ref_of(hs[1]) == var:
                    return l, y, start
    # for (key : heap_) handles_[key] = pos++;   with pos = 0 declared right in front of the loop
    for l in ir.walk(fn.body):
        if l["k"] != "CXXForRangeStmt" or len(kids(l)) < 3 or match.this_field(kids(l)[0]) != "heap_" or kids(l)[1] is None:
            continue
        var, body = kids(l)[1].get("did"), kids(l)[2]
        if any(y["k"] in ("ContinueStmt", "BreakStmt", "ReturnStmt") for y in ir.walk(body)):
            continue
        stmts = [c for c in (kids(body) if body is not None and body["k"] == "CompoundStmt" else [body]) if c is not None]
        hs = handles_store(stmts[0]) if stmts else None
        if not hs or ref_of(hs[0]) != var:
            continue
        u = match.unop(hs[1], ("++",))
        if len(stmts) == 1 and u and u[2] and ref_of(u[1]) is not None:
            cnt = ref_of(u[1])
        elif len(stmts) == 2 and ref_of(hs[1]) is not None and (
                (match.unop(stmts[1], ("++",)) and ref_of(match.unop(stmts[1], ("++",))[1]) == ref_of(hs[1])) or
                (match.binop(stmts[1], ("+=",)) and ref_of(match.binop(stmts[1], ("+=",))[1]) == ref_of(hs[1]) and const_int(match.binop(stmts[1], ("+=",))[2]) == 1)):
            cnt = ref_of(hs[1])
        else:
            continue
        decl = [y for y in ir.walk(fn.body) if y["k"] == "VarDecl" and y["did"] == cnt and kids(y) and const_int(kids(y)[0]) is not None]
        ds = fn.parent(decl[0]) if decl else None
        comp = fn.parent(ds) if ds is not None else None
        sibs = [c for c in kids(comp) if c is not None] if comp is not None and comp["k"] == "CompoundStmt" else []
        i = [j for j, c in enumerate(sibs) if same_node(c, ds)]
        if not (i and i[0] + 1 < len(sibs) and same_node(sibs[i[0] + 1], l)):
            continue
        writes = 0
        for y in ir.walk(fn.body):
            bb = match.binop(y)
            if bb and bb[0].endswith("=") and bb[0] not in ("==", "!=", "<=", ">=") and ref_of(bb[1]) == cnt and strip_casts(bb[1])["k"] == "DeclRefExpr":
                writes += 1
            uu = match.unop(y, ("++", "--"))
            if uu and ref_of(uu[1]) == cnt:
                writes += 1
        if writes == 1:
            return l, stmts[0], const_int(kids(decl[0])[0])
    return None, None, None


def leaving_key(tu, fn, g, swaps, key, pop):
    """the expression key denotes the key that pop_back() at `pop` removes: std::swap(heap_[H], heap_.back()) with
    H = handles_[key] is executed on every path to the pop.  When the function is entered heap_[handles_[k]] == k holds for
    every key k in the heap (the coupling this rule establishes; a key that is not in the heap has no valid H at all), so
    after the swap heap_.back() is that key - provided heap_ and handles_ are untouched up to the swap and heap_ from the
    swap to the pop, and key itself is built from values that never change"""
    r = init_reads(key)
    px = g.pos_deep(pop)
    if r is None or r[0] or (r[1] & local_facts(fn)[1]) or px is None:
        return False
    for sw in swaps:
        args = [a for a in kids(sw) if a is not None]
        if len(args) != 2 or not match.call_named(sw, ("swap",)) or sw.get("member_call"):
            continue
        last = [a for a in args if heap_last(a)]
        other = [a for a in args if not heap_last(a) and heap_index(a) is not None]
        ps = g.pos_deep(sw)
        if len(last) != 1 or len(other) != 1 or ps is None or not g.dominates(ps, px):
            continue
        hidx = resolve_at(tu, fn, g, heap_index(other[0]), ps)
        ip = match.index_parts(hidx)
        if not (ip and match.this_field(ip[0]) == "handles_" and match.same_expr(ip[1], key)):
            continue
        # state untouched from the entry to the swap, heap_ untouched from the swap to the pop
        early = [w for w, fs in field_writers(tu, fn) if (ALL in fs or fs & {"heap_", "handles_"}) and not same_node(w, sw)
                 and (g.pos_deep(w) is None or g.pos_deep(w) == ps or g.reachable(g.pos_deep(w), ps))]
        if early or g.reachable(ps, ps) or written_between(tu, fn, g, {"heap_"}, ps, px, skip=(sw,)) is not None:
            continue
        return True
    return False


def check_handle_coupled(ck, fn):
    """every change of heap_ keeps handles_ in step: a store heap_[I] = V has handles_[heap_[I] | V] = I on every path (unless
    a full re-index loop follows), an appended key gets its position, a key that leaves is marked not_present"""
    tu = fn.tu
    stores, swaps, pushes, pops = heap_ops(fn.body)
    if not stores and not swaps and not pushes:
        return
    tag = "%s::%s/%s" % (inst_tag(fn), fn.name, ",".join(p["ty"][-12:] for p in fn.params))
    g = cfgm.CFG(fn)
    hst = handle_stores(tu, fn)
    used = set()
    failures = []          # (kind, sig, message, node)
    reindex, rstore, first = find_reindex(fn)
    covered = 0
    if reindex is not None:
        used.add(("own", rstore["id"]))     # understood, whether it covers everything or not
    if reindex is not None and first != 0:
        reindex = None                      # positions below `first` keep whatever handle they had: the stores need their own
    if reindex is not None:
        pl = g.pos_deep(reindex)
        late = [(x, st) for x, st in stores if g.pos(x) and pl and g.reachable(pl, g.pos(x)) and not g.reachable(g.pos(x), pl)]
        covered = len(stores) - len(late)
        stores = late        # what is stored after the table was rebuilt needs its own bookkeeping
    for x, (idx, val) in stores:
        # handles_ stores that record position idx for the key now at heap_[idx] (or for the stored value itself)
        v = strip_casts(val)
        mv = match.call_named(v, ("move",))
        vv = kids(mv)[-1] if mv else v
        after, before = [], []
        px = g.pos_deep(x)
        for h in hst:
            ph = g.pos_deep(h[0])
            if not same_value(tu, fn, g, h[2], ph, idx, px):
                continue
            hk = heap_index(h[1])
            if hk is not None and same_value(tu, fn, g, hk, ph, idx, px):
                after.append(h)              # handles_[heap_[idx]] = idx: meaningful once the store has happened
            elif match.same_expr(h[1], vv):
                after.append(h)              # handles_[value] = idx: meaningful on either side of the store
                before.append(h)
        used |= {h[3] for h in after}
        pa = [g.pos_deep(h[0]) for h in after if g.pos_deep(h[0]) is not None]
        pb = [g.pos_deep(h[0]) for h in before if g.pos_deep(h[0]) is not None]
        okk = px is not None and ((pa and g.path_avoiding(px, pa) is None) or (pb and g.path_from_entry_avoiding(px, pb) is None))
        if not okk:
            failures.append(("pos", fn.name + (":store-after-reindex" if reindex is not None else ":store:" + dtable.describe(idx)),
                             "heap_[%s] is overwritten%s and a path to the exit does not record the new position of that key in handles_"
                             % (dtable.describe(idx), " after the handle table was rebuilt" if reindex is not None else ""), x))
    for x in swaps:
        # swap(heap_[h], heap_.back()): the key now at h needs handles_[heap_[h]] = h, the key at the back is about to leave
        for idx in [i for i in (heap_index(e) for e in kids(x)) if i is not None]:
            m = [h for h in hst if heap_index(h[1]) is not None and same_value(tu, fn, g, heap_index(h[1]), g.pos_deep(h[0]), idx, g.pos_deep(x))
                 and same_value(tu, fn, g, h[2], g.pos_deep(h[0]), idx, g.pos_deep(x))]
            used |= {h[3] for h in m}
            if not m:
                failures.append(("pos", fn.name + ":swap", "after the swap the key moved to heap_[%s] keeps its old handle" % dtable.describe(idx), x))
    for x in pushes:
        key = kids(x)[-1]
        mv = match.call_named(key, ("move",))
        key = kids(mv)[-1] if mv else key
        px = g.pos_deep(x)
        pre, post = [], []
        for h in hst:
            if not match.same_expr(h[1], key):
                continue
            # a never-written local that holds heap_.size() stands for it as long as heap_ is not changed in between
            hv = resolve_at(tu, fn, g, h[2], g.pos_deep(h[0]))
            b = match.binop(match.strip_conv(hv), ("-",))
            if heap_size(hv):
                if hv is not h[2] and (px is None or written_between(tu, fn, g, {"heap_"}, g.pos_deep(h[0]), px) is not None):
                    continue                # the local's value may be stale by the time the key is appended
                pre.append(h)               # handles_[key] = heap_.size() in front of the push_back
            elif b and heap_size(b[1]) and const_int(b[2]) == 1:
                post.append(h)              # handles_[key] = heap_.size() - 1 behind it
        used |= {h[3] for h in pre + post}
        ppre = [g.pos_deep(h[0]) for h in pre if g.pos_deep(h[0]) is not None]
        ppost = [g.pos_deep(h[0]) for h in post if g.pos_deep(h[0]) is not None]
        okk = px is not None and ((ppre and g.path_from_entry_avoiding(px, ppre) is None) or (ppost and g.path_avoiding(px, ppost) is None))
        if not okk:
            failures.append(("pos", fn.name + ":push", "a key is appended to heap_ without handles_[key] = its position", x))
    # removal: pop_back must mark the leaving key not present
    for x in pops:
        px = g.pos_deep(x)
        m = [h for h in hst if is_not_present(h[2]) and (heap_last(h[1]) or heap_last(resolve_at(tu, fn, g, h[1], g.pos_deep(h[0])))
                                                         or leaving_key(tu, fn, g, swaps, h[1], x))]
        # nothing may write handles_ between the mark and the pop_back (a later handles_[...] = pos could set the handle again),
        # nor heap_ (the last element would be another one)
        m = [h for h in m if px is not None and g.pos_deep(h[0]) is not None
             and written_between(tu, fn, g, {"handles_", "heap_"}, g.pos_deep(h[0]), px) is None]
        used |= {h[3] for h in m}
        pm = [g.pos_deep(h[0]) for h in m if g.pos_deep(h[0]) is not None]
        if not (px is not None and pm and g.path_from_entry_avoiding(px, pm) is None):
            failures.append(("np", fn.name + ":pop", "the key leaving heap_ is not marked not_present in handles_", x))
    if failures:
        # absence of the bookkeeping counts only in a closed world: every write of handles_ in this function is understood
        unmatched = [h for h in hst if h[3] not in used]
        unknown = [y for y in ir.walk(fn.body) if y["k"] == "MemberExpr" and match.this_field(y) == "handles_" and classify_handles_mention(fn, y) is None]
        for kind, sig, msg, x in failures:
            writers = [cal.name for c, cal in this_callees(tu, fn) if not is_handle_setter(cal) and callee_handle_kinds(tu, cal) & {kind, "unknown"}]
            if unmatched or unknown or writers:
                what = ("handles_[%s] = %s" % (dtable.describe(unmatched[0][1]), dtable.describe(unmatched[0][2]))) if unmatched else \
                    ("use of handles_ at line %s" % unknown[0].get("l")) if unknown else ("%s() writes handles_" % writers[0])
                raise dtable.Undecidable("%s: %s - cannot be decided, the handle bookkeeping of %s() is not fully understood (%s)"
                                         % (fn.nloc(x), msg, fn.name, what))
        for kind, sig, msg, x in failures:
            ck.violation("HANDLE-COUPLED", fn.qname, sig, msg, fn.nloc(x))
        return
    if reindex is not None and not stores:
        ck.ok("HANDLE-COUPLED", tag, "%d heap_ stores followed by a full re-index loop over [0, heap_.size())" % covered)
    else:
        ck.ok("HANDLE-COUPLED", tag, "%d stores, %d swaps, %d pushes, %d pops keep handles_ in step" % (len(stores) + covered, len(swaps), len(pushes), len(pops)))


def check_handle_reset(ck, fn):
    """wholesale replacement of heap_ needs the handles of the old contents reset first"""
    tu = fn.tu
    repl = []
    for x in ir.walk(fn.body):
        c = match.call_named(x, ("assign", "clear", "resize", "swap")) if "callee" in x else None
        if c and c.get("member_call") and match.this_field(kids(c)[0]) == "heap_":
            repl.append(c)
        b = match.binop(x, ("=",))
        if b and match.this_field(b[1]) == "heap_" and strip_casts(b[1])["k"] == "MemberExpr":
            repl.append(x)
    tag = "%s::%s/%s" % (inst_tag(fn), fn.name, ",".join(p["ty"][-14:] for p in fn.params))
    if not repl:
        # emptied through clear() (which is checked on its own) and refilled element by element
        if fn.name == "build_heap" and any(this_call(x, ("clear",)) for x in ir.walk(fn.body) if "callee" in x):
            ck.ok("HANDLE-RESET", tag, "heap_ is emptied by clear(), which resets the handles of the previous contents")
        return
    g = cfgm.CFG(fn)
    resets = []
    for x in ir.walk(fn.body):
        fa = fill_of(fn, x)
        if fa and match.this_field(fa[0]) == "handles_" and is_not_present(fa[1]):
            resets.append(x)
        c = match.call_named(x, ("assign",)) if "callee" in x else None
        if c and c.get("member_call") and match.this_field(kids(c)[0]) == "handles_" and any(is_not_present(a) for a in kids(c)):
            resets.append(c)
        c = this_call(x, ("clear",)) if "callee" in x else None
        if c:
            resets.append(c)
        # per-key reset loop over the old contents
        if x["k"] in LOOPS:
            for y in ir.walk(x):
                hs = handles_store(y)
                if hs and is_not_present(hs[1]):
                    resets.append(x)
                    break
    pres = [g.pos_deep(r) for r in resets if g.pos_deep(r) is not None]
    exposed = []
    for x in repl:
        px = g.pos_deep(x)
        if px is None:
            raise dtable.Undecidable("%s: position of the replacement of heap_ not found in the CFG" % fn.nloc(x))
        if g.path_from_entry_avoiding(px, pres) is not None:
            exposed.append(x)
    if not exposed:
        ck.ok("HANDLE-RESET", tag, "handles of the previous contents are reset before heap_ is replaced")
        return
    # a path reaches the replacement without passing a reset: evidence only if nothing else on the way could be the reset
    x = exposed[0]
    px = g.pos_deep(x)

    def before(n):
        q = g.pos_deep(n)
        return q is None or q == px or g.reachable(q, px)
    for y in ir.walk(fn.body):
        if y["k"] == "MemberExpr" and match.this_field(y) == "handles_" and before(y) and not any(inside(fn, y, r) for r in resets):
            kind = classify_handles_mention(fn, y)
            if kind is None or kind == "fill":
                raise dtable.Undecidable("%s: heap_ is replaced and no reset of the handles was recognised in front of it, but line %s uses handles_ in a "
                                         "way that is not understood" % (fn.nloc(x), y.get("l")))
            if kind == "store":
                st = fn.parent(fn.parent(y))
                hs = handles_store(st) if st is not None else None
                if hs is None or is_not_present(hs[1]):
                    raise dtable.Undecidable("%s: heap_ is replaced; the not_present store at line %s may be the reset of the old handles"
                                             % (fn.nloc(x), y.get("l")))
    for c, cal in this_callees(tu, fn):
        if before(c) and not any(same_node(c, r) for r in resets) and callee_handle_kinds(tu, cal) & {"np", "unknown"}:
            raise dtable.Undecidable("%s: heap_ is replaced; %s() called in front of it may reset the old handles" % (fn.nloc(x), cal.name))
    ck.violation("HANDLE-RESET", fn.qname, ("%s/%s" % (fn.name, ",".join(p["ty"][-14:] for p in fn.params))).replace(" ", ""),
                 "heap_ is replaced wholesale but the handles of the keys it held stay set: contains() keeps reporting removed keys", fn.nloc(repl[0]))


def _mentions_field(e, field):
    return any(y["k"] == "MemberExpr" and match.this_field(y) == field for y in ir.walk(e))


def full_scan_max(fn, loop, mv):
    """the loop visits every element of heap_ and raises the local mv to it"""
    if loop["k"] == "CXXForRangeStmt" and len(kids(loop)) >= 3 and match.this_field(kids(loop)[0]) == "heap_":
        var, body = kids(loop)[1], kids(loop)[2]
        elem = lambda e: var is not None and ref_of(e) == var.get("did")
    elif loop["k"] == "ForStmt":
        init, cond, inc, body = match.loop_parts(loop)
        decl = [y for y in ir.walk(init) if y["k"] == "VarDecl" and kids(y) and const_int(kids(y)[0]) == 0] if init is not None else []
        b = match.binop(cond, ("<", "!=")) if cond is not None else None
        u = match.unop(inc, ("++",)) if inc is not None else None
        if not (len(decl) == 1 and b and ref_of(b[1]) == decl[0]["did"] and heap_size(b[2]) and u and ref_of(u[1]) == decl[0]["did"]):
            return False
        elem = lambda e: heap_index(e) is not None and ref_of(heap_index(e)) == decl[0]["did"]
    else:
        return False
    if any(y["k"] in ("BreakStmt", "ContinueStmt", "ReturnStmt") for y in ir.walk(body)):
        return False
    sb = simplify(body)
    stmts = [c for c in (kids(sb) if sb["k"] == "CompoundStmt" else [sb]) if c is not None]
    for st in stmts:
        xu = xu_of(st)
        if xu and xu[0] == "max" and ref_of(xu[1]) == mv and elem(xu[2]):
            return True
    return False


def check_handle_grow(ck, fn):
    """heapify: the bound used to grow handles_ must cover the heap contents: (1) with a single element (the sift loop is
    skipped) it includes that element, (2) inside the sift loop every visited element feeds the maximum"""
    rs = [x for x in ir.walk(fn.body) if match.call_named(x, ("resize",)) and "callee" in x and x.get("member_call") and match.this_field(kids(x)[0]) == "handles_"]
    ck.require(len(rs) == 1 and len(kids(rs[0])) >= 2, "%s: handles_.resize not found in heapify" % fn.loc)
    bound = kids(rs[0])[1]
    bound_vars = []
    for y in ir.walk(bound):
        if y["k"] == "DeclRefExpr" and y["ref"]["kind"] == "local" and y["ref"]["id"] not in bound_vars:
            bound_vars.append(y["ref"]["id"])
    if len(bound_vars) != 1:
        raise dtable.Undecidable("%s: the bound of handles_.resize is not built from one local maximum (%s)" % (fn.nloc(rs[0]), dtable.describe(bound)))
    mv = bound_vars[0]
    decl = [x for x in ir.walk(fn.body) if x["k"] == "VarDecl" and x["did"] == mv]
    ck.require(decl, "%s: declaration of the maximum variable not found" % fn.loc)

    # ---- (1) scenario: exactly one element in heap_
    SIZE = 1

    def szval(e):
        e = strip_casts(e)
        if e is None:
            return None
        c = const_int(e)
        if c is not None:
            return c
        if heap_size(e):
            return SIZE
        b = match.binop(e, ("+", "-", "*", "/")) if e["k"] == "BinaryOperator" else None
        if b:
            l, r = szval(b[1]), szval(b[2])
            if l is None or r is None or (b[0] == "/" and r == 0):
                return None
            v = {"+": l + r, "-": l - r, "*": l * r, "/": l // r if r else 0}[b[0]]
            return v if v >= 0 else None          # unsigned wrap-around is not modelled
        return None

    def atomize(n, run):
        c = match.call_named(n, ("empty",))
        if c is not None and c.get("member_call") and kids(c):
            o = strip_casts(kids(c)[0])
            if match.this_field(o) == "heap_" or o["k"] == "This":
                return SIZE == 0
        if n["k"] == "BinaryOperator" and n.get("op") in ("<", ">", "<=", ">=", "==", "!="):
            l, r = szval(kids(n)[0]), szval(kids(n)[1])
            if l is not None and r is not None:
                return {"<": l < r, ">": l > r, "<=": l <= r, ">=": l >= r, "==": l == r, "!=": l != r}[n["op"]]
        if heap_size(n):
            return SIZE != 0
        return base_atom(n)

    leaves = dtable.explore(simplify(fn.body), atomize, fn)
    reached = 0
    for lf in leaves:
        run = lf["run"]
        state = {"cov": False}

        def covers(e):
            """the value of e is at least the single element of heap_ | None = not understood"""
            e0 = e
            e = match.strip_conv(e)
            if e is None:
                return False
            if e["k"] == "DeclRefExpr":
                return state["cov"] if e["ref"]["id"] == mv else (False if const_int(e) is not None or e["ref"].get("kind") != "local" else None)
            if const_int(e) is not None:
                return False
            c = match.call_named(e, ("front", "back"))
            if c is not None and c.get("member_call") and kids(c) and match.this_field(kids(c)[0]) == "heap_":
                return True
            hi = heap_index(e)
            if hi is not None and e["k"] != "MemberExpr":
                v = szval(hi)
                return True if v is not None and 0 <= v < SIZE else None
            if e["k"] == "ConditionalOperator":
                try:
                    t = run.truth(kids(e)[0])
                except dtable._Need:
                    return None
                return covers(kids(e)[1] if t else kids(e)[2])
            m = match.call_named(e, ("max",))
            if m is not None and "callee" in e and len(kids(m)) >= 2:
                a, b = covers(kids(m)[0]), covers(kids(m)[1])
                return True if (a or b) else (None if (a is None or b is None) else False)
            b = match.binop(e, ("+",)) if e["k"] == "BinaryOperator" else None
            if b:
                for x, y in ((b[1], b[2]), (b[2], b[1])):
                    cy = const_int(y)
                    if cy is not None and cy >= 0:
                        return covers(x)
            if not _mentions_field(e, "heap_") and not any(y["k"] == "DeclRefExpr" and y["ref"].get("kind") == "local" for y in ir.walk(e)):
                return False                       # no element of heap_ enters this value
            return None

        verdict = "unreached"
        for kind, n in leaf_items(lf):
            if kind == "decl":
                if n.get("did") == mv and kids(n):
                    state["cov"] = covers(kids(n)[0])
                continue
            if kind == "loop":
                if any((match.binop(y) and match.binop(y)[0].endswith("=") and match.binop(y)[0] not in ("==", "!=", "<=", ">=") and ref_of(match.binop(y)[1]) == mv)
                       for y in ir.walk(n)) or mv in run.clobbered and any(y["k"] == "DeclRefExpr" and y["ref"]["id"] == mv for y in ir.walk(n)):
                    state["cov"] = True if full_scan_max(fn, n, mv) else None
                continue
            if same_node(n, rs[0]):
                verdict = covers(bound)
                break
            xu = xu_of(n)
            if xu and ref_of(xu[1]) == mv:
                o = covers(xu[2])
                if xu[0] == "max":
                    state["cov"] = True if (state["cov"] or o) else (None if (state["cov"] is None or o is None) else False)
                else:
                    state["cov"] = None
                continue
            b = match.binop(n) if n["k"] in ("BinaryOperator", "CompoundAssignOperator", "CXXOperatorCallExpr") else None
            if b and b[0].endswith("=") and b[0] not in ("==", "!=", "<=", ">=") and ref_of(b[1]) == mv:
                state["cov"] = covers(b[2]) if b[0] == "=" else None
        if verdict == "unreached":
            continue
        reached += 1
        if verdict is None or (verdict is False and has_aux(lf["val"])):
            raise dtable.Undecidable("%s: cannot tell whether the bound of handles_.resize (%s) includes the only element of a one-element heap"
                                     % (fn.nloc(rs[0]), dtable.describe(bound)))
        if verdict is False:
            ck.violation("HANDLE-GROW", fn.qname, "single-element",
                         "on the path that skips the sift loop (one element) the bound for handles_.resize does not include that element: out-of-bounds handle write", fn.nloc(decl[0]))
            return
    if not reached:
        raise dtable.Undecidable("%s: handles_.resize is not reached in the one-element scenario" % fn.nloc(rs[0]))

    # ---- (2) every element visited by the sift loop feeds the maximum: the hole value and all children
    fed = set()
    unknown = []
    roles, value_var = index_roles(fn)
    sb = simplify(fn.body)
    full = any(full_scan_max(fn, l, mv) for l in ir.walk(fn.body) if l["k"] in ("ForStmt", "CXXForRangeStmt"))
    for y in ir.walk(sb):
        if y["k"] == "VarDecl" and y.get("did") == mv:
            continue
        b = match.binop(y) if y["k"] in ("BinaryOperator", "CompoundAssignOperator", "CXXOperatorCallExpr") else None
        if not (b and b[0].endswith("=") and b[0] not in ("==", "!=", "<=", ">=") and ref_of(b[1]) == mv):
            u = match.unop(y, ("++", "--"))
            if u and ref_of(u[1]) == mv:
                unknown.append(y)
            continue
        xu = xu_of(y)
        if xu and xu[0] == "max" and ref_of(xu[1]) == mv:
            r, v = operand_role(xu[2], roles, value_var, fn)
            if r:
                fed.add("value" if r == "hole" else r)
            elif _mentions_field(xu[2], "heap_") or any(z["k"] == "DeclRefExpr" and z["ref"].get("kind") == "local" for z in ir.walk(xu[2])):
                unknown.append(y)
        elif _mentions_field(b[2], "heap_"):
            unknown.append(y)
    if full or {"value", "child"} <= fed:
        ck.ok("HANDLE-GROW", inst_tag(fn) + "::heapify", "resize bound = max over root/hole values and all children; single-element path reads heap_.front()")
        return
    if unknown:
        raise dtable.Undecidable("%s: an update of the maximum key is not understood: %s" % (fn.nloc(unknown[0]), dtable.describe(unknown[0])))
    ck.violation("HANDLE-GROW", fn.qname, "coverage", "the maximum key does not take every visited element into account (needs the hole value and all children)", fn.loc)


# ---------------------------------------------------------------- radix heap
def bucket_index(e):
    """index expr if e is this->buckets_data_[i]"""
    p = match.index_parts(e)
    if p and match.this_field(p[0]) == "buckets_data_":
        return p[1]
    return None


def bucket_of(fn, e):
    """index expr if e denotes this->buckets_data_[i], directly or through a local reference bound to it"""
    t = strip_casts(e)
    idx = bucket_index(t)
    if idx is None and t is not None and t["k"] == "DeclRefExpr":
        # reference alias: auto& data_source = buckets_data_[i]
        d = [y for y in ir.walk(fn.body) if y["k"] == "VarDecl" and y["did"] == t["ref"]["id"] and kids(y)]
        if d:
            idx = bucket_index(kids(d[0])[0])
    return idx


def resolve_local(fn, e, depth=0):
    """e with never-written locals that were initialised from plain values (no calls, no fields) replaced by those values"""
    if e is None or depth > 4:
        return e
    mapping = {}
    for y in ir.walk(e):
        if y["k"] == "DeclRefExpr" and y["ref"].get("kind") == "local" and y["ref"]["id"] not in mapping:
            did = y["ref"]["id"]
            d = [z for z in ir.walk(fn.body) if z["k"] == "VarDecl" and z.get("did") == did and kids(z) and kids(z)[0] is not None]
            if not d or any(z["k"] in ("MemberExpr", "This") or "callee" in z for z in ir.walk(kids(d[0])[0])):
                continue
            written = False
            for z in ir.walk(fn.body):
                bb = match.binop(z)
                if bb and bb[0].endswith("=") and bb[0] not in ("==", "!=", "<=", ">=") and ref_of(bb[1]) == did and strip_casts(bb[1])["k"] == "DeclRefExpr":
                    written = True
                u = match.unop(z, ("++", "--"))
                if u and ref_of(u[1]) == did:
                    written = True
            if not written:
                mapping[did] = kids(d[0])[0]
    if not mapping:
        return e
    return resolve_local(fn, dtable._subst(e, mapping), depth + 1)


def index_relation(fn, e, idx, sub=None):
    """'same' | 'diff' | 'maybe': does the index expression e (inside a helper: through the substitution sub) denote the
    bucket idx?  Two different plain designators (a variable, a field) are taken as different buckets."""
    if sub:
        e = dtable._subst(e, sub)
    a, b = resolve_local(fn, e), resolve_local(fn, idx)
    if match.same_expr(a, b):
        return "same"
    sa, sb = strip_casts(a), strip_casts(b)
    simple = lambda n: n is not None and (n["k"] == "DeclRefExpr" or (n["k"] == "MemberExpr" and match.this_field(n)) or const_int(n) is not None)
    return "diff" if simple(sa) and simple(sb) else "maybe"


def site_region(fn, c):
    """the statement whose paths are tabulated for a bucket operation: the body of the innermost loop around it, else the function"""
    loop, via = enclosing(fn, c, LOOPS)
    if loop is None:
        return fn.body
    body = kids(loop)[2] if loop["k"] == "CXXForRangeStmt" else match.loop_parts(loop)[3]
    if not same_node(via, body):
        raise dtable.Undecidable("%s: bucket operation in the control part of a loop" % fn.nloc(c))
    return body


def expanded(tu, fn, lf):
    """(node, substitution, in_loop, event number) for the nodes a leaf executes, with the bodies of loop-free helpers called
    on *this (one level; parameters stand for the arguments); second result: (call, callee, event number) of the helpers
    that were not expanded"""
    out, opaque = [], []
    for ei, (kind, n) in enumerate(leaf_items(lf)):
        for y in ir.walk(n):
            out.append((y, None, kind == "loop", ei))
            if "callee" in y and y.get("member_call") and kids(y) and strip_casts(kids(y)[0])["k"] == "This":
                cal = tu.by_did.get(y["callee"].get("did"))
                if cal is None or cal.body is None or cal.did == fn.did or cal.record != fn.record:
                    if not y["callee"].get("const"):
                        opaque.append((y, None, ei))
                    continue
                if any(z["k"] in LOOPS for z in ir.walk(cal.body)) or kind == "loop":
                    opaque.append((y, cal, ei))
                    continue
                sub = {p_["did"]: a for p_, a in zip(cal.params, kids(y)[1:])}
                out += [(z, sub, False, ei) for z in ir.walk(cal.body)]
                for c2, cal2 in this_callees(tu, cal):
                    opaque.append((c2, cal2, ei))
    return out, opaque


def field_unknowns(tu, fn, nodes, opaque, field, known_calls=(), since=0):
    """uses of this->field on a leaf whose effect the rule does not classify (so that "the required update is absent"
    would be a guess): unknown member functions, aliases, the field handed to other functions, helpers that were not
    expanded and write the field (from event number `since` on)"""
    out = []
    par_of = {}
    for y, sub, in_loop, ei in nodes:
        for c in kids(y):
            if c is not None:
                par_of[id(c)] = y
    for y, sub, in_loop, ei in nodes:
        if not (y["k"] == "MemberExpr" and match.this_field(y) == field):
            continue
        par = par_of.get(id(y))
        node = y
        ip = match.index_parts(par) if par is not None else None
        if ip and strip_casts(ip[0]) is y:
            node, par = par, par_of.get(id(par))
        while par is not None and par["k"] in CASTS:
            node, par = par, par_of.get(id(par))
        if par is None:
            continue
        if "callee" in par and par.get("member_call") and kids(par) and strip_casts(kids(par)[0]) is strip_casts(node) and not par.get("op"):
            if par["callee"]["name"] in known_calls or par["callee"].get("const"):
                continue
            out.append("%s.%s() at line %s" % (field, par["callee"]["name"], par.get("l")))
        elif par["k"] == "VarDecl" and (par.get("isref") or (par.get("ty") or "").rstrip().endswith(("&", "*"))):
            out.append("alias of %s at line %s" % (field, par.get("l")))
        elif par["k"] == "CXXForRangeStmt":
            out.append("loop over %s at line %s" % (field, par.get("l")))
        elif "callee" in par and not par.get("op") and not par["callee"].get("const"):
            if par["callee"]["name"] not in ("min", "max", "move", "forward"):
                out.append("%s passed to %s() at line %s" % (field, par["callee"]["name"], par.get("l")))
        elif par["k"] == "UnaryOperator" and par.get("op") == "&":
            out.append("address of %s at line %s" % (field, par.get("l")))
    for c, cal, ei in opaque:
        if ei >= since and (cal is None or field in written_fields(tu, cal)):
            out.append("%s() may write %s" % (c["callee"]["name"], field))
    return out


def moved_between_buckets(fn, c):
    """the inserted element is the loop variable of a range-for over another bucket: elements change buckets, size_ stays"""
    loop, _ = enclosing(fn, c, ("CXXForRangeStmt",))
    if loop is None or bucket_of(fn, kids(loop)[0]) is None or kids(loop)[1] is None:
        return False
    arg = kids(c)[-1]
    mv = match.call_named(arg, ("move",))
    arg = kids(mv)[-1] if mv else arg
    return ref_of(arg) == kids(loop)[1].get("did")


def radix_site(ck, tu, fn, tag, c, idx, op):
    """one insertion into / emptying of a bucket: tabulates the paths of the enclosing region through the operation"""
    def atomize(n, run, c=c, idx=idx):
        e = match.call_named(n, ("empty",))
        if e is not None and e.get("member_call") and kids(e):
            bi = bucket_of(fn, kids(e)[0])
            if bi is not None and match.same_expr(bi, idx):
                done = any(ev[0] == "expr" and inside(fn, c, ev[1]) for ev in run.events)
                return ("empty-after" if done else "empty-before", False)
        return base_atom(n)
    leaves = [lf for lf in dtable.explore(simplify(site_region(fn, c)), atomize, fn)
              if any(kind == "expr" and inside(fn, c, n) for kind, n in leaf_items(lf))]
    if not leaves:
        raise dtable.Undecidable("%s: no path through the bucket operation found" % fn.nloc(c))
    moving = op == "insert" and (moved_between_buckets(fn, c) or fn.name.startswith("reorganize"))
    missing = None          # (what, leaf valuation, reasons why the evidence is not conclusive)
    facts = []
    for lf in leaves:
        nodes, opaque = expanded(tu, fn, lf)
        val = lf["val"]
        others = {k: v for k, v in val.items() if k not in ("empty-before", "empty-after")}
        at = min(ei for y, sub, in_loop, ei in nodes if same_node(y, c))       # event that performs the bucket operation
        hit = {"set_bit": False, "clear_bit": False, "min": False, "reset": False, "+": False, "-": False}
        maybe = {"set_bit": [], "clear_bit": [], "min": [], "reset": [], "size": []}
        for y, sub, in_loop, ei in nodes:
            if "callee" in y and y.get("member_call") and kids(y) and match.this_field(kids(y)[0]) == "filled_" and y["callee"]["name"] in ("set_bit", "clear_bit"):
                rel = index_relation(fn, kids(y)[1], idx, sub) if len(kids(y)) > 1 else "maybe"
                if rel == "same" and not in_loop:
                    hit[y["callee"]["name"]] = True
                elif rel != "diff":
                    maybe[y["callee"]["name"]].append("%s at line %s" % (dtable.describe(y), y.get("l")))
            xu = xu_of(y) if y["k"] in ("BinaryOperator", "CXXOperatorCallExpr") else None
            b = match.binop(y) if y["k"] in ("BinaryOperator", "CompoundAssignOperator", "CXXOperatorCallExpr") and not y.get("xu") else None
            if b and not (b[0].endswith("=") and b[0] not in ("==", "!=", "<=", ">=")):
                b = None
            tgt = xu[1] if xu else (b[1] if b else None)
            ip = match.index_parts(tgt) if tgt is not None else None
            if ip and match.this_field(ip[0]) == "mins_":
                rel = index_relation(fn, ip[1], idx, sub)
                if xu:
                    kind = "min" if xu[0] == "min" else "raise"
                elif b[0] == "=" and match.call_named(b[2], ("max",)) and not kids(match.call_named(b[2], ("max",))):
                    kind = "reset"
                elif b[0] == "=" and not _mentions_field(b[2], "mins_") and not has_aux(others):
                    kind = "overwrite"       # unconditional on this path: the old minimum is lost
                else:
                    kind = "other"
                where = "%s at line %s" % (dtable.describe(y)[:60], y.get("l"))
                if kind in ("min", "reset"):
                    if rel == "same" and not in_loop:
                        hit[kind] = True
                    elif rel != "diff":
                        maybe[kind].append(where)
                elif kind == "other" and rel != "diff":
                    maybe["min"].append(where)
                    maybe["reset"].append(where)
            fd = match.field_delta(y, "size_")
            if fd and not in_loop:
                hit[fd[0]] = True
            elif (fd and in_loop) or (b and match.this_field(b[1]) == "size_" and strip_casts(b[1])["k"] == "MemberExpr" and not fd):
                maybe["size"].append("%s at line %s" % (dtable.describe(y)[:60], y.get("l")))
        facts.append((lf, nodes, opaque, others, at, hit, maybe))
    fl_known = ("set_bit", "clear_bit", "is_set", "empty", "find_lsb")
    for lf, nodes, opaque, others, at, hit, maybe in facts:
        val = lf["val"]

        def absent(what, field, eff, cands, known_calls=(), since=0):
            """the update is not on this path; conclusive only if nothing on the path could be that update in another
            form, and if the paths that do perform it differ from this one in understood conditions only"""
            why = list(cands) + field_unknowns(tu, fn, nodes, opaque, field, known_calls, since)
            if has_aux(others) and any(f[5][eff] for f in facts):
                why.append("the path depends on %s" % ", ".join(sorted(k for k in others if k.startswith(("aux:", "flag:")))[:2]))
            return (what, val, why)

        if op == "insert":
            if val.get("empty-before") is not False and not hit["set_bit"]:
                missing = missing or absent("filled_ bit set when the bucket was empty", "filled_", "set_bit", maybe["set_bit"], fl_known)
            if not hit["min"]:
                missing = missing or absent("mins_[idx] lowered to the new key", "mins_", "min", maybe["min"])
            if not moving and not hit["+"]:
                missing = missing or absent("size_ incremented", "size_", "+", maybe["size"])
        else:
            if op == "pop_back":
                e = val.get("empty-after")
                if e is not False and not hit["clear_bit"]:
                    missing = missing or absent("filled_ bit cleared when the bucket became empty", "filled_", "clear_bit", maybe["clear_bit"], fl_known, at)
                elif e is not True and hit["clear_bit"]:
                    # positive: the bit is cleared on a path on which the bucket is not known to be empty
                    missing = missing or ("filled_ bit kept while the bucket still holds elements", val,
                                          ["the path depends on %s" % ", ".join(sorted(others)[:2])] if has_aux(others) else [])
            elif not hit["clear_bit"]:
                missing = missing or absent("filled_ bit cleared", "filled_", "clear_bit", maybe["clear_bit"], fl_known, at)
            if op in ("pop_back", "swap") and not hit["-"]:
                missing = missing or absent("size_ decremented", "size_", "-", maybe["size"])
            if op == "clear" and not hit["reset"]:
                # clear of a drained bucket: its minimum must be reset too
                missing = missing or absent("mins_[idx] reset to the maximum", "mins_", "reset", maybe["reset"])
        if missing:
            break
    if missing is None:
        if op == "insert":
            ck.ok("RADIX-COUPLED", tag + " insert", "set_bit iff bucket was empty, mins_ lowered, size_ %s" % ("unchanged (move)" if moving else "incremented"))
        else:
            ck.ok("RADIX-COUPLED", tag + " " + op, "filled_ bit / mins_ / size_ follow the bucket")
        return
    what, val, why = missing
    if why:
        raise dtable.Undecidable("%s: %s of a bucket without '%s' on the path %s - cannot be decided: %s"
                                 % (fn.nloc(c), op, what, dtable.fmt_val(val) or "(unconditional)", "; ".join(why[:3])))
    if op == "insert":
        ck.violation("RADIX-COUPLED", fn.qname, fn.name + ":insert", "insertion into a bucket without: %s (path: %s)" % (what, dtable.fmt_val(val) or "unconditional"), fn.nloc(c))
    else:
        ck.violation("RADIX-COUPLED", fn.qname, fn.name + ":" + op,
                     "a bucket is emptied without keeping filled_/mins_/size_ in step: %s (path: %s)" % (what, dtable.fmt_val(val) or "unconditional"), fn.nloc(c))


def check_radix_coupled(ck, tu):
    fns = [f for f in tu.find(record=RH)]
    ck.require(fns, "RadixHeap not instantiated")
    n_ins = n_del = 0
    for fn in fns:
        tag = "%s::%s" % (inst_tag(fn), fn.name)
        sites = []
        for x in ir.walk(fn.body):
            c = match.call_named(x, ("push_back", "emplace_back", "pop_back", "clear", "swap")) if "callee" in x else None
            if not (c and c.get("member_call") and kids(c)):
                continue
            idx = bucket_of(fn, kids(c)[0])
            if idx is None:
                continue
            op = c["callee"]["name"]
            if op in ("push_back", "emplace_back"):
                sites.append((c, idx, "insert"))
            elif fn.name != "clear":
                sites.append((c, idx, op))
        for c, idx, op in sites:
            if op == "insert":
                n_ins += 1
            else:
                n_del += 1
            ck.guarded(lambda c=c, idx=idx, op=op: radix_site(ck, tu, fn, tag, c, idx, op))
    return n_ins, n_del


PURE_FREE = ("min", "max", "move", "forward", "size", "begin", "end", "cbegin", "cend", "get", "addressof", "distance")


def field_aliases(fn):
    """decl id -> field name for local references / pointers / range-for variables that stand for (an element of) a field of *this"""
    out = {}

    def root_field(e):
        base = strip_casts(e)
        while base is not None:
            f = match.this_field(base)
            if f:
                return f
            if base["k"] == "DeclRefExpr" and base["ref"]["id"] in out:
                return out[base["ref"]["id"]]
            p = match.index_parts(base)
            if p:
                base = strip_casts(p[0])
                continue
            d = match.deref_of(base)
            if d is not None:
                base = strip_casts(d)
                continue
            if base["k"] == "UnaryOperator" and base.get("op") == "&" and kids(base):
                base = strip_casts(kids(base)[0])
                continue
            if "callee" in base and base.get("member_call") and kids(base) and base["callee"]["name"] in ("begin", "end", "data", "front", "back", "at"):
                base = strip_casts(kids(base)[0])
                continue
            b = match.binop(base, ("+", "-"))
            if b:
                base = strip_casts(b[1])
                continue
            return None
        return None
    for _ in range(3):
        for x in ir.walk(fn.body):
            if x["k"] == "VarDecl" and kids(x) and kids(x)[0] is not None and x.get("did") not in out:
                ty = (x.get("ty") or "").rstrip()
                if x.get("isref") or ty.endswith(("&", "*")) or "iterator" in ty:
                    f = root_field(kids(x)[0])
                    if f:
                        out[x["did"]] = f
            if x["k"] == "CXXForRangeStmt" and len(kids(x)) >= 2 and kids(x)[1] is not None and kids(x)[1].get("did") not in out:
                f = root_field(kids(x)[0])
                v = kids(x)[1]
                if f and (v.get("isref") or (v.get("ty") or "").rstrip().endswith("&")):
                    out[v["did"]] = f
    return out, root_field


def node_writes(tu, fn, x, aliases, root_field, depth, seen, opaque):
    """fields of *this that the node x of fn may write (see written_fields)"""
    out = set()
    b = match.binop(x)
    if b and b[0] in ("=", "+=", "-=", "|=", "&=", "*=", "/=", "^=", "<<=", ">>=", "%="):
        f = root_field(b[1])
        if f:
            out.add(f)
    u = match.unop(x, ("++", "--"))
    if u and root_field(u[1]) and not (strip_casts(u[1])["k"] == "DeclRefExpr"):
        out.add(root_field(u[1]))
    if "callee" in x and x.get("member_call") and kids(x):
        obj = strip_casts(kids(x)[0])
        f = root_field(obj)
        if f and not x["callee"].get("const"):
            out.add(f)
        if obj["k"] == "This":
            cal = tu.by_did.get(x["callee"]["did"])
            if cal is not None and cal.body is not None:
                out |= written_fields(tu, cal, depth + 1, seen, opaque)
            elif opaque is not None and not x["callee"].get("const"):
                opaque.append("%s() at line %s (body not available)" % (x["callee"]["name"], x.get("l")))
    fa = fill_of(fn, x)
    if fa and root_field(fa[0]):
        out.add(root_field(fa[0]))
    if x["k"] == "CXXForRangeStmt":
        f = match.this_field(kids(x)[0])
        if f and any("callee" in y and y.get("member_call") and not y["callee"].get("const") for y in ir.walk(kids(x)[2])):
            out.add(f)
    if opaque is not None:
        if x["k"] == "LambdaExpr":
            opaque.append("lambda at line %s" % x.get("l"))
        if "callee" in x and not x.get("member_call") and not x.get("op") and x["k"] not in ("CXXConstructExpr", "CXXTemporaryObjectExpr") \
                and x["callee"]["name"] not in PURE_FREE and not match.fill_all(x):
            # a free function that receives a field (or something derived from it) by reference may write it
            if any(y["k"] == "This" or (y["k"] == "DeclRefExpr" and y["ref"]["id"] in aliases) for a_ in kids(x) for y in ir.walk(a_)):
                opaque.append("%s(...) at line %s" % (x["callee"]["name"], x.get("l")))
    return out


def written_fields(tu, fn, depth=0, seen=None, opaque=None):
    """fields of *this written by fn, directly or through member calls on this / on fields (also through local references
    to them).  `opaque`, if given, collects descriptions of operations whose effect on the fields is not understood."""
    seen = seen if seen is not None else set()
    if fn.did in seen or depth > 4:
        return set()
    seen.add(fn.did)
    out = set()
    aliases, root_field = field_aliases(fn)
    for x in ir.walk(fn.body):
        out |= node_writes(tu, fn, x, aliases, root_field, depth, seen, opaque)
    return out


# ---------------------------------------------------------------- values of never-written locals
ALL = "*"
_ASSIGN_OPS = ("=", "+=", "-=", "|=", "&=", "*=", "/=", "^=", "<<=", ">>=", "%=")
_VALUE_OPS = ("[]", "+", "-", "*", "/", "%", "<", ">", "<=", ">=", "==", "!=", "&&", "||", "!", "<<", ">>", "&", "|", "^")
ACCESSORS = ("back", "front", "begin", "end", "cbegin", "cend", "rbegin", "rend", "data", "at", "size", "empty", "capacity")
PURE_IN_INIT = ("size", "empty", "back", "front", "at", "data", "begin", "end", "parent", "left", "not_present", "min", "max", "top")


def local_facts(fn):
    """(decl id -> VarDecl with an initialiser, ids of the locals / parameters that may change after their initialisation:
    assigned, stepped, address taken, bound to a non-const reference, handed to a function that may take them by
    reference, touched by a lambda; range-for variables)"""
    got = getattr(fn, "_c13_local_facts", None)
    if got is not None:
        return got
    decls, mutable = {}, set()
    for y in fn.nodes():
        k = y["k"]
        if k == "VarDecl" and y.get("did") is not None:
            if kids(y) and kids(y)[0] is not None:
                decls.setdefault(y["did"], y)
                ty = (y.get("ty") or "").rstrip()
                if (y.get("isref") or ty.endswith(("&", "*"))) and not ty.startswith("const ") and ref_of(kids(y)[0]) is not None:
                    mutable.add(ref_of(kids(y)[0]))
            par = fn.parent(y)
            if par is not None and par["k"] == "CXXForRangeStmt":
                mutable.add(y["did"])
        if k == "CXXForRangeStmt":
            for c in kids(y)[:2]:
                if c is not None and c["k"] == "VarDecl":
                    mutable.add(c.get("did"))
        b = match.binop(y)
        if b and b[0] in _ASSIGN_OPS and strip_casts(b[1]) is not None and strip_casts(b[1])["k"] == "DeclRefExpr":
            mutable.add(ref_of(b[1]))
        u = match.unop(y, ("++", "--"))
        if u and ref_of(u[1]) is not None:
            mutable.add(ref_of(u[1]))
        if k == "UnaryOperator" and y.get("op") == "&" and kids(y) and ref_of(kids(y)[0]) is not None:
            mutable.add(ref_of(kids(y)[0]))
        if k == "LambdaExpr":
            mutable |= {z["ref"]["id"] for z in fn.nodes() if z["k"] == "DeclRefExpr"}
        if "callee" in y and not y.get("op") and y["callee"]["name"] not in ("min", "max"):
            cal = fn.tu.by_did.get(y["callee"].get("did"))
            args = kids(y)[1:] if y.get("member_call") else kids(y)
            for i, a in enumerate(args):
                s = a
                while s is not None and s["k"] in CASTS and kids(s) and s.get("cast") == "NoOp":
                    s = kids(s)[0]
                if s is None or s["k"] != "DeclRefExpr":
                    continue            # a converted value: no reference to the variable itself is passed
                pty = (cal.params[i].get("ty") or "").rstrip() if cal is not None and i < len(cal.params) else None
                if pty is None or (pty.endswith(("&", "*")) and not pty.startswith("const ")):
                    mutable.add(s["ref"]["id"])
    mutable.discard(None)
    for did, d in decls.items():
        ty = (d.get("ty") or "").rstrip()
        if ty.startswith("const ") and not ty.endswith(("&", "*")):
            mutable.discard(did)        # a const object cannot change
    fn._c13_local_facts = (decls, mutable)
    return fn._c13_local_facts


def init_reads(e):
    """(fields of *this, locals / parameters) that a side-effect free expression reads (ALL among the fields: any of them);
    None if e is not understood to be side-effect free"""
    fields, locs = set(), set()

    def rec(y):
        if y is None:
            return True
        k = y["k"]
        if k == "This":
            fields.add(ALL)
            return True
        if k == "MemberExpr" and match.this_field(y):
            fields.add(y["member"])
            return True
        if k == "DeclRefExpr":
            if y["ref"].get("kind") in ("local", "param"):
                locs.add(y["ref"]["id"])
                return True
            return const_int(y) is not None
        if "callee" in y:
            if y["k"] in ("CXXConstructExpr", "CXXTemporaryObjectExpr"):
                return False
            if not (y.get("op") in _VALUE_OPS or (not y.get("op") and (y["callee"]["name"] in PURE_IN_INIT or (y.get("member_call") and y["callee"].get("const"))))):
                return False
        elif k in ("BinaryOperator",):
            if y.get("op") not in _VALUE_OPS and y.get("op") != ",":
                return False
        elif k == "UnaryOperator":
            if y.get("op") not in ("-", "+", "!", "~", "*"):
                return False
        elif k not in CASTS + ("ConditionalOperator", "ArraySubscriptExpr", "ParenExpr", "MemberExpr", "IntegerLiteral", "CXXBoolLiteralExpr",
                               "CharacterLiteral", "UnaryExprOrTypeTraitExpr", "DefaultArg"):
            return False
        return all(rec(c) for c in kids(y))
    return (fields, locs) if rec(e) else None


def field_writers(tu, fn):
    """[(node, fields of *this it may write; ALL = any)] for the nodes of fn"""
    got = getattr(fn, "_c13_writers", None)
    if got is None:
        got = []
        aliases, root_field = field_aliases(fn)
        for x in ir.walk(fn.body):
            opaque = []
            w = node_writes(tu, fn, x, aliases, root_field, 0, set(), opaque)
            if opaque:
                w = w | {ALL}
            if match.call_named(x, ("swap", "iter_swap")) and "callee" in x and not x.get("member_call") and len(kids(x)) == 2 \
                    and all(root_field(a) for a in kids(x)):
                w = {root_field(a) for a in kids(x)}        # std::swap(f[i], g.back()) exchanges elements of these fields, nothing else
            if "callee" in x and x.get("member_call") and kids(x) and strip_casts(kids(x)[0])["k"] != "This" and x["callee"]["name"] in ACCESSORS:
                continue                # hands out a reference / iterator; a write through it is seen where it happens
            if w:
                got.append((x, w))
        fn._c13_writers = got
    return got


def written_between(tu, fn, g, fields, pa, pb, skip=()):
    """a node that may write one of the fields on a path from CFG position pa to pb (both exclusive), else None"""
    for w, fs in field_writers(tu, fn):
        if not (ALL in fs or ALL in fields or fs & fields) or any(same_node(w, s_) for s_ in skip):
            continue
        pw = g.pos_deep(w)
        if pw is None or (g.reachable(pa, pw) and g.reachable(pw, pb)):
            return w
    return None


def resolve_at(tu, fn, g, e, at, depth=0):
    """e with never-written locals replaced by their initialisers, where the initialiser evaluated at CFG position `at`
    (the place where e is evaluated) still yields the value of the local: it is side-effect free, the locals it reads
    never change and no field it reads can be written between the declaration and `at`"""
    if e is None or at is None or depth > 3:
        return e
    decls, mutable = local_facts(fn)
    mapping = {}
    for y in ir.walk(e):
        if y["k"] != "DeclRefExpr" or y["ref"].get("kind") != "local":
            continue
        did = y["ref"]["id"]
        if did in mapping or did in mutable or did not in decls:
            continue
        d = decls[did]
        ty = (d.get("ty") or "").rstrip()
        if d.get("isref") or ty.endswith(("&", "*")):
            continue
        r = init_reads(kids(d)[0])
        pd = g.pos_deep(d)
        if r is None or pd is None or (r[1] & mutable):
            continue
        if not (pd == at or g.reachable(pd, at)):
            continue
        if r[0] and written_between(tu, fn, g, r[0], pd, at) is not None:
            continue
        mapping[did] = kids(d)[0]
    if not mapping:
        return e
    return resolve_at(tu, fn, g, dtable._subst(e, mapping), at, depth + 1)


def same_value(tu, fn, g, a, pa, b, pb):
    """a evaluated at CFG position pa and b evaluated at pb denote the same value: the same expression, or the same after
    never-written locals were replaced by their initialisers (resolve_at) and nothing the result reads changes between
    the two places"""
    if match.same_expr(a, b):
        return True
    if pa is None or pb is None:
        return False
    ra, rb = resolve_at(tu, fn, g, a, pa), resolve_at(tu, fn, g, b, pb)
    if not match.same_expr(ra, rb):
        return False
    r = init_reads(ra)
    if r is None or (r[1] & local_facts(fn)[1]):
        return False
    if not r[0]:
        return True
    return written_between(tu, fn, g, r[0], pa, pb) is None and written_between(tu, fn, g, r[0], pb, pa) is None


def container_of(fn, e):
    """the container whose elements e[...] denotes: e itself, or what a never-written local reference / pointer /
    iterator e was bound to (auto& c = x; T* p = x.data(); auto it = x.begin(); T* p = &x[0])"""
    s = strip_casts(e)
    if s is None or s["k"] != "DeclRefExpr" or s["ref"].get("kind") != "local":
        return e
    decls, mutable = local_facts(fn)
    d = decls.get(s["ref"]["id"])
    if d is None or s["ref"]["id"] in mutable:
        return e
    ty = (d.get("ty") or "").rstrip()
    init = match.strip_conv(kids(d)[0])
    if d.get("isref") or ty.endswith("&"):
        return init if init is not None and (init["k"] == "MemberExpr" or init["k"] == "DeclRefExpr") else e
    c = match.call_named(init, ("data", "begin"))
    if c is not None and c.get("member_call") and len(kids(c)) == 1:
        return kids(c)[0]
    if init is not None and init["k"] == "UnaryOperator" and init.get("op") == "&" and kids(init):
        ip = match.index_parts(kids(init)[0])
        if ip and const_int(ip[1]) == 0:
            return ip[0]
    return e


def fill_of(fn, n):
    """match.fill_all, and the counting loop written through a local alias of the container:
    T* p = c.data(); for (i = 0; i < c.size(); ++i) p[i] = v;   (also auto& r = c / c.begin() / &c[0])"""
    fa = match.fill_all(n)
    if fa or n is None or n["k"] != "ForStmt":
        return fa
    init, cond, inc, body = match.loop_parts(n)
    stmts = [s for s in (kids(body) if body is not None and body["k"] == "CompoundStmt" else [body]) if s is not None]
    var = [y for y in ir.walk(init) if y["k"] == "VarDecl"] if init is not None else []
    c = match.binop(cond, ("<", "!=")) if cond is not None else None
    if not (len(var) == 1 and kids(var[0]) and const_int(kids(var[0])[0]) == 0 and c and ref_of(c[1]) == var[0]["did"] and len(stmts) == 1):
        return None
    did = var[0]["did"]
    u = match.unop(inc, ("++",)) if inc is not None else None
    bi = match.binop(inc, ("+=",)) if inc is not None else None
    if not ((u and ref_of(u[1]) == did) or (bi and ref_of(bi[1]) == did and const_int(bi[2]) == 1)):
        return None
    sz = match.call_named(match.strip_conv(c[2]), ("size",))
    b = match.binop(stmts[0], ("=",))
    ip = match.index_parts(b[1]) if b else None
    if sz is None or not sz.get("member_call") or len(kids(sz)) != 1 or not ip or ref_of(ip[1]) != did:
        return None
    if any(y["k"] == "DeclRefExpr" and y["ref"]["id"] == did for y in ir.walk(b[2])):
        return None
    ca, cb = container_of(fn, ip[0]), container_of(fn, kids(sz)[0])
    if match.same_expr(ca, cb) and strip_casts(ca)["k"] in ("MemberExpr", "DeclRefExpr"):
        return ca, b[2]
    return None


def check_build_replaces(ck, tu, rec):
    """build_heap() replaces the heap's contents: no element is appended to heap_ on a path that has not emptied or
    overwritten it first"""
    RESET = ("assign", "clear", "resize", "operator=", "swap")
    APPEND = ("push_back", "emplace_back", "insert", "emplace")
    SIZING = ("resize", "assign")

    def sizing(r):
        """the reset gives heap_ a size of the caller's choosing: resize(n) / assign(n, v) / heap_ = vector(n [, v])"""
        if r["callee"]["name"] in SIZING:
            return True
        b = match.binop(r, ("=",))
        v = strip_casts(b[2]) if b else None
        if v is not None and v["k"] in ("CXXConstructExpr", "CXXTemporaryObjectExpr") and v["callee"]["name"] == "vector":
            args = [a for a in kids(v) if a is not None and a["k"] != "DefaultArg"]
            aty = (args[0].get("ty") or "").replace("const ", "").strip() if args else ""
            return len(args) in (1, 2) and aty in BITS
        return False
    for fn in tu.find(name="build_heap", record=rec):
        def one(fn=fn):
            g = cfgm.CFG(fn)
            resets, appends, writes, delegates, other = [], [], [], [], []
            for z in fn.nodes():
                if "callee" not in z:
                    continue
                nm = z["callee"]["name"]
                on_heap = z.get("member_call") and kids(z) and match.this_field(kids(z)[0]) == "heap_"
                if z["k"] == "CXXOperatorCallExpr" and z.get("op") == "=" and kids(z) and match.this_field(kids(z)[0]) == "heap_":
                    resets.append(z)
                elif on_heap and nm in RESET:
                    resets.append(z)
                elif on_heap and nm in APPEND:
                    appends.append(z)
                elif nm in ("back_inserter", "inserter", "front_inserter") and kids(z) and match.this_field(kids(z)[0]) == "heap_":
                    appends.append(z)
                elif nm in ("copy", "move", "copy_n", "uninitialized_copy") and any(
                        match.this_field(kids(q)[0]) == "heap_" for a in kids(z) for q in ir.walk(a)
                        if "callee" in q and q["callee"]["name"] == "begin" and q.get("member_call") and kids(q)):
                    writes.append(z)
                elif z.get("member_call") and kids(z) and strip_casts(kids(z)[0])["k"] == "This":
                    cal = tu.by_did.get(z["callee"].get("did"))
                    if nm == "build_heap" and cal is not None and cal.did != fn.did:
                        delegates.append(z)
                    elif nm == "clear" and cal is not None and cal.body is not None and "heap_" in written_fields(tu, cal):
                        resets.append(z)
                    elif nm != "heapify" and (cal is None or cal.body is None or "heap_" in written_fields(tu, cal)):
                        other.append(z)
                elif on_heap and not z["callee"].get("const") and nm not in ("begin", "end", "reserve", "data", "size", "empty", "capacity", "front", "back", "operator[]", "at"):
                    other.append(z)
            tag = "%s::build_heap(%s)" % (rec.split("::")[-1], fn.params[0]["ty"].replace("std::", "")[:30])
            bad = None
            pres = [g.pos_deep(r) for r in resets if g.pos_deep(r) is not None]
            for a in appends:
                pa = g.pos_deep(a)
                if pa is not None and g.path_from_entry_avoiding(pa, pres) is not None:
                    bad = a            # evidence: a path from the entry reaches the append without emptying heap_
            # a sized overwrite needs resize(source size) in front of the copy
            for w in writes:
                pw = g.pos_deep(w)
                sized = [g.pos_deep(r) for r in resets if sizing(r) and g.pos_deep(r) is not None]
                if pw is None:
                    raise dtable.Undecidable("%s: position of the copy into heap_ not found in the CFG" % fn.nloc(w))
                if g.path_from_entry_avoiding(pw, sized) is None:
                    continue
                unsized = [r for r in resets if not sizing(r) and r["callee"]["name"] != "clear" and g.pos_deep(r) is not None and
                           (g.reachable(g.pos_deep(r), pw))]
                if unsized or other or delegates:
                    raise dtable.Undecidable("%s: keys are copied over heap_.begin(); cannot tell whether heap_ has the size of the source at that point (%s)"
                                             % (fn.nloc(w), dtable.describe((unsized or other or delegates)[0])[:60]))
                bad = bad or w         # evidence: on a path to the copy heap_ still has its old size (or none)
            if bad is not None:
                ck.violation("BUILD-REPLACES", fn.qname, tag, "build_heap() adds the new keys to heap_ without discarding what it held (%s): a heap that was "
                             "used before keeps its old elements" % dtable.describe(bad)[:70], fn.nloc(bad))
            elif delegates and not (appends or writes):
                ck.ok("BUILD-REPLACES", tag, "delegates to another build_heap() overload")
            elif not (resets or appends or writes):
                # nothing recognised that stores the keys: a finding only if nothing else touches heap_ either
                touch = [y for y in fn.nodes() if y["k"] == "MemberExpr" and match.this_field(y) == "heap_"]
                if touch or other:
                    raise dtable.Undecidable("%s: the way build_heap() stores the keys into heap_ is not understood (line %s)"
                                             % (fn.loc, (touch or other)[0].get("l")))
                ck.violation("BUILD-REPLACES", fn.qname, tag + ":none", "build_heap() never stores the keys into heap_", fn.loc)
            else:
                ck.ok("BUILD-REPLACES", tag, "heap_ is replaced (%s)" % ", ".join(sorted({(r.get("callee") or {}).get("name", "=") for r in resets})))
        ck.guarded(one)


def check_clear_complete(ck, tu, rec, const_fields=(), method="clear"):
    clears = tu.find(name=method, record=rec)
    for cl in clears:
        def one(cl=cl):
            mut = set()
            for fn in tu.find(record=rec):
                if fn.rtargs != cl.rtargs or fn.kind in ("ctor", "dtor") or fn.name == method:
                    continue
                if fn.d.get("copy_assign") or fn.d.get("move_assign"):
                    continue
                mut |= written_fields(tu, fn)
            mut -= set(const_fields)
            opaque = []
            got = written_fields(tu, cl, opaque=opaque)
            miss = sorted(mut - got)
            if miss and opaque:
                # "clear() does not touch the field" is only established if everything clear() does is understood
                raise dtable.Undecidable("%s: %s() is not seen to re-establish %s, but it contains an operation whose effect is not understood: %s"
                                         % (cl.loc, method, ", ".join(miss), opaque[0]))
            if miss:
                ck.violation("CLEAR-COMPLETE", cl.qname, "missing:" + ",".join(miss),
                             "%s() does not re-establish %s, which the mutators change: the next use starts from stale state" % (method, ", ".join(miss)), cl.loc)
            else:
                ck.ok("CLEAR-COMPLETE", inst_tag(cl) + "::" + method, "resets all %d mutable state fields (%s)" % (len(mut), ",".join(sorted(mut))))
        ck.guarded(one)


def check_rank(ck, tu):
    """(not part of run(): IntegerRank is enforced by the library's own static_asserts)  rank_of_int / int_at_rank are the
    identity for unsigned types and the sign-bit flip for signed ones"""
    for fn in tu.find(name="rank_of_int"):
        inv = [f for f in tu.find(name="int_at_rank") if f.rtargs == fn.rtargs]
        if not inv or fn.body is None or inv[0].body is None:
            continue
        signed = not fn.rtargs[0].startswith("unsigned")

        def xors(f):
            return [y for y in ir.walk(f.body) if match.binop(y, ("^",)) and strip_casts(y)["k"] == "BinaryOperator"]
        a, b = xors(fn), xors(inv[0])
        ident = None
        for y in ir.walk(fn.body):
            if y["k"] == "ConditionalOperator":
                ident = const_int(kids(y)[0])
        if ident is None:
            raise dtable.Undecidable("%s: rank_of_int is not of the form  identity ? cast(i) : cast(i) ^ sign_bit" % fn.loc)
        wrong = None
        if bool(ident) != (not signed):
            wrong = "the %s branch is selected for a %s type" % ("identity" if ident else "sign-bit flip", "signed" if signed else "unsigned")
        elif signed:
            bits = 8 * {"int": 4, "long": 8, "long long": 8, "short": 2, "signed char": 1, "char": 1}.get(fn.rtargs[0], 0)
            if len(a) != 1 or len(b) != 1 or not bits:
                raise dtable.Undecidable("%s: sign-bit flip of rank_of_int / int_at_rank not understood" % fn.loc)
            for f, xs in ((fn, a), (inv[0], b)):
                sb = [const_int(z) for z in kids(strip_casts(xs[0])) if const_int(z) is not None]
                if not sb:
                    raise dtable.Undecidable("%s: constant of the sign-bit flip not evaluated" % f.loc)
                if (1 << (bits - 1)) not in sb:
                    wrong = "%s flips with %#x instead of the sign bit %#x" % (f.name, sb[0], 1 << (bits - 1))
        if wrong is None:
            ck.ok("RANK-TABLE", "IntegerRank<%s>" % fn.rtargs[0], "identity for unsigned / sign-bit flip for signed, inverse uses the same constant")
        else:
            ck.violation("RANK-TABLE", fn.qname, fn.rtargs[0].replace(" ", "_"), "key ranking is not the order-preserving sign-bit flip: " + wrong, fn.loc)


BITS = {"unsigned char": 8, "signed char": 8, "char": 8, "unsigned short": 16, "short": 16, "unsigned int": 32, "int": 32, "unsigned": 32,
        "unsigned long": 64, "long": 64, "unsigned long long": 64, "long long": 64}


def check_clz_width(ck, tu):
    """`W - 1 - clz(v)` is the index of the highest set bit only if W is the bit width of the type clz() actually sees
    (after integer promotion), in every instantiation"""
    n = 0
    for fn in tu.functions:
        if fn.body is None or not fn.qname.startswith("tlx::radix_heap_detail::"):
            continue
        for z in fn.nodes():
            if "callee" not in z or z["callee"]["name"] != "clz":
                continue
            par = fn.parent(z)
            while par is not None and par["k"] in ("ImplicitCastExpr", "ParenExpr", "CXXStaticCastExpr"):
                par = fn.parent(par)
            if par is None or par["k"] != "BinaryOperator" or par.get("op") != "-":
                continue
            width_m1 = const_int(kids(par)[0])
            argty = ((z["callee"].get("targs") or [None])[0] or (strip_casts(kids(z)[0]).get("ty") or "")).replace("const ", "")
            bits = BITS.get(argty)
            if width_m1 is None or bits is None:
                raise dtable.Undecidable("%s: width of the clz() operand not understood (%s, %s)" % (fn.nloc(z), width_m1, argty))
            n += 1
            tag = "%s<%s>" % (fn.record.split("::")[-1], ",".join(fn.rtargs or []))
            if width_m1 != bits - 1:
                ck.violation("CLZ-WIDTH", fn.qname, "%s:%d-vs-%d" % (tag, width_m1, bits),
                             "the highest differing bit is computed as %d - clz(v), but clz() operates on %s (%d bits, after integer promotion of the "
                             "narrow key type): the bit index is off by %d and wraps, the bucket index leaves the bucket array"
                             % (width_m1, argty, bits, bits - 1 - width_m1), fn.nloc(z))
            else:
                ck.ok("CLZ-WIDTH", tag, "%d - clz(%s)" % (width_m1, argty))
    return n


def run(ck):
    ck.explanation = (
        "DAryHeap / DAryAddressableIntHeap: every comparator call in sift_up, sift_down and heapify is classified by the roles of its "
        "operands (hole value, parent, child - derived from index-variable provenance) and its decision is tabulated: the smaller child is "
        "selected, the hole sinks iff a child is strictly smaller and rises iff the value is strictly smaller than the parent; left()/parent() "
        "are evaluated as index arithmetic and must be mutually inverse (a parent index that is written out instead is evaluated too: every "
        "division in the heap's member functions must be (x-1)/arity). Addressable heap: every store into heap_ keeps handles_ in step "
        "(or a full re-index loop follows), wholesale replacement of heap_ resets the old handles first, the handles_ growth bound covers "
        "every key. RadixHeap: every insertion into / emptying of a bucket updates the filled_ bit, mins_ and size_ together; clear() / clear_all() reset "
        "every mutable state field; build_heap() replaces the contents (BUILD-REPLACES); the bit-index arithmetic of the bucket computation uses the width "
        "of the type clz() really sees, for 8..64-bit keys (CLZ-WIDTH). Heap order over histories and the bucket arithmetic are not decided.")
    arities = ["2"] if ck.tier == "quick" else ["2", "5"]
    # each rule instance runs guarded: one that cannot be decided (exit 2 in the end) does not hide what the others find
    for ar in arities:
        tu = ir.extract("witness/C13_heaps.cpp", defines=["WITNESS_ARITY=" + ar])
        for rec in (DH, AH):
            for fn in tu.find(record=rec):
                if fn.name in ("sift_up", "sift_down", "heapify"):
                    ck.guarded(lambda fn=fn: check_decisions(ck, fn))
            ck.guarded(lambda rec=rec: check_index_inverse(ck, tu, rec))
        for fn in tu.find(record=AH):
            if fn.kind in ("ctor", "dtor") or fn.d.get("const"):
                continue
            ck.guarded(lambda fn=fn: check_handle_coupled(ck, fn))
            ck.guarded(lambda fn=fn: check_handle_reset(ck, fn))
            if fn.name == "heapify":
                ck.guarded(lambda fn=fn: check_handle_grow(ck, fn))
        ck.guarded(lambda: check_clear_complete(ck, tu, AH))
        ck.guarded(lambda: check_radix_coupled(ck, tu))
        ck.guarded(lambda: check_clear_complete(ck, tu, RH))
        ck.guarded(lambda: check_clear_complete(ck, tu, "tlx::radix_heap_detail::BitArrayRecursive", method="clear_all"))
        ck.guarded(lambda: check_build_replaces(ck, tu, "tlx::DAryHeap"))
        ck.guarded(lambda: check_build_replaces(ck, tu, AH))
        ck.guarded(lambda: ck.require(check_clz_width(ck, tu) >= 4, "the bucket computation of the radix heap (clz of the key difference) was not found for the narrow key types"))
    m = len(arities)
    ck.floor("HEAP-DECISION", 12 * m)
    ck.floor("INDEX-INVERSE", 4 * m)
    ck.floor("HANDLE-COUPLED", 10 * m)
    ck.floor("HANDLE-RESET", 8 * m)
    ck.floor("HANDLE-GROW", 2 * m)
    ck.floor("RADIX-COUPLED", 10 * m)
    ck.floor("CLEAR-COMPLETE", 6 * m)
    ck.floor("BUILD-REPLACES", 6 * m)
