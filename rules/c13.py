"""C13 — heaps: comparison-site decisions (sift/heapify), index arithmetic,
handle table coupling / reset / growth, radix-heap bucket coupling, clear completeness."""
from engine import ir, dtable, match, cfg as cfgm
from engine.ir import kids, strip_casts, const_int, ref_of

DH = "tlx::DAryHeap"
AH = "tlx::DAryAddressableIntHeap"
RH = "tlx::RadixHeap"


def inst_tag(fn):
    return "%s<%s>" % (fn.record.split("::")[-1], ",".join(a.split("::")[-1][:24] for a in fn.rtargs))


# ---------------------------------------------------------------- index roles
def heap_index(e):
    """index expression if e is this->heap_[i] (through std::move)"""
    e = strip_casts(e)
    c = match.call_named(e, ("move",))
    if c:
        e = strip_casts(kids(c)[-1])
    p = match.index_parts(e)
    if p and match.this_field(p[0]) == "heap_":
        return p[1]
    return None


def this_call(e, names):
    c = match.call_named(e, names)
    if c and c.get("member_call") and strip_casts(kids(c)[0])["k"] == "This":
        return c
    return None


def index_roles(fn):
    """decl id -> 'hole' | 'parent' | 'child' for the index variables of a sift/heapify function"""
    roles = {}
    value_var = None
    # the hole: value = move(heap_[H])
    for x in ir.walk(fn.body):
        if x["k"] == "VarDecl" and kids(x):
            hi = heap_index(kids(x)[0])
            if hi is not None and ref_of(hi) is not None and value_var is None:
                value_var = x["did"]
                roles[ref_of(hi)] = "hole"
    changed = True
    guard = 0
    while changed and guard < 10:
        changed = False
        guard += 1
        for x in ir.walk(fn.body):
            tgt, src = None, None
            if x["k"] == "VarDecl" and kids(x):
                tgt, src = x["did"], kids(x)[0]
            else:
                b = match.binop(x, ("=",))
                if b and ref_of(b[1]) is not None and strip_casts(b[1])["k"] == "DeclRefExpr":
                    tgt, src = ref_of(b[1]), b[2]
            if tgt is None or tgt in roles:
                continue
            r = None
            c = this_call(src, ("parent",))
            if c and roles.get(ref_of(kids(c)[1])) == "hole":
                r = "parent"
            c = this_call(src, ("left",))
            if c and roles.get(ref_of(kids(c)[1])) == "hole":
                r = "child"
            if r is None:
                s = strip_casts(src)
                if roles.get(ref_of(s)) == "child":
                    r = "child"
                bb = match.binop(s, ("+",))
                if bb and roles.get(ref_of(bb[1])) == "child" and const_int(bb[2]) is not None:
                    r = "child"
            if r:
                roles[tgt] = r
                changed = True
    return roles, value_var


def operand_role(e, roles, value_var):
    if ref_of(e) == value_var and strip_casts(e)["k"] == "DeclRefExpr":
        return "value", None
    hi = heap_index(e)
    if hi is not None and ref_of(hi) in roles:
        return roles[ref_of(hi)], ref_of(hi)
    return None, None


def check_decisions(ck, fn):
    roles, value_var = index_roles(fn)
    ck.require(value_var is not None, "%s: hole element not found" % fn.loc)
    tag = "%s::%s" % (inst_tag(fn), fn.name)
    sites = 0
    bad = False
    for x in ir.walk(fn.body):
        fc = match.functor_call(x) if "callee" in x else None
        if not (fc and match.this_field(fc[0]) == "cmp_" and len(fc[1]) == 2):
            continue
        (r1, v1), (r2, v2) = operand_role(fc[1][0], roles, value_var), operand_role(fc[1][1], roles, value_var)
        if r1 is None or r2 is None:
            raise dtable.Undecidable("%s: comparator operands not understood: %s" % (fn.nloc(x), dtable.describe(x)))
        sites += 1
        # controlling construct
        node, par = x, fn.parent(x)
        while par is not None and par["k"] not in ("IfStmt", "WhileStmt", "ForStmt", "DoStmt"):
            node, par = par, fn.parent(par)
        ck.require(par is not None, "%s: comparison without controlling statement" % fn.nloc(x))
        if (r1, r2) == ("child", "child"):
            # select the smaller child: if (cmp(heap_[a], heap_[b])) b = a;
            okk = False
            if par["k"] == "IfStmt":
                for y in ir.walk(kids(par)[1]):
                    b = match.binop(y, ("=",))
                    if b and ref_of(b[1]) == v2 and ref_of(b[2]) == v1:
                        okk = True
            if not okk:
                ck.violation("HEAP-DECISION", fn.qname, "%s:select" % fn.name,
                             "child selection does not keep the smaller child: cmp(heap_[a], heap_[b]) must lead to b = a (%s)" % dtable.describe(par if par["k"] != "IfStmt" else kids(par)[0]), fn.nloc(x))
                bad = True
            continue
        pair = {("child", "value"): ("sink", False), ("value", "child"): ("sink", True),
                ("parent", "value"): ("rise", True), ("value", "parent"): ("rise", False)}.get((r1, r2))
        if pair is None:
            raise dtable.Undecidable("%s: unexpected comparison roles %s/%s" % (fn.nloc(x), r1, r2))
        kind, swapped = pair
        # decision value as a function of the two orientations
        cond = kids(par)[0] if par["k"] in ("IfStmt", "WhileStmt") else (kids(par)[1] if par["k"] in ("ForStmt", "DoStmt") else None)

        def atomize(n, run, fn=fn):
            f2 = match.functor_call(n) if "callee" in n else None
            if f2 and match.this_field(f2[0]) == "cmp_" and len(f2[1]) == 2:
                a, _ = operand_role(f2[1][0], roles, value_var)
                b, _ = operand_role(f2[1][1], roles, value_var)
                return ("cmp(%s,%s)" % (a, b), False)
            b = match.binop(n, (">", "<", "<=", ">=", "!=", "=="))
            if b and strip_casts(n)["k"] == "BinaryOperator":
                return ("aux:" + dtable.describe(n), False)
            return None
        leaves = dtable.explore(cond, atomize, fn, as_expr=True)
        other, val = ("child" if kind == "sink" else "parent"), "value"
        a_small = "cmp(%s,%s)" % (other, val)       # the other element is strictly smaller than value
        a_large = "cmp(%s,%s)" % (val, other)
        atoms = [a for a in dtable.atoms_of(leaves)]
        for a in (a_small, a_large):
            if a not in atoms:
                atoms.append(a)
        # what does a true condition mean: move or stop?
        if par["k"] == "IfStmt":
            t, e = kids(par)[1], kids(par)[2]
            then_stops = t is not None and any(y["k"] in ("BreakStmt", "ReturnStmt") for y in ir.walk(t))
            then_moves = t is not None and any(heap_index(match.binop(y, ("=",))[1]) is not None for y in ir.walk(t) if match.binop(y, ("=",)))
            if then_stops == then_moves:
                raise dtable.Undecidable("%s: cannot tell whether the branch moves or stops" % fn.nloc(par))
            true_moves = then_moves
        else:
            true_moves = True
        for v, lf in dtable.table(leaves, lambda v: not (v.get(a_small) and v.get(a_large)), atoms):
            if any(k.startswith("aux:") and not val_ for k, val_ in v.items()):
                continue          # auxiliary range conditions false: no decision taken
            moves = lf["result"] == true_moves
            if kind == "sink":
                req, forb = v[a_small], v[a_large]     # child < value: must sink; value < child: must not
            else:
                req, forb = v[a_large], v[a_small]     # value < parent: must rise; parent < value: must not
            if (req and not moves) or (forb and moves):
                ck.violation("HEAP-DECISION", fn.qname, "%s:%s:%s" % (fn.name, kind, dtable.fmt_val({k: x_ for k, x_ in v.items() if not k.startswith("aux:")})),
                             "%s decision wrong: hole %s although %s" % (kind, "moves" if moves else "stays",
                             ("the value is strictly smaller than the %s" % other) if (kind == "rise") == req else
                             ("the %s is strictly smaller than the value" % other) if kind == "sink" and req else "the order forbids it"), fn.nloc(x))
                bad = True
                break
    ck.require(sites >= 2 or fn.name == "sift_up", "%s: too few comparison sites (%d)" % (fn.loc, sites))
    if not bad:
        ck.ok("HEAP-DECISION", tag, "%d comparison sites: smaller child selected, hole sinks iff child<value / rises iff value<parent (ties free)" % sites)


# ---------------------------------------------------------------- index arithmetic
def eval_arith(e, env):
    e = strip_casts(e)
    c = const_int(e)
    if c is not None and e["k"] != "DeclRefExpr":
        return c
    if e["k"] == "DeclRefExpr":
        if e["ref"]["id"] in env:
            return env[e["ref"]["id"]]
        if c is not None:
            return c
    if e["k"] == "MemberExpr" and c is not None:
        return c
    b = match.binop(e, ("+", "-", "*", "/", ">>", "<<"))
    if b:
        l, r = eval_arith(b[1], env), eval_arith(b[2], env)
        if l is None or r is None:
            return None
        return {"+": l + r, "-": l - r, "*": l * r, "/": l // r if r else None, ">>": l >> r, "<<": l << r}[b[0]]
    return None


def check_index_inverse(ck, tu, rec):
    lefts = tu.find(name="left", record=rec)
    for lf in lefts:
        pf = [f for f in tu.find(name="parent", record=rec) if f.rtargs == lf.rtargs]
        ck.require(len(pf) == 1, "%s: parent() of the same instantiation not found" % lf.loc)
        pf = pf[0]
        arity = int(lf.rtargs[1].rstrip("UuLl"))
        le = kids([x for x in ir.walk(lf.body) if x["k"] == "ReturnStmt"][0])[0]
        pe = kids([x for x in ir.walk(pf.body) if x["k"] == "ReturnStmt"][0])[0]
        okall = True
        for k in range(0, 40):
            l = eval_arith(le, {lf.params[0]["did"]: k})
            if l is None:
                raise dtable.Undecidable("%s: left() is not plain index arithmetic" % lf.loc)
            want = arity * k + 1
            for j in range(arity):
                p = eval_arith(pe, {pf.params[0]["did"]: l + j})
                if p is None:
                    raise dtable.Undecidable("%s: parent() is not plain index arithmetic" % pf.loc)
                if p != k or l != want:
                    ck.violation("INDEX-INVERSE", lf.qname, "arity=%d" % arity,
                                 "left(%d)=%s, parent(%d)=%s: children of node k must be arity*k+1..arity*k+arity and parent their inverse" % (k, l, l + j, p), lf.loc)
                    okall = False
                    break
            if not okall:
                break
        if okall:
            ck.ok("INDEX-INVERSE", inst_tag(lf), "parent(left(k)+j) == k for k<40, j<%d; left(k) == %d*k+1" % (arity, arity))


# ---------------------------------------------------------------- handle table
def handles_store(x):
    """(key_expr, value_expr) if x is handles_[K] = V"""
    b = match.binop(x, ("=",))
    if b:
        p = match.index_parts(b[1])
        if p and match.this_field(p[0]) == "handles_":
            return p[1], b[2]
    return None


def heap_store(x):
    """(index_expr, value_expr) if x is heap_[I] = V"""
    b = match.binop(x, ("=",))
    if b and strip_casts(b[1])["k"] != "DeclRefExpr":
        hi = heap_index(b[1])
        if hi is not None:
            return hi, b[2]
    return None


def is_not_present(e):
    e = strip_casts(e)
    return bool(match.call_named(e, ("not_present",)))


def stmt_list(fn):
    """all statements in source order with their enclosing compound (for adjacency tests)"""
    out = []
    for x in ir.walk(fn.body):
        if x["k"] == "CompoundStmt":
            ch = [c for c in kids(x) if c is not None]
            # split comma expressions
            flat = []
            for c in ch:
                b = match.binop(c, (",",))
                if b and strip_casts(c)["k"] == "BinaryOperator":
                    flat += [b[1], b[2]]
                else:
                    flat.append(c)
            out.append(flat)
    return out


def check_handle_coupled(ck, fn):
    """every store heap_[I] = V is adjacent to handles_[heap_[I] | V] = I, unless a full re-index loop post-dominates"""
    stores = [(x, heap_store(x)) for x in ir.walk(fn.body) if heap_store(x)]
    swaps = [x for x in ir.walk(fn.body) if match.call_named(x, ("swap",)) and any(heap_index(a) is not None or match.call_named(a, ("back", "front")) for a in kids(x))]
    pushes = [x for x in ir.walk(fn.body) if match.call_named(x, ("push_back", "emplace_back")) and match.this_field(kids(x)[0]) == "heap_"]
    if not stores and not swaps and not pushes:
        return
    tag = "%s::%s/%s" % (inst_tag(fn), fn.name, ",".join(p["ty"][-12:] for p in fn.params))
    # full re-index: for (i in [0, heap_.size())) handles_[heap_[i]] = i
    reindex = None
    for l in match.loops_in(fn.body):
        if l["k"] != "ForStmt":
            continue
        init, cond, inc, body = match.loop_parts(l)
        var = [y["did"] for y in ir.walk(init) if y["k"] == "VarDecl" and kids(y) and const_int(kids(y)[0]) == 0]
        b = match.binop(cond, ("<", "!="))
        full = bool(var and b and ref_of(b[1]) == var[0] and match.call_named(b[2], ("size",)) and match.this_field(kids(strip_casts(b[2]))[0]) == "heap_")
        for y in ir.walk(body):
            hs = handles_store(y)
            if hs and full:
                hk = heap_index(hs[0])
                if hk is not None and ref_of(hk) == var[0] and ref_of(hs[1]) == var[0]:
                    reindex = l
    if reindex is not None:
        g = cfgm.CFG(fn)
        pl = g.pos_deep(reindex)
        late = [x for x, _ in stores if g.pos(x) and pl and g.reachable(pl, g.pos(x)) and not g.reachable(g.pos(x), pl)]
        if late:
            ck.violation("HANDLE-COUPLED", fn.qname, fn.name + ":store-after-reindex", "heap_ is modified after the handle table was rebuilt", fn.nloc(late[0]))
        else:
            ck.ok("HANDLE-COUPLED", tag, "%d heap_ stores followed by a full re-index loop over [0, heap_.size())" % len(stores))
        return
    bad = False
    g = cfgm.CFG(fn)
    for x, (idx, val) in stores:
        # handles_ stores that record position idx for the key now at heap_[idx] (or for the stored value itself)
        v = strip_casts(val)
        mv = match.call_named(v, ("move",))
        vv = kids(mv)[-1] if mv else v
        after, before = [], []
        for y in ir.walk(fn.body):
            hs = handles_store(y)
            if not hs or not match.same_expr(hs[1], idx):
                continue
            hk = heap_index(hs[0])
            if hk is not None and match.same_expr(hk, idx):
                after.append(y)              # handles_[heap_[idx]] = idx: meaningful once the store has happened
            elif match.same_expr(hs[0], vv):
                after.append(y)              # handles_[value] = idx: meaningful on either side of the store
                before.append(y)
        px = g.pos_deep(x)
        pa = [g.pos_deep(y) for y in after if g.pos_deep(y) is not None]
        pb = [g.pos_deep(y) for y in before if g.pos_deep(y) is not None]
        okk = px is not None and ((pa and g.path_avoiding(px, pa) is None) or (pb and g.path_from_entry_avoiding(px, pb) is None))
        if not okk:
            ck.violation("HANDLE-COUPLED", fn.qname, fn.name + ":store:" + dtable.describe(idx),
                         "heap_[%s] is overwritten and a path to the exit does not record the new position of that key in handles_" % dtable.describe(idx), fn.nloc(x))
            bad = True
    for x in swaps:
        # swap(heap_[h], heap_.back()): the key now at h needs handles_[heap_[h]] = h, the key at the back is about to leave
        a = kids(x)
        idxs = [heap_index(e) for e in a]
        for idx in [i for i in idxs if i is not None]:
            okk = any(handles_store(y) and heap_index(handles_store(y)[0]) is not None and match.same_expr(heap_index(handles_store(y)[0]), idx)
                      and match.same_expr(handles_store(y)[1], idx) for y in ir.walk(fn.body))
            if not okk:
                ck.violation("HANDLE-COUPLED", fn.qname, fn.name + ":swap", "after the swap the key moved to heap_[%s] keeps its old handle" % dtable.describe(idx), fn.nloc(x))
                bad = True
    for x in pushes:
        key = kids(x)[-1]
        mv = match.call_named(key, ("move",))
        key = kids(mv)[-1] if mv else key
        okk = False
        for y in ir.walk(fn.body):
            hs = handles_store(y)
            if hs and match.same_expr(hs[0], key):
                sz = match.call_named(hs[1], ("size",))
                if sz is None:
                    sz = match.call_named(match.strip_conv(hs[1]), ("size",))
                okk = okk or bool(sz and match.this_field(kids(strip_casts(sz))[0]) == "heap_")
        if not okk:
            ck.violation("HANDLE-COUPLED", fn.qname, fn.name + ":push", "a key is appended to heap_ without handles_[key] = its position", fn.nloc(x))
            bad = True
    # removal: pop_back must mark the leaving key not present
    pops = [x for x in ir.walk(fn.body) if match.call_named(x, ("pop_back",)) and match.this_field(kids(x)[0]) == "heap_"]
    for x in pops:
        okk = False
        for y in ir.walk(fn.body):
            hs = handles_store(y)
            if hs and is_not_present(hs[1]):
                k = strip_casts(hs[0])
                bk = match.call_named(k, ("back",))
                if bk and match.this_field(kids(bk)[0]) == "heap_":
                    okk = True
        if not okk:
            ck.violation("HANDLE-COUPLED", fn.qname, fn.name + ":pop", "the key leaving heap_ is not marked not_present in handles_", fn.nloc(x))
            bad = True
    if not bad:
        ck.ok("HANDLE-COUPLED", tag, "%d stores, %d swaps, %d pushes, %d pops keep handles_ in step" % (len(stores), len(swaps), len(pushes), len(pops)))


def check_handle_reset(ck, fn):
    """wholesale replacement of heap_ needs the handles of the old contents reset first"""
    repl = []
    for x in ir.walk(fn.body):
        c = match.call_named(x, ("assign", "clear", "resize", "swap")) if "callee" in x else None
        if c and c.get("member_call") and match.this_field(kids(c)[0]) == "heap_":
            repl.append(c)
        b = match.binop(x, ("=",))
        if b and match.this_field(b[1]) == "heap_" and strip_casts(b[1])["k"] == "MemberExpr":
            repl.append(x)
    if not repl:
        return
    tag = "%s::%s/%s" % (inst_tag(fn), fn.name, ",".join(p["ty"][-14:] for p in fn.params))
    g = cfgm.CFG(fn)
    first = min((g.pos_deep(r) for r in repl if g.pos_deep(r)), key=lambda p: (p[0] != g.entry, ), default=None)
    resets = []
    for x in ir.walk(fn.body):
        fa = match.fill_all(x)
        if fa and match.this_field(fa[0]) == "handles_" and is_not_present(fa[1]):
            resets.append(x)
        c = match.call_named(x, ("assign",)) if "callee" in x else None
        if c and c.get("member_call") and match.this_field(kids(c)[0]) == "handles_" and any(is_not_present(a) for a in kids(c)):
            resets.append(c)
        c = this_call(x, ("clear",)) if "callee" in x else None
        if c:
            resets.append(c)
        # per-key reset loop over the old contents
        if x["k"] in ("ForStmt", "CXXForRangeStmt"):
            for y in ir.walk(x):
                hs = handles_store(y)
                if hs and is_not_present(hs[1]):
                    resets.append(x)
    okk = False
    for r in resets:
        pr = g.pos_deep(r)
        if pr and all(g.pos_deep(x) and g.dominates(pr, g.pos_deep(x)) for x in repl):
            okk = True
    if okk:
        ck.ok("HANDLE-RESET", tag, "handles of the previous contents are reset before heap_ is replaced")
    else:
        ck.violation("HANDLE-RESET", fn.qname, ("%s/%s" % (fn.name, ",".join(p["ty"][-14:] for p in fn.params))).replace(" ", ""),
                     "heap_ is replaced wholesale but the handles of the keys it held stay set: contains() keeps reporting removed keys", fn.nloc(repl[0]))


def check_handle_grow(ck, fn):
    """heapify: the bound used to grow handles_ must depend on the heap contents on every path with a non-empty heap"""
    rs = [x for x in ir.walk(fn.body) if match.call_named(x, ("resize",)) and "callee" in x and match.this_field(kids(x)[0]) == "handles_"]
    ck.require(len(rs) == 1, "%s: handles_.resize not found in heapify" % fn.loc)
    bound_vars = [y["ref"]["id"] for y in ir.walk(kids(rs[0])[1]) if y["k"] == "DeclRefExpr" and y["ref"]["kind"] == "local"]
    ck.require(bound_vars, "%s: resize bound does not use a local maximum" % fn.loc)
    mv = bound_vars[0]
    decl = [x for x in ir.walk(fn.body) if x["k"] == "VarDecl" and x["did"] == mv]
    ck.require(decl and kids(decl[0]), "%s: maximum variable without initialiser" % fn.loc)
    init = kids(decl[0])[0]
    reads_heap = any((match.call_named(y, ("front", "back")) and "callee" in y and match.this_field(kids(y)[0]) == "heap_") or
                     (heap_index(y) is not None and y["k"] != "MemberExpr") for y in ir.walk(init))
    # is the update loop guarded by a size condition that can be false for a non-empty heap?
    guarded = [x for x in kids(fn.body) if x["k"] == "IfStmt" and any(ref_of(match.binop(y, ("=",))[1]) == mv for y in ir.walk(x) if match.binop(y, ("=",)))]
    if guarded and not reads_heap:
        ck.violation("HANDLE-GROW", fn.qname, "single-element",
                     "on the path that skips the sift loop (one element) the bound for handles_.resize does not include that element: out-of-bounds handle write", fn.nloc(decl[0]))
        return
    # every element visited by the loop feeds the maximum: value and all children
    upd = [y for y in ir.walk(fn.body) if match.binop(y, ("=",)) and ref_of(match.binop(y, ("=",))[1]) == mv]
    fed = set()
    roles, value_var = index_roles(fn)
    for y in list(upd) + [z for z in ir.walk(fn.body) if z["k"] == "IfStmt"]:
        eu = match.extreme_update(y, "max")
        if not eu or ref_of(eu[0]) != mv:
            continue
        r, v = operand_role(eu[1], roles, value_var)
        if r:
            fed.add((r, v))
    kinds = set(r for r, _ in fed)
    if not {"value", "child"} <= kinds:
        ck.violation("HANDLE-GROW", fn.qname, "coverage", "the maximum key does not take every visited element into account (needs the hole value and all children)", fn.loc)
        return
    ck.ok("HANDLE-GROW", inst_tag(fn) + "::heapify", "resize bound = max over root/hole values and all children; single-element path reads heap_.front()")


# ---------------------------------------------------------------- radix heap
def bucket_index(e):
    """index expr if e is this->buckets_data_[i]"""
    p = match.index_parts(e)
    if p and match.this_field(p[0]) == "buckets_data_":
        return p[1]
    return None


def with_helpers(tu, fn):
    """nodes of fn's body, plus the nodes of the private helpers of the same class that fn calls on *this (one level), each
    with the substitution {helper parameter id: argument expression at the call}"""
    out = [(y, None) for y in ir.walk(fn.body)]
    for c in ir.walk(fn.body):
        if "callee" in c and c.get("member_call") and kids(c) and strip_casts(kids(c)[0])["k"] == "This":
            cal = tu.by_did.get(c["callee"]["did"])
            if cal is None or cal.body is None or cal.did == fn.did or cal.record != fn.record:
                continue
            sub = {p["did"]: a for p, a in zip(cal.params, kids(c)[1:])}
            out += [(y, sub) for y in ir.walk(cal.body)]
    return out


def same_through(e, idx, sub):
    """e (possibly a helper's parameter standing for the caller's argument) denotes the same expression as idx"""
    d = ref_of(e)
    if sub and d is not None and d in sub:
        return match.same_expr(sub[d], idx)
    return match.same_expr(e, idx)


def check_radix_coupled(ck, tu):
    fns = [f for f in tu.find(record=RH)]
    ck.require(fns, "RadixHeap not instantiated")
    n_ins = n_del = 0
    for fn in fns:
        tag = "%s::%s" % (inst_tag(fn), fn.name)
        g = None
        # insertion sites
        for x in ir.walk(fn.body):
            c = match.call_named(x, ("push_back", "emplace_back")) if "callee" in x else None
            if not (c and c.get("member_call")):
                continue
            idx = bucket_index(kids(c)[0])
            if idx is None:
                continue
            n_ins += 1
            g = g or cfgm.CFG(fn)
            pc = g.pos(c)
            # (1) set_bit(idx) guarded by buckets_data_[idx].empty() on the way
            sb = [y for y in ir.walk(fn.body) if "callee" in y and match.call_named(y, ("set_bit",)) and match.this_field(kids(y)[0]) == "filled_"
                  and match.same_expr(kids(y)[1], idx)]
            ok1 = False
            for y in sb:
                par = fn.parent(y)
                while par is not None and par["k"] != "IfStmt":
                    par = fn.parent(par)
                if par is not None:
                    cnd = match.call_named(kids(par)[0], ("empty",))
                    if cnd and bucket_index(kids(strip_casts(cnd))[0]) is not None and match.same_expr(bucket_index(kids(strip_casts(cnd))[0]), idx) \
                            and g.pos(y) and g.reachable(g.pos(y), pc):
                        ok1 = True
            # (2) mins_[idx] lowered to the new key: if (mins_[idx] > key) mins_[idx] = key  |  mins_[idx] = std::min(mins_[idx], key)
            ok2 = False
            for y in ir.walk(fn.body):
                eu = match.extreme_update(y, "min") if y["k"] in ("IfStmt", "BinaryOperator", "CXXOperatorCallExpr") else None
                if eu:
                    p = match.index_parts(eu[0])
                    if p and match.this_field(p[0]) == "mins_" and match.same_expr(p[1], idx):
                        ok2 = True
            # (3) size accounting: ++size_ unless elements are only moved between buckets
            moving = fn.name.startswith("reorganize")
            ok3 = moving or any((match.field_delta(y, "size_") or ("", 0))[0] == "+" for y in ir.walk(fn.body))
            if ok1 and ok2 and ok3:
                ck.ok("RADIX-COUPLED", tag + " insert", "set_bit iff bucket was empty, mins_ lowered, size_ %s" % ("unchanged (move)" if moving else "incremented"))
            else:
                what = [w for w, o in (("filled_ bit set when the bucket was empty", ok1), ("mins_[idx] lowered to the new key", ok2), ("size_ incremented", ok3)) if not o]
                ck.violation("RADIX-COUPLED", fn.qname, fn.name + ":insert", "insertion into a bucket without: " + "; ".join(what), fn.nloc(c))
        # emptying sites
        for x in ir.walk(fn.body):
            c = match.call_named(x, ("pop_back", "clear", "swap")) if "callee" in x else None
            if not (c and c.get("member_call")):
                continue
            tgt = strip_casts(kids(c)[0])
            idx = bucket_index(tgt)
            local_alias = None
            if idx is None and tgt["k"] == "DeclRefExpr":
                # reference alias: auto& data_source = buckets_data_[i]
                d = [y for y in ir.walk(fn.body) if y["k"] == "VarDecl" and y["did"] == tgt["ref"]["id"] and kids(y)]
                if d:
                    idx = bucket_index(kids(d[0])[0])
                    local_alias = d[0]
            if idx is None:
                continue
            if fn.name == "clear":
                continue
            n_del += 1
            scope = with_helpers(tu, fn)
            cb = [y for y, sub in scope if "callee" in y and match.call_named(y, ("clear_bit",)) and match.this_field(kids(y)[0]) == "filled_"
                  and same_through(kids(y)[1], idx, sub)]
            cb_here = [y for y in cb if fn.byid(y["id"]) is y]
            okb = bool(cb)
            if c["callee"]["name"] == "pop_back":
                # clear_bit only if the bucket became empty; --size_
                okb = okb and any((match.field_delta(y, "size_") or ("", 0))[0] == "-" for y in ir.walk(fn.body))
                cnd_ok = False
                for y in cb_here:
                    par = fn.parent(y)
                    while par is not None and par["k"] != "IfStmt":
                        par = fn.parent(par)
                    if par is not None and match.call_named(kids(par)[0], ("empty",)):
                        cnd_ok = True
                okb = okb and cnd_ok
            elif c["callee"]["name"] == "swap":
                okb = okb and any((match.field_delta(y, "size_") or ("", 0))[0] == "-" for y in ir.walk(fn.body))
            else:
                # clear of a drained bucket: its minimum must be reset too
                okm = False
                for y, sub in scope:
                    b = match.binop(y, ("=",))
                    if b:
                        p = match.index_parts(b[1])
                        if p and match.this_field(p[0]) == "mins_" and same_through(p[1], idx, sub) and match.call_named(b[2], ("max",)):
                            okm = True
                okb = okb and okm
            if okb:
                ck.ok("RADIX-COUPLED", tag + " " + c["callee"]["name"], "filled_ bit / mins_ / size_ follow the bucket")
            else:
                ck.violation("RADIX-COUPLED", fn.qname, fn.name + ":" + c["callee"]["name"],
                             "a bucket is emptied without keeping filled_/mins_/size_ in step", fn.nloc(c))
    return n_ins, n_del


def written_fields(tu, fn, depth=0, seen=None):
    """fields of *this written by fn, directly or through member calls on this / on fields"""
    seen = seen if seen is not None else set()
    if fn.did in seen or depth > 4:
        return set()
    seen.add(fn.did)
    out = set()
    for x in ir.walk(fn.body):
        b = match.binop(x)
        if b and b[0] in ("=", "+=", "-=", "|=", "&="):
            base = strip_casts(b[1])
            while True:
                f = match.this_field(base)
                if f:
                    out.add(f)
                    break
                p = match.index_parts(base)
                if p:
                    base = strip_casts(p[0])
                    continue
                break
        u = match.unop(x, ("++", "--"))
        if u and match.this_field(u[1]):
            out.add(match.this_field(u[1]))
        if "callee" in x and x.get("member_call"):
            obj = strip_casts(kids(x)[0])
            f = match.this_field(obj)
            # element of a member container: children_[i].set_bit(...)
            base = obj
            while f is None and match.index_parts(base):
                base = strip_casts(match.index_parts(base)[0])
                f = match.this_field(base)
            if f and not x["callee"].get("const"):
                out.add(f)
            if obj["k"] == "This":
                cal = tu.by_did.get(x["callee"]["did"])
                if cal is not None:
                    out |= written_fields(tu, cal, depth + 1, seen)
        fa = match.fill_all(x)
        if fa and match.this_field(fa[0]):
            out.add(match.this_field(fa[0]))
        if x["k"] == "CXXForRangeStmt":
            f = match.this_field(kids(x)[0])
            if f and any("callee" in y and y.get("member_call") and not y["callee"].get("const") for y in ir.walk(kids(x)[2])):
                out.add(f)
    return out


def check_build_replaces(ck, tu, rec):
    """build_heap() replaces the heap's contents: no element is appended to heap_ on a path that has not emptied or
    overwritten it first"""
    RESET = ("assign", "clear", "resize", "operator=", "swap")
    APPEND = ("push_back", "emplace_back", "insert", "emplace")
    for fn in tu.find(name="build_heap", record=rec):
        g = cfgm.CFG(fn)
        resets, appends, writes = [], [], []
        for z in fn.nodes():
            if "callee" not in z:
                continue
            nm = z["callee"]["name"]
            on_heap = z.get("member_call") and kids(z) and match.this_field(kids(z)[0]) == "heap_"
            if z["k"] == "CXXOperatorCallExpr" and z.get("op") == "=" and kids(z) and match.this_field(kids(z)[0]) == "heap_":
                resets.append(z)
            elif on_heap and nm in RESET:
                resets.append(z)
            elif on_heap and nm in APPEND:
                appends.append(z)
            elif nm in ("back_inserter", "inserter", "front_inserter") and kids(z) and match.this_field(kids(z)[0]) == "heap_":
                appends.append(z)
            elif nm in ("copy", "move", "copy_n", "uninitialized_copy") and any(
                    match.this_field(kids(q)[0]) == "heap_" for a in kids(z) for q in ir.walk(a)
                    if "callee" in q and q["callee"]["name"] == "begin" and q.get("member_call") and kids(q)):
                writes.append(z)
        tag = "%s::build_heap(%s)" % (rec.split("::")[-1], fn.params[0]["ty"].replace("std::", "")[:30])
        bad = None
        for a in appends:
            pa = g.pos_deep(a)
            if pa is not None and g.path_from_entry_avoiding(pa, [g.pos_deep(r) for r in resets if g.pos_deep(r) is not None]) is not None:
                bad = a
        # a sized overwrite needs resize(source size) in front of the copy
        for w in writes:
            pw = g.pos_deep(w)
            if not any(r["callee"]["name"] == "resize" and g.dominates(g.pos_deep(r), pw) for r in resets if "callee" in r):
                bad = bad or w
        if bad is not None:
            ck.violation("BUILD-REPLACES", fn.qname, tag, "build_heap() adds the new keys to heap_ without discarding what it held (%s): a heap that was "
                         "used before keeps its old elements" % dtable.describe(bad)[:70], fn.nloc(bad))
        elif not (resets or appends or writes):
            ck.violation("BUILD-REPLACES", fn.qname, tag + ":none", "build_heap() never stores the keys into heap_", fn.loc)
        else:
            ck.ok("BUILD-REPLACES", tag, "heap_ is replaced (%s)" % ", ".join(sorted({(r.get("callee") or {}).get("name", "=") for r in resets})))


def check_clear_complete(ck, tu, rec, const_fields=(), method="clear"):
    clears = tu.find(name=method, record=rec)
    for cl in clears:
        mut = set()
        for fn in tu.find(record=rec):
            if fn.rtargs != cl.rtargs or fn.kind in ("ctor", "dtor") or fn.name == method:
                continue
            if fn.d.get("copy_assign") or fn.d.get("move_assign"):
                continue
            mut |= written_fields(tu, fn)
        mut -= set(const_fields)
        got = written_fields(tu, cl)
        miss = sorted(mut - got)
        if miss:
            ck.violation("CLEAR-COMPLETE", cl.qname, "missing:" + ",".join(miss),
                         "%s() does not re-establish %s, which the mutators change: the next use starts from stale state" % (method, ", ".join(miss)), cl.loc)
        else:
            ck.ok("CLEAR-COMPLETE", inst_tag(cl) + "::" + method, "resets all %d mutable state fields (%s)" % (len(mut), ",".join(sorted(mut))))


def check_rank(ck, tu):
    for fn in tu.find(name="rank_of_int"):
        inv = [f for f in tu.find(name="int_at_rank") if f.rtargs == fn.rtargs]
        if not inv:
            continue
        signed = not fn.rtargs[0].startswith("unsigned")
        rec = tu.record(fn.record, None) if False else None
        # structural: both are  use_identity_ ? cast(x) : cast(x) ^ sign_bit_   (xor on the same constant)
        def xors(f):
            return [y for y in ir.walk(f.body) if match.binop(y, ("^",)) and strip_casts(y)["k"] == "BinaryOperator"]
        a, b = xors(fn), xors(inv[0])
        ident = None
        for y in ir.walk(fn.body):
            if y["k"] == "ConditionalOperator":
                ident = const_int(kids(y)[0])
        okk = ident is not None and bool(ident) == (not signed) and (not signed or (len(a) == 1 and len(b) == 1))
        if signed and a:
            bits = 8 * {"int": 4, "long": 8, "long long": 8, "short": 2, "signed char": 1, "char": 1}.get(fn.rtargs[0], 0)
            sb = [const_int(z) for z in kids(strip_casts(a[0])) if const_int(z) is not None]
            okk = okk and bits and (1 << (bits - 1)) in sb
        if okk:
            ck.ok("RANK-TABLE", "IntegerRank<%s>" % fn.rtargs[0], "identity for unsigned / sign-bit flip for signed, inverse uses the same constant")
        else:
            ck.violation("RANK-TABLE", fn.qname, fn.rtargs[0].replace(" ", "_"), "key ranking is not the order-preserving sign-bit flip", fn.loc)


BITS = {"unsigned char": 8, "signed char": 8, "char": 8, "unsigned short": 16, "short": 16, "unsigned int": 32, "int": 32, "unsigned": 32,
        "unsigned long": 64, "long": 64, "unsigned long long": 64, "long long": 64}


def check_clz_width(ck, tu):
    """`W - 1 - clz(v)` is the index of the highest set bit only if W is the bit width of the type clz() actually sees
    (after integer promotion), in every instantiation"""
    n = 0
    for fn in tu.functions:
        if fn.body is None or not fn.qname.startswith("tlx::radix_heap_detail::"):
            continue
        for z in fn.nodes():
            if "callee" not in z or z["callee"]["name"] != "clz":
                continue
            par = fn.parent(z)
            while par is not None and par["k"] in ("ImplicitCastExpr", "ParenExpr", "CXXStaticCastExpr"):
                par = fn.parent(par)
            if par is None or par["k"] != "BinaryOperator" or par.get("op") != "-":
                continue
            width_m1 = const_int(kids(par)[0])
            argty = ((z["callee"].get("targs") or [None])[0] or (strip_casts(kids(z)[0]).get("ty") or "")).replace("const ", "")
            bits = BITS.get(argty)
            if width_m1 is None or bits is None:
                raise dtable.Undecidable("%s: width of the clz() operand not understood (%s, %s)" % (fn.nloc(z), width_m1, argty))
            n += 1
            tag = "%s<%s>" % (fn.record.split("::")[-1], ",".join(fn.rtargs or []))
            if width_m1 != bits - 1:
                ck.violation("CLZ-WIDTH", fn.qname, "%s:%d-vs-%d" % (tag, width_m1, bits),
                             "the highest differing bit is computed as %d - clz(v), but clz() operates on %s (%d bits, after integer promotion of the "
                             "narrow key type): the bit index is off by %d and wraps, the bucket index leaves the bucket array"
                             % (width_m1, argty, bits, bits - 1 - width_m1), fn.nloc(z))
            else:
                ck.ok("CLZ-WIDTH", tag, "%d - clz(%s)" % (width_m1, argty))
    return n


def run(ck):
    ck.explanation = (
        "DAryHeap / DAryAddressableIntHeap: every comparator call in sift_up, sift_down and heapify is classified by the roles of its "
        "operands (hole value, parent, child - derived from index-variable provenance) and its decision is tabulated: the smaller child is "
        "selected, the hole sinks iff a child is strictly smaller and rises iff the value is strictly smaller than the parent; left()/parent() "
        "are evaluated as index arithmetic and must be mutually inverse. Addressable heap: every store into heap_ keeps handles_ in step "
        "(or a full re-index loop follows), wholesale replacement of heap_ resets the old handles first, the handles_ growth bound covers "
        "every key. RadixHeap: every insertion into / emptying of a bucket updates the filled_ bit, mins_ and size_ together; clear() / clear_all() reset "
        "every mutable state field; build_heap() replaces the contents (BUILD-REPLACES); the bit-index arithmetic of the bucket computation uses the width "
        "of the type clz() really sees, for 8..64-bit keys (CLZ-WIDTH). Heap order over histories and the bucket arithmetic are not decided.")
    arities = ["2"] if ck.tier == "quick" else ["2", "5"]
    for ar in arities:
        tu = ir.extract("witness/C13_heaps.cpp", defines=["WITNESS_ARITY=" + ar])
        for rec in (DH, AH):
            for fn in tu.find(record=rec):
                if fn.name in ("sift_up", "sift_down", "heapify"):
                    check_decisions(ck, fn)
            check_index_inverse(ck, tu, rec)
        for fn in tu.find(record=AH):
            if fn.kind in ("ctor", "dtor") or fn.d.get("const"):
                continue
            check_handle_coupled(ck, fn)
            check_handle_reset(ck, fn)
            if fn.name == "heapify":
                check_handle_grow(ck, fn)
        check_clear_complete(ck, tu, AH)
        check_radix_coupled(ck, tu)
        check_clear_complete(ck, tu, RH)
        check_clear_complete(ck, tu, "tlx::radix_heap_detail::BitArrayRecursive", method="clear_all")
        check_build_replaces(ck, tu, "tlx::DAryHeap")
        check_build_replaces(ck, tu, AH)
        ck.require(check_clz_width(ck, tu) >= 4, "the bucket computation of the radix heap (clz of the key difference) was not found for the narrow key types")
    m = len(arities)
    ck.floor("HEAP-DECISION", 12 * m)
    ck.floor("INDEX-INVERSE", 4 * m)
    ck.floor("HANDLE-COUPLED", 10 * m)
    ck.floor("HANDLE-RESET", 8 * m)
    ck.floor("HANDLE-GROW", 2 * m)
    ck.floor("RADIX-COUPLED", 10 * m)
    ck.floor("CLEAR-COMPLETE", 6 * m)
    ck.floor("BUILD-REPLACES", 6 * m)
