"""C13 — heaps: comparison-site decisions (sift/heapify), index arithmetic, handle table coupling / reset / growth,
radix-heap bucket coupling, clear completeness, and the radix heap evaluated on a small model.

Rules
  HEAP-DECISION   every cmp_ call of sift_up / sift_down / heapify (both d-ary heaps) is tabulated: smaller child selected, the hole
                  sinks iff child < value, rises iff value < parent (ties free).
  INDEX-INVERSE   left() / parent() evaluated as index arithmetic: mutually inverse; written-out divisions are (x-1)/arity.
  HANDLE-COUPLED / HANDLE-RESET / HANDLE-GROW   handles_ follows every change of heap_, is reset before heap_ is replaced, grows
                  to cover every key (addressable heap).
  BUILD-REPLACES  build_heap() never appends to the old contents.
  CLEAR-COMPLETE  clear() / clear_all() write every field the mutators change (structural; the VALUE is CLEAR-STATE's).
  RADIX-COUPLED   every insertion into / emptying of a bucket has the filled_ bit, a mins_ update and a size_ step on every path
                  (structural; the VALUES are RADIX-VALUE's).  A comparison of the bucket's size() with a constant that separates 0
                  from all other sizes counts as the emptiness test; what a helper does on some of its paths only is a 'maybe'.
  CLZ-WIDTH       W - 1 - clz(v): W is the width of the type clz() really sees (an instantiation of the bucket computation that does not
                  go through clz() at all is covered by BUCKET-INDEX, which evaluated it).
  RANK-TABLE      IntegerRank<T>::rank_of_int evaluated for every instantiated T on 0, +-1, min, max, min+1, max-1 and the values around
                  the powers of two: rank_of_int(x) == x - min (the documented "number of smaller values", equivalently: strictly
                  monotone with rank_of_int(min) == 0); int_at_rank (where instantiated) is its inverse.
  BUCKET-INDEX    BucketComputation<Radix, Int>::operator()(x, limit) evaluated for every instantiation on limits and keys limit + d with
                  d, limit around the powers of the radix and the extremes of Int, against the documented bucket (0 for the limit itself,
                  else row * (Radix-1) + digit, row = highest radix digit in which x and the limit differ, digit = that digit of x).  A
                  result that differs is a violation if a necessary condition fails on the evaluated values: bucket < num_buckets,
                  monotone in the key, distinct keys in distinct first-row buckets, redistribution of a bucket under its minimum moves
                  every key to an earlier bucket and leaves the later buckets where they are; otherwise "cannot decide".
  RADIX-VALUE     histories of push / emplace / emplace_keyfirst / top / peak_top_key / pop / swap_top_bucket / clear are evaluated for
                  every RadixHeap instantiation on a model object; after every operation size_ == number of stored elements, filled_ ==
                  set of non-empty buckets, mins_[i] == smallest rank in bucket i (so an insertion makes mins_[idx] min(old, rank(key))
                  and size_ moves by exactly the number of elements inserted / removed).
  RADIX-ORDER     the same histories seen from outside: top() / peak_top_key() show the smallest key held, pop() removes exactly one and
                  swap_top_bucket() only elements with that key, nothing else is lost or duplicated, size() / empty() count; undefined
                  behaviour reached on the model (index outside an array, back() of an empty vector, a vector changed while a range-for
                  runs over it, shift by the width, find_lsb() of an empty BitArray) is reported here.  Keys include min, max, 0, +-1 of
                  the key type, equal keys, keys around the powers of the radix; histories are monotone (no key below the last minimum
                  shown), include clear() in the middle and re-use of a drained bucket.
  CLEAR-STATE     after clear() in the middle of a history every field of the model object equals what the constructor leaves.

The model (RxExec): the instantiated AST is interpreted on concrete values - integers with the C++ value semantics of an LP64 target
(every node carries its type: conversions wrap, unsigned arithmetic is modular, shifts are checked against the width), std::vector /
std::array / std::pair / BitArray as Python objects with their documented interface, member functions / IntegerRank / BucketComputation /
tlx::clz by evaluating their bodies, lambdas with their captures.  tlx is never compiled or run.  Anything the interpreter does not
model exactly is dtable.Undecidable.

Reporting policy: a violation needs positive evidence (a valuation of a decision table, a CFG path, an evaluated index, a concrete
argument / history with the value obtained and the value required) over constructs the rule understands completely.  Where a rule merely
fails to find the shape it expects, it raises dtable.Undecidable unless the absence holds in a closed world (every operation on the
state in question is classified)."""
from engine import ir, dtable, match, cfg as cfgm
from engine.ir import kids, strip_casts, const_int, ref_of

DH = "tlx::DAryHeap"
AH = "tlx::DAryAddressableIntHeap"
RH = "tlx::RadixHeap"

LOOPS = ("WhileStmt", "ForStmt", "DoStmt", "CXXForRangeStmt")
CASTS = ("ImplicitCastExpr", "CStyleCastExpr", "CXXStaticCastExpr", "CXXFunctionalCastExpr")
RVALUE_CASTS = ("IntegralCast", "IntegralToBoolean", "IntegralToFloating", "FloatingCast", "FloatingToIntegral", "LValueToRValue")
_NEG = {"<": ">=", ">": "<=", "<=": ">", ">=": "<", "==": "!=", "!=": "=="}


def inst_tag(fn):
    return "%s<%s>" % (fn.record.split("::")[-1], ",".join(a.split("::")[-1][:24] for a in fn.rtargs))


def same_node(a, b):
    return a is not None and b is not None and a.get("id") == b.get("id") and a["k"] == b["k"]


def inside(fn, x, root):
    """x is a node of the subtree root (by identity of the original nodes)"""
    return root is not None and any(y is x or same_node(y, x) for y in ir.walk(root))


def enclosing(fn, x, kinds):
    """(ancestor of one of the kinds, the child of it through which x is reached)"""
    node, par = x, fn.parent(x)
    while par is not None and par["k"] not in kinds:
        node, par = par, fn.parent(par)
    return par, node


# ---------------------------------------------------------------- tree normal form for the decision tables
def _is_empty_stmt(s):
    return s is None or s["k"] == "NullStmt" or (s["k"] == "CompoundStmt" and all(_is_empty_stmt(c) for c in kids(s)))


def _negate(c):
    """!c, folded into the relational operator where there is one"""
    s = strip_casts(c)
    if s is not None and s["k"] == "BinaryOperator" and s.get("op") in _NEG:
        out = dict(s)
        out["op"] = _NEG[s["op"]]
        return out
    if s is not None and s["k"] == "UnaryOperator" and s.get("op") == "!" and kids(s):
        return kids(s)[0]
    return {"k": "UnaryOperator", "op": "!", "id": -21, "ty": "bool", "l": (c or {}).get("l"), "ch": [c]}


def _assign_stmt(s):
    """statement position: `t = c ? a : b` becomes if (c) t = a; else t = b;  and `t = t` disappears"""
    if s is None:
        return None
    if s["k"] in ("BinaryOperator", "CXXOperatorCallExpr"):
        b = match.binop(s, ("=",))
        if b:
            r = strip_casts(b[2])
            if r is not None and r["k"] == "ConditionalOperator":
                c, x, y = kids(r)
                mk = lambda v: _assign_stmt(dict(s, ch=[b[1], v]))
                return _simplify_node({"k": "IfStmt", "id": s.get("id"), "l": s.get("l"), "f": s.get("f"), "ch": [c, mk(x), mk(y)]})
            if match.same_expr(b[1], b[2]):
                return {"k": "NullStmt", "id": s.get("id"), "l": s.get("l")}
    return s


def xu_of(n):
    """(which, target, other) if n raises/lowers target to other: t = std::max(t, o), or the node an if-form was folded into"""
    if n is None:
        return None
    if n.get("xu"):
        return n["xu"], kids(n)[0], kids(n)[1]
    for which in ("min", "max"):
        eu = match.extreme_update(n, which) if n["k"] in ("BinaryOperator", "CXXOperatorCallExpr", "IfStmt") else None
        if eu:
            return which, eu[0], eu[1]
    return None


def _simplify_node(n):
    k = n["k"]
    if k == "UnaryOperator" and n.get("op") == "!" and kids(n):
        s = strip_casts(kids(n)[0])
        if s is not None and s["k"] == "BinaryOperator" and s.get("op") in _NEG:
            return _negate(s)
    if k == "CompoundStmt":
        n["ch"] = [_assign_stmt(c) for c in kids(n)]
    if k in ("WhileStmt", "ForStmt", "DoStmt", "CXXForRangeStmt") and kids(n):
        parts = list(kids(n))
        bi = {"WhileStmt": 1, "ForStmt": 3, "DoStmt": 0, "CXXForRangeStmt": 2}[k]
        if bi < len(parts):
            parts[bi] = _assign_stmt(parts[bi])
            n["ch"] = parts
    if k == "IfStmt" and len(kids(n)) >= 3:
        c, t, e = kids(n)[:3]
        t, e = _assign_stmt(t), _assign_stmt(e)
        if _is_empty_stmt(t) and not _is_empty_stmt(e):
            c, t, e = _negate(c), e, None
        if _is_empty_stmt(e):
            e = None
        n["ch"] = [c, t, e]
        if e is None:
            for which in ("min", "max"):
                eu = match.extreme_update(n, which)
                if eu:
                    return {"k": "BinaryOperator", "op": "=", "id": n.get("id"), "l": n.get("l"), "f": n.get("f"), "ty": eu[0].get("ty"),
                            "xu": which, "ch": [eu[0], eu[1]]}
    return n


def simplify(n):
    """copy of a statement tree in a normal form for the decision tables: negations folded into relational operators, an
    empty then-branch swapped with its else-branch, conditional assignments turned into if/else, if-forms of min/max updates
    folded into one update node (see xu_of).  Node ids are kept, so positions and parents of the original still apply."""
    if n is None:
        return None
    out = dict(n)
    if "ch" in n:
        out["ch"] = [simplify(c) for c in n["ch"]]
    for key in ("init", "condvar"):
        if isinstance(n.get(key), dict):
            out[key] = simplify(n[key])
    return _simplify_node(out)


def base_atom(n):
    """atomize fallback: None for what the interpreter decomposes itself, an auxiliary (free) atom for everything else"""
    k = n["k"]
    if const_int(n) is not None or k in ("CXXBoolLiteralExpr", "IntegerLiteral", "ConditionalOperator"):
        return None
    if k == "UnaryOperator" and n.get("op") == "!":
        return None
    if k == "BinaryOperator" and n.get("op") in ("&&", "||", ","):
        return None
    if k in CASTS and kids(n) and n.get("cast") in ("IntegralToBoolean", "PointerToBoolean", "NoOp", "IntegralCast", "LValueToRValue"):
        return None
    if k == "DeclRefExpr" and (n.get("ty") or "").replace("const ", "") == "bool":
        return None
    return ("aux:" + dtable.describe(n), False)


def has_aux(val):
    return any(k.startswith("aux:") or k.startswith("flag:") for k in val)


def leaf_items(lf):
    """(kind, node) of a leaf's events in execution order: 'expr' | 'decl' | 'loop'"""
    return [(e[0], e[1]) for e in lf["events"] if e[0] in ("expr", "decl", "loop")]


def leaf_nodes(lf, loops=True):
    for kind, n in leaf_items(lf):
        if kind == "loop" and not loops:
            continue
        yield from ir.walk(n)


# ---------------------------------------------------------------- index roles
def heap_index(e):
    """index expression if e is this->heap_[i] (through std::move)"""
    e = strip_casts(e)
    c = match.call_named(e, ("move",))
    if c:
        e = strip_casts(kids(c)[-1])
    p = match.index_parts(e)
    if p and match.this_field(p[0]) == "heap_":
        return p[1]
    return None


def this_call(e, names):
    c = match.call_named(e, names)
    if c and c.get("member_call") and strip_casts(kids(c)[0])["k"] == "This":
        return c
    return None


def fn_arity(fn):
    try:
        return int(fn.rtargs[1].rstrip("UuLl"))
    except (IndexError, ValueError):
        return None


def expr_role(e, roles, fn=None):
    """'hole' | 'parent' | 'child' | None for an index expression, from the roles of the variables it is built from"""
    s = strip_casts(e)
    if s is None:
        return None
    if s["k"] == "DeclRefExpr":
        return roles.get(s["ref"]["id"])
    c = this_call(s, ("parent",))
    if c and len(kids(c)) > 1 and expr_role(kids(c)[1], roles, fn) == "hole":
        return "parent"
    c = this_call(s, ("left",))
    if c and len(kids(c)) > 1 and expr_role(kids(c)[1], roles, fn) == "hole":
        return "child"
    bb = match.binop(s, ("+",))
    if bb:
        for x, y in ((bb[1], bb[2]), (bb[2], bb[1])):
            if expr_role(x, roles, fn) == "child" and const_int(y) is not None:
                return "child"
    # written-out index arithmetic over the hole: (k - 1) / arity, arity * k + 1 + j
    ar = fn_arity(fn) if fn is not None else None
    loc = {y["ref"]["id"] for y in ir.walk(s) if y["k"] == "DeclRefExpr" and y["ref"].get("kind") in ("local", "param")}
    if ar and len(loc) == 1 and roles.get(next(iter(loc))) == "hole" and not any("callee" in y and not y.get("op") for y in ir.walk(s)):
        d = next(iter(loc))
        vals = [eval_arith(s, {d: k}) for k in range(1, 8)]
        if all(v is not None for v in vals):
            if all(v == (k - 1) // ar for v, k in zip(vals, range(1, 8))):
                return "parent"
            # exactly the first child: that is what left() yields and what the scan of the children starts from (the
            # further children are reached as child + constant, see above)
            if all(v == ar * k + 1 for v, k in zip(vals, range(1, 8))):
                return "child"
    return None


def index_roles(fn):
    """decl id -> 'hole' | 'parent' | 'child' for the index variables of a sift/heapify function"""
    roles = {}
    value_var = None
    # the hole: value = move(heap_[H])
    for x in ir.walk(fn.body):
        if x["k"] == "VarDecl" and kids(x):
            hi = heap_index(kids(x)[0])
            if hi is not None and ref_of(hi) is not None and value_var is None:
                value_var = x["did"]
                roles[ref_of(hi)] = "hole"
    changed = True
    guard = 0
    while changed and guard < 10:
        changed = False
        guard += 1
        for x in ir.walk(fn.body):
            tgt, src = None, None
            if x["k"] == "VarDecl" and kids(x):
                tgt, src = x["did"], kids(x)[0]
            else:
                b = match.binop(x, ("=",))
                if b and ref_of(b[1]) is not None and strip_casts(b[1])["k"] == "DeclRefExpr":
                    tgt, src = ref_of(b[1]), b[2]
            if tgt is None or tgt in roles:
                continue
            r = expr_role(src, roles, fn)
            if r in ("parent", "child"):
                roles[tgt] = r
                changed = True
    return roles, value_var


def operand_role(e, roles, value_var, fn=None):
    if ref_of(e) == value_var and strip_casts(e)["k"] == "DeclRefExpr":
        return "value", None
    hi = heap_index(e)
    if hi is not None and ref_of(hi) in roles:
        return roles[ref_of(hi)], ref_of(hi)
    if hi is not None and ref_of(hi) is None:
        r = expr_role(hi, roles, fn)
        if r:
            return r, None
    return None, None


def is_cmp(n):
    fc = match.functor_call(n) if n is not None and "callee" in n else None
    if fc and match.this_field(fc[0]) == "cmp_" and len(fc[1]) == 2:
        return fc[1]
    return None


def select_decision(ck, fn, x, v1, v2, roles, value_var):
    """the comparison x = cmp(heap_[v1], heap_[v2]) of two children: tabulates the body of the enclosing scan loop.
    True if a violation was reported"""
    if v1 is None or v2 is None or v1 == v2:
        raise dtable.Undecidable("%s: comparison of two children that are not held in two index variables: %s" % (fn.nloc(x), dtable.describe(x)))
    loop, via = enclosing(fn, x, LOOPS)
    if loop is None:
        raise dtable.Undecidable("%s: comparison of two children outside a scan loop" % fn.nloc(x))
    body = match.loop_parts(loop)[3] if loop["k"] != "CXXForRangeStmt" else kids(loop)[2]
    if not same_node(via, body):
        raise dtable.Undecidable("%s: comparison of two children in the control part of a loop" % fn.nloc(x))
    name = {v1: "a", v2: "b"}

    def atomize(n, run):
        ops = is_cmp(n)
        if ops:
            ids = [ref_of(heap_index(o)) if heap_index(o) is not None else None for o in ops]
            if all(i in name for i in ids) and ids[0] != ids[1]:
                return ("lt(%s,%s)" % (name[ids[0]], name[ids[1]]), False)
        return base_atom(n)

    leaves = dtable.explore(simplify(body), atomize, fn)

    def moves(lf):
        """assignments between the two index variables on this leaf; None in the list = an assignment of another form"""
        out = []
        for n in leaf_nodes(lf):
            b = match.binop(n, ("=",)) if n["k"] in ("BinaryOperator", "CXXOperatorCallExpr") else None
            if b and strip_casts(b[1])["k"] == "DeclRefExpr" and ref_of(b[1]) in name:
                out.append((ref_of(b[1]), ref_of(b[2])) if ref_of(b[2]) in name and ref_of(b[2]) != ref_of(b[1]) else None)
        return out
    targets = {m[0] for lf in leaves for m in moves(lf) if m}
    if len(targets) != 1:
        raise dtable.Undecidable("%s: cannot tell which index holds the selected child after %s" % (fn.nloc(x), dtable.describe(x)))
    run_v = next(iter(targets))                 # the running minimum; the other one scans
    oth_v = v1 if run_v == v2 else v2
    a_or, a_ro = "lt(%s,%s)" % (name[oth_v], name[run_v]), "lt(%s,%s)" % (name[run_v], name[oth_v])
    atoms = list(dtable.atoms_of(leaves))
    for a in (a_or, a_ro):
        if a not in atoms:
            atoms.append(a)
    rows = [(v, lf) for v, lf in dtable.table(leaves, lambda v: not (v.get(a_or) and v.get(a_ro)), atoms)
            if a_or in lf["val"] or a_ro in lf["val"]]          # elsewhere the comparator was not consulted: no decision taken
    groups = {}
    for v, lf in rows:
        groups.setdefault(tuple(sorted((k, b_) for k, b_ in v.items() if k not in (a_or, a_ro))), []).append((v, lf))
    if all(len({(run_v, oth_v) in moves(lf) for v, lf in grp}) == 1 for grp in groups.values()):
        raise dtable.Undecidable("%s: the selection does not depend on the comparison %s" % (fn.nloc(x), dtable.describe(x)))
    for grp in groups.values():
        if len({(run_v, oth_v) in moves(lf) for v, lf in grp}) == 1:
            continue                             # under these side conditions no selection is made either way
        for v, lf in grp:
            mv = moves(lf)
            sel = (run_v, oth_v) in mv
            wrong = None
            if v[a_or] and not sel:
                wrong = "a strictly smaller child is passed over"
            elif v[a_ro] and sel:
                wrong = "the selection moves to a strictly larger child"
            if wrong is None:
                continue
            if None in mv or (oth_v, run_v) in mv:
                raise dtable.Undecidable("%s: selection of the smaller child not understood (other assignments to the index variables)" % fn.nloc(x))
            ck.violation("HEAP-DECISION", fn.qname, "%s:select" % fn.name,
                         "child selection does not keep the smaller child: %s in row %s of %s (a, b = its operands)" % (
                             wrong, dtable.fmt_val({k: b_ for k, b_ in v.items() if k in (a_or, a_ro)}), dtable.describe(x)), fn.nloc(x))
            return True
    return False


def branch_effect(st):
    """(stops, moves) of a branch"""
    if st is None:
        return False, False
    stops = any(y["k"] in ("BreakStmt", "ReturnStmt") for y in ir.walk(st))
    mvs = any(heap_index(match.binop(y, ("=",))[1]) is not None for y in ir.walk(st) if match.binop(y, ("=",)))
    return stops, mvs


def controlling(fn, x):
    """(statement, condition expression, pre) that decides on the comparison x; a never-reassigned bool local that holds
    the result and is tested by the very next statement counts as that statement's condition"""
    par, via = enclosing(fn, x, ("IfStmt", "WhileStmt", "ForStmt", "DoStmt", "CXXForRangeStmt", "VarDecl"))
    pre = None
    if par is not None and par["k"] == "VarDecl":
        did = par["did"]
        ds = fn.parent(par)
        comp = fn.parent(ds) if ds is not None else None
        writes = [y for y in ir.walk(fn.body) if (match.binop(y) and match.binop(y)[0].endswith("=") and match.binop(y)[0] not in ("==", "!=", "<=", ">=")
                                                  and ref_of(match.binop(y)[1]) == did) or (match.unop(y, ("++", "--")) and ref_of(match.unop(y, ("++", "--"))[1]) == did)]
        uses = [y for y in ir.walk(fn.body) if y["k"] == "DeclRefExpr" and y["ref"]["id"] == did]
        if (par.get("ty") or "").replace("const ", "") != "bool" or writes or len(uses) != 1 or comp is None or comp["k"] != "CompoundStmt":
            raise dtable.Undecidable("%s: result of the comparison is stored and used in a way that is not understood" % fn.nloc(x))
        sibs = [c for c in kids(comp) if c is not None]
        i = [j for j, c in enumerate(sibs) if same_node(c, ds)]
        nxt = sibs[i[0] + 1] if i and i[0] + 1 < len(sibs) else None
        if nxt is None or nxt["k"] not in ("IfStmt", "WhileStmt") or not inside(fn, uses[0], kids(nxt)[0]):
            raise dtable.Undecidable("%s: result of the comparison is not tested by the next statement" % fn.nloc(x))
        init = kids(par)[0]
        pre = lambda r, did=did, init=init: r.env.__setitem__(did, init)
        par, x = nxt, uses[0]
    if par is None:
        raise dtable.Undecidable("%s: comparison without controlling statement" % fn.nloc(x))
    cond = kids(par)[0] if par["k"] in ("IfStmt", "WhileStmt") else (kids(par)[1] if par["k"] in ("ForStmt", "DoStmt") else None)
    if cond is None or not inside(fn, x, cond):
        raise dtable.Undecidable("%s: the comparison is not part of the condition of the statement that encloses it" % fn.nloc(x))
    return par, cond, pre


def check_decisions(ck, fn):
    roles, value_var = index_roles(fn)
    ck.require(value_var is not None, "%s: hole element not found" % fn.loc)
    tag = "%s::%s" % (inst_tag(fn), fn.name)
    sites = 0
    bad = False
    for x in ir.walk(fn.body):
        ops = is_cmp(x)
        if not ops:
            continue
        (r1, v1), (r2, v2) = operand_role(ops[0], roles, value_var, fn), operand_role(ops[1], roles, value_var, fn)
        if r1 is None or r2 is None:
            raise dtable.Undecidable("%s: comparator operands not understood: %s" % (fn.nloc(x), dtable.describe(x)))
        sites += 1
        if (r1, r2) == ("child", "child"):
            # select the smaller child: cmp(heap_[a], heap_[b]) must lead to b = a, cmp(heap_[b], heap_[a]) must not
            bad = select_decision(ck, fn, x, v1, v2, roles, value_var) or bad
            continue
        pair = {("child", "value"): ("sink", False), ("value", "child"): ("sink", True),
                ("parent", "value"): ("rise", True), ("value", "parent"): ("rise", False)}.get((r1, r2))
        if pair is None:
            raise dtable.Undecidable("%s: unexpected comparison roles %s/%s" % (fn.nloc(x), r1, r2))
        kind, swapped = pair
        par, cond, pre = controlling(fn, x)

        def atomize(n, run, fn=fn):
            o2 = is_cmp(n)
            if o2:
                a, _ = operand_role(o2[0], roles, value_var, fn)
                b, _ = operand_role(o2[1], roles, value_var, fn)
                return ("cmp(%s,%s)" % (a, b), False)
            b = match.binop(n, (">", "<", "<=", ">=", "!=", "=="))
            if b and strip_casts(n)["k"] == "BinaryOperator":
                return ("aux:" + dtable.describe(n), False)
            return None
        leaves = dtable.explore(cond, atomize, fn, as_expr=True, pre=pre)
        other, val = ("child" if kind == "sink" else "parent"), "value"
        a_small = "cmp(%s,%s)" % (other, val)       # the other element is strictly smaller than value
        a_large = "cmp(%s,%s)" % (val, other)
        atoms = [a for a in dtable.atoms_of(leaves)]
        for a in (a_small, a_large):
            if a not in atoms:
                atoms.append(a)
        # what does a true condition mean: move or stop?
        if par["k"] == "IfStmt":
            sp = simplify(par)
            if sp["k"] != "IfStmt":
                raise dtable.Undecidable("%s: cannot tell whether the branch moves or stops" % fn.nloc(par))
            flipped = _is_empty_stmt(kids(par)[1]) and not _is_empty_stmt(kids(par)[2])
            (t_stop, t_move), (e_stop, e_move) = branch_effect(kids(sp)[1]), branch_effect(kids(sp)[2])
            if t_move and not t_stop and not e_move:
                true_moves = True
            elif t_stop and not t_move:
                true_moves = False
            else:
                raise dtable.Undecidable("%s: cannot tell whether the branch moves or stops" % fn.nloc(par))
            if flipped:
                true_moves = not true_moves     # simplify() negated the condition; the table below uses the original one
        else:
            true_moves = True
        rows = list(dtable.table(leaves, lambda v: not (v.get(a_small) and v.get(a_large)), atoms))
        if any(k.startswith("flag:") for v, lf in rows for k in v):
            raise dtable.Undecidable("%s: the condition depends on a flag that is not understood" % fn.nloc(x))
        # rows are judged per valuation of the auxiliary (range) conditions: where the outcome does not depend on the comparator
        # no decision is taken (index out of range ...)
        groups = {}
        for v, lf in rows:
            groups.setdefault(tuple(sorted((k, b_) for k, b_ in v.items() if k.startswith("aux:"))), []).append((v, lf))
        if all(len({lf["result"] for v, lf in grp}) == 1 for grp in groups.values()):
            raise dtable.Undecidable("%s: the outcome of the condition does not depend on the comparison %s" % (fn.nloc(x), dtable.describe(x)))
        for aux_key, grp in groups.items():
            if len({lf["result"] for v, lf in grp}) == 1:
                continue
            for v, lf in grp:
                moves = lf["result"] == true_moves
                if kind == "sink":
                    req, forb = v[a_small], v[a_large]     # child < value: must sink; value < child: must not
                else:
                    req, forb = v[a_large], v[a_small]     # value < parent: must rise; parent < value: must not
                if (req and not moves) or (forb and moves):
                    ck.violation("HEAP-DECISION", fn.qname, "%s:%s:%s" % (fn.name, kind, dtable.fmt_val({k: x_ for k, x_ in v.items() if not k.startswith("aux:")})),
                                 "%s decision wrong: hole %s although %s" % (kind, "moves" if moves else "stays",
                                 ("the value is strictly smaller than the %s" % other) if (kind == "rise") == req else
                                 ("the %s is strictly smaller than the value" % other) if kind == "sink" and req else "the order forbids it"), fn.nloc(x))
                    bad = True
                    break
            if bad:
                break
    ck.require(sites >= 2 or fn.name == "sift_up", "%s: too few comparison sites (%d)" % (fn.loc, sites))
    if not bad:
        ck.ok("HEAP-DECISION", tag, "%d comparison sites: smaller child selected, hole sinks iff child<value / rises iff value<parent (ties free)" % sites)


# ---------------------------------------------------------------- index arithmetic
def eval_arith(e, env, hook=None):
    """integer value of an index expression under env (decl id -> value); hook(e) may supply values of calls"""
    e = strip_casts(e)
    if e is None:
        return None
    if hook is not None and hook(e) is not None:
        return hook(e)
    c = const_int(e)
    if c is not None and e["k"] != "DeclRefExpr":
        return c
    if e["k"] == "DeclRefExpr":
        if e["ref"]["id"] in env:
            return env[e["ref"]["id"]]
        if c is not None:
            return c
    if e["k"] == "MemberExpr" and c is not None:
        return c
    if e["k"] == "ConditionalOperator":
        t = eval_arith(kids(e)[0], env, hook)
        return None if t is None else eval_arith(kids(e)[1] if t else kids(e)[2], env, hook)
    if e["k"] == "UnaryOperator" and e.get("op") in ("-", "!", "+") and kids(e):
        v = eval_arith(kids(e)[0], env, hook)
        return None if v is None else {"-": -v, "!": int(not v), "+": v}[e["op"]]
    b = match.binop(e, ("+", "-", "*", "/", "%", ">>", "<<", "<", ">", "<=", ">=", "==", "!=", "&&", "||")) if e["k"] == "BinaryOperator" else None
    if b:
        l, r = eval_arith(b[1], env, hook), eval_arith(b[2], env, hook)
        if l is None or r is None:
            return None
        if b[0] in ("/", "%") and (r == 0 or l < 0 or r < 0):
            return None
        if b[0] in (">>", "<<") and (r < 0 or l < 0):
            return None
        return {"+": lambda: l + r, "-": lambda: l - r, "*": lambda: l * r, "/": lambda: l // r, "%": lambda: l % r, ">>": lambda: l >> r,
                "<<": lambda: l << r, "<": lambda: int(l < r), ">": lambda: int(l > r), "<=": lambda: int(l <= r), ">=": lambda: int(l >= r),
                "==": lambda: int(l == r), "!=": lambda: int(l != r), "&&": lambda: int(bool(l) and bool(r)), "||": lambda: int(bool(l) or bool(r))}[b[0]]()
    return None


def returned_expr(f):
    """the value a small function returns, as one expression over its parameters"""
    e = dtable.stmts_as_expr([x for x in kids(f.body) if x is not None]) if f.body is not None else None
    if e is None:
        raise dtable.Undecidable("%s: %s() is not a plain index computation (declarations, then returns)" % (f.loc, f.name))
    return e


def arith_leaves(e, out):
    """the maximal sub-expressions of e that are not integer arithmetic (variables, calls, element reads)"""
    e = strip_casts(e)
    if e is None or (const_int(e) is not None and e["k"] != "DeclRefExpr") or (e["k"] == "DeclRefExpr" and e["ref"].get("kind") not in ("local", "param") and const_int(e) is not None):
        return out
    if e["k"] == "BinaryOperator" and e.get("op") in ("+", "-", "*", "/", "%", ">>", "<<"):
        arith_leaves(kids(e)[0], out)
        arith_leaves(kids(e)[1], out)
    elif e["k"] == "UnaryOperator" and e.get("op") in ("-", "+") and kids(e):
        arith_leaves(kids(e)[0], out)
    elif e["k"] == "ParenExpr" and kids(e):
        arith_leaves(kids(e)[0], out)
    elif not any(match.same_expr(e, o) for o in out):
        out.append(e)
    return out


def written_out_parents(tu, rec, rt, arity):
    """closed world for parent indices that are not computed by parent(): every division in the other member functions of
    the heap type is the parent of its one operand, (x - 1) / arity, or the parent of the last element, (size - 2) / arity;
    returns how many there are"""
    n = 0
    for f in tu.find(record=rec):
        if f.rtargs != rt or f.body is None or f.name == "parent":
            continue
        judged = set()
        for y in ir.walk(f.body):
            if y["k"] == "CompoundAssignOperator" and y.get("op") in ("/=", ">>="):
                raise dtable.Undecidable("%s: %s() divides in place: index arithmetic not verified" % (f.nloc(y), f.name))
            if not (y["k"] == "BinaryOperator" and y.get("op") in ("/", ">>")):
                continue
            top, par = y, f.parent(y)           # the whole computation the division is part of
            while par is not None and (par["k"] in CASTS + ("ParenExpr",) or (par["k"] == "BinaryOperator" and par.get("op") in ("+", "-", "*", "/", "%", ">>", "<<"))):
                top, par = par, f.parent(par)
            if top.get("id") in judged:
                continue
            judged.add(top.get("id"))
            leaves = arith_leaves(top, [])
            good = False
            if len(leaves) == 1:
                lf0 = leaves[0]
                hook = lambda e, k: k if match.same_expr(e, lf0) else None
                first = 2 if heap_size(lf0) else 1
                vals = [eval_arith(top, {}, lambda e, k=k: hook(e, k)) for k in range(first, first + 8)]
                want = [((k - 1) - 1) // arity if heap_size(lf0) else (k - 1) // arity for k in range(first, first + 8)]
                good = vals == want
            if not good:
                raise dtable.Undecidable("%s: the division %s in %s() is not understood: not the parent index (x - 1) / %d of its operand"
                                         % (f.nloc(y), dtable.describe(top)[:60], f.name, arity))
            n += 1
    return n


def check_index_inverse(ck, tu, rec):
    """left() / parent() are evaluated as index arithmetic: left(k) == arity*k+1 and parent(c) == (c-1)/arity for every
    child c of k, i.e. they are mutually inverse.  A function of the pair that the instantiation does not contain is not
    called by any code of that heap type (member functions of a class template exist only where they are used): index
    arithmetic that is written out instead is evaluated where the comparison sites use it (HEAP-DECISION)."""
    lefts = tu.find(name="left", record=rec)
    parents = tu.find(name="parent", record=rec)
    insts = []
    for f in lefts + parents:
        if f.rtargs not in insts:
            insts.append(f.rtargs)
    for rt in insts:
        def one(rt=rt):
            lf = [f for f in lefts if f.rtargs == rt]
            pf = [f for f in parents if f.rtargs == rt]
            ck.require(len(lf) <= 1 and len(pf) <= 1, "%s: several left()/parent() in one instantiation" % (lf + pf)[0].loc)
            lf, pf = (lf[0] if lf else None), (pf[0] if pf else None)
            any_f = lf or pf
            arity = fn_arity(any_f)
            ck.require(arity and all(f is None or len(f.params) == 1 for f in (lf, pf)), "%s: left()/parent() signature not understood" % any_f.loc)
            le, pe = (returned_expr(lf) if lf else None), (returned_expr(pf) if pf else None)
            for k in range(0, 40):
                want = arity * k + 1
                l = want
                if lf is not None:
                    l = eval_arith(le, {lf.params[0]["did"]: k})
                    if l is None:
                        raise dtable.Undecidable("%s: left() is not plain index arithmetic" % lf.loc)
                for j in range(arity):
                    p = k
                    if pf is not None and want + j >= 1:
                        p = eval_arith(pe, {pf.params[0]["did"]: (l if l >= 1 else want) + j})
                        if p is None:
                            raise dtable.Undecidable("%s: parent() is not plain index arithmetic" % pf.loc)
                    if p != k or l != want:
                        ck.violation("INDEX-INVERSE", any_f.qname, "arity=%d" % arity,
                                     "left(%d)=%s, parent(%d)=%s: children of node k must be arity*k+1..arity*k+arity and parent their inverse" % (k, l, l + j, p), any_f.loc)
                        return
            n = written_out_parents(tu, rec, rt, arity)        # parent indices computed without parent()
            if lf is not None and pf is not None:
                ck.ok("INDEX-INVERSE", inst_tag(lf), "parent(left(k)+j) == k for k<40, j<%d; left(k) == %d*k+1" % (arity, arity))
            elif lf is not None:
                ck.ok("INDEX-INVERSE", inst_tag(lf), "left(k) == %d*k+1 for k<40; parent() is not instantiated (no code of this heap type calls it), "
                      "the %d divisions written out instead all evaluate to (k-1)/%d" % (arity, n, arity))
            else:
                raise dtable.Undecidable("%s: left() is not instantiated for this heap type: child indices that are computed in another way are not verified" % pf.loc)
        ck.guarded(one)


# ---------------------------------------------------------------- handle table
def handles_store(x):
    """(key_expr, value_expr) if x is handles_[K] = V"""
    b = match.binop(x, ("=",)) if x is not None and not x.get("xu") else None
    if b:
        p = match.index_parts(b[1])
        if p and match.this_field(p[0]) == "handles_":
            return p[1], b[2]
    return None


def heap_store(x):
    """(index_expr, value_expr) if x is heap_[I] = V"""
    b = match.binop(x, ("=",))
    if b and strip_casts(b[1])["k"] != "DeclRefExpr":
        hi = heap_index(b[1])
        if hi is not None:
            return hi, b[2]
    return None


def is_not_present(e):
    e = strip_casts(e)
    return bool(match.call_named(e, ("not_present",)))


def heap_size(e):
    """e is heap_.size() or this->size()"""
    c = match.call_named(match.strip_conv(e), ("size",))
    if c is None or not c.get("member_call") or not kids(c):
        return False
    o = strip_casts(kids(c)[0])
    return match.this_field(o) == "heap_" or o["k"] == "This"


def heap_last(e):
    """e denotes the last element of heap_: heap_.back() | heap_[heap_.size() - 1]"""
    k = strip_casts(e)
    bk = match.call_named(k, ("back",))
    if bk and kids(bk) and match.this_field(kids(bk)[0]) == "heap_":
        return True
    hi = heap_index(k)
    b = match.binop(hi, ("-",)) if hi is not None else None
    return bool(b and heap_size(b[1]) and const_int(b[2]) == 1)


def heap_ops(body):
    stores = [(x, heap_store(x)) for x in ir.walk(body) if heap_store(x)]
    swaps = [x for x in ir.walk(body) if match.call_named(x, ("swap", "iter_swap")) and any(heap_index(a) is not None or heap_last(a) for a in kids(x))]
    pushes = [x for x in ir.walk(body) if match.call_named(x, ("push_back", "emplace_back")) and x.get("member_call") and match.this_field(kids(x)[0]) == "heap_"]
    pops = [x for x in ir.walk(body) if match.call_named(x, ("pop_back",)) and x.get("member_call") and match.this_field(kids(x)[0]) == "heap_"]
    return stores, swaps, pushes, pops


def this_callees(tu, fn):
    """(call node, callee Fn) for the member functions of the same class that fn calls on *this"""
    for c in ir.walk(fn.body):
        if "callee" in c and c.get("member_call") and kids(c) and strip_casts(kids(c)[0])["k"] == "This":
            cal = tu.by_did.get(c["callee"].get("did"))
            if cal is not None and cal.body is not None and cal.did != fn.did and cal.record == fn.record:
                yield c, cal


def is_handle_setter(cal):
    """a helper that only records handles: no loops, no change of heap_ itself"""
    if any(y["k"] in LOOPS for y in ir.walk(cal.body)):
        return False
    st, sw, pu, po = heap_ops(cal.body)
    return not (st or sw or pu or po) and any(handles_store(y) for y in ir.walk(cal.body))


def handle_stores(tu, fn):
    """[(node whose CFG position counts, key expr, value expr, id)] for handles_[K] = V in fn and, with the parameters
    replaced by the arguments, in the handle-setting helpers it calls"""
    out = []
    for y in ir.walk(fn.body):
        hs = handles_store(y)
        if hs:
            out.append((y, hs[0], hs[1], ("own", y["id"])))
    for c, cal in this_callees(tu, fn):
        if is_handle_setter(cal):
            sub = {p_["did"]: a for p_, a in zip(cal.params, kids(c)[1:])}
            for y in ir.walk(cal.body):
                hs = handles_store(y)
                if hs:
                    out.append((c, dtable._subst(hs[0], sub), dtable._subst(hs[1], sub), (c["id"], y["id"])))
    return out


def classify_handles_mention(fn, m):
    """what an occurrence of this->handles_ does: 'read' | 'grow' | 'fill' | 'store' | None (not understood)"""
    p = fn.parent(m)
    if p is None:
        return None
    if p["k"] == "CXXForRangeStmt":
        return "fill" if match.fill_all(p) else None
    # a never-written local reference / pointer / iterator bound to handles_ that is used by fill loops only
    bound = p if p["k"] == "VarDecl" else None
    if "callee" in p and p.get("member_call") and kids(p) and same_node(kids(p)[0], m) and p["callee"]["name"] in ("data", "begin"):
        q = fn.parent(p)
        while q is not None and q["k"] in CASTS + ("CXXConstructExpr",):
            q = fn.parent(q)
        bound = q if q is not None and q["k"] == "VarDecl" else None
    if bound is not None and bound.get("did") is not None and bound["did"] not in local_facts(fn)[1]:
        ty = (bound.get("ty") or "").rstrip()
        if bound.get("isref") or ty.endswith(("&", "*")) or "iterator" in ty:
            uses = [y for y in ir.walk(fn.body) if y["k"] == "DeclRefExpr" and y["ref"]["id"] == bound["did"]]
            fills = [l for l in ir.walk(fn.body) if l["k"] == "ForStmt" and fill_of(fn, l) and match.this_field(fill_of(fn, l)[0]) == "handles_"]
            if uses and all(any(inside(fn, u, l) for l in fills) for u in uses):
                return "fill"
            return None
    if "callee" in p and p.get("member_call") and kids(p) and same_node(kids(p)[0], m) and not p.get("op"):
        nm = p["callee"]["name"]
        if nm in ("size", "empty", "capacity", "max_size"):
            return "read"
        if nm in ("resize", "reserve", "shrink_to_fit"):
            return "grow"
        if nm == "assign":
            return "fill" if match.fill_all(p) else None
        if nm in ("begin", "end"):
            q = fn.parent(p)
            while q is not None and q["k"] in CASTS + ("CXXConstructExpr",):
                q = fn.parent(q)
            fa = match.fill_all(q) if q is not None else None
            return "fill" if fa and match.this_field(fa[0]) == "handles_" else None
        if nm != "at":
            return None
    ip = match.index_parts(p)
    if not (ip and same_node(strip_casts(ip[0]), m)):
        return None
    q, node = fn.parent(p), p
    while q is not None and q["k"] == "ConditionalOperator" and not same_node(kids(q)[0], node):
        q, node = fn.parent(q), q
    if q is None:
        return None
    if q["k"] in CASTS:
        return "read" if q.get("cast") in RVALUE_CASTS else None
    if q["k"] in ("BinaryOperator", "CompoundAssignOperator"):
        op = q.get("op")
        if op == "=" or q["k"] == "CompoundAssignOperator":
            if same_node(kids(q)[0], node):
                return "store" if op == "=" else None
            return "read"
        return "read"
    if q["k"] == "VarDecl":
        return None if (q.get("isref") or (q.get("ty") or "").rstrip().endswith(("&", "*"))) else "read"
    if q["k"] in ("IfStmt", "WhileStmt", "ForStmt", "DoStmt"):
        return "read"
    if q["k"] == "ReturnStmt":
        return None if (fn.d.get("ret") or "").rstrip().endswith("&") else "read"
    if "callee" in q:
        if q.get("op") == "[]" and len(kids(q)) == 2 and same_node(kids(q)[1], node):
            return "read"
        if q.get("op") in ("==", "!=", "<", ">", "<=", ">=", "+", "-", "*", "/", "%"):
            return "read"
        cal = fn.tu.by_did.get(q["callee"].get("did"))
        if cal is not None:
            args = kids(q)[1:] if q.get("member_call") else kids(q)
            for a, prm in zip(args, cal.params):
                if same_node(a, node):
                    return None if (prm.get("ty") or "").rstrip().endswith("&") and not (prm.get("ty") or "").startswith("const ") else "read"
    return None


def callee_handle_kinds(tu, cal, depth=0, seen=None):
    """how a member function writes handles_: subset of {'pos', 'np', 'unknown'}"""
    seen = seen if seen is not None else set()
    if cal.did in seen or depth > 4:
        return set()
    seen.add(cal.did)
    out = set()
    for y in ir.walk(cal.body):
        hs = handles_store(y)
        if hs:
            out.add("np" if is_not_present(hs[1]) else "pos")
        fa = fill_of(cal, y)
        if fa and match.this_field(fa[0]) == "handles_":
            out.add("np" if is_not_present(fa[1]) else "unknown")
        if y["k"] == "MemberExpr" and match.this_field(y) == "handles_" and classify_handles_mention(cal, y) is None:
            out.add("unknown")
    for c, c2 in this_callees(tu, cal):
        out |= callee_handle_kinds(tu, c2, depth + 1, seen)
    return out


def find_reindex(fn):
    """(loop, handle store, first index) of a re-index loop: for every i in [first, heap_.size()): handles_[heap_[i]] = i;
    it is a full one if first == 0"""
    for l in match.loops_in(fn.body):
        if l["k"] not in ("ForStmt", "WhileStmt"):
            continue
        init, cond, inc, body = match.loop_parts(l)
        # the counter: the one local of the condition; the condition is evaluated for heaps of 1..5 elements below
        cv = {y["ref"]["id"] for y in ir.walk(cond) if y["k"] == "DeclRefExpr" and y["ref"].get("kind") == "local"} if cond is not None else set()
        if len(cv) != 1 or not any(heap_size(y) for y in ir.walk(cond)):
            continue
        var = next(iter(cv))
        runs = [[eval_arith(cond, {var: i}, lambda e, n=n: n if heap_size(e) else None) for i in range(n + 1)] for n in range(1, 6)]
        if any(v is None for r in runs for v in r):
            continue
        whole = all(all(r[:-1]) and not r[-1] for r in runs)      # true for every index of the heap, false behind it
        decl = [y for y in ir.walk(fn.body) if y["k"] == "VarDecl" and y["did"] == var and kids(y) and const_int(kids(y)[0]) is not None]
        if not decl:
            continue
        start = const_int(kids(decl[0])[0]) if whole else -1
        if l["k"] == "WhileStmt":
            # the counter starts at 0 when the loop is reached and only the loop advances it
            ds = fn.parent(decl[0])
            comp = fn.parent(ds) if ds is not None else None
            sibs = [c for c in kids(comp) if c is not None] if comp is not None and comp["k"] == "CompoundStmt" else []
            i = [j for j, c in enumerate(sibs) if same_node(c, ds)]
            if not (i and i[0] + 1 < len(sibs) and same_node(sibs[i[0] + 1], l)):
                continue
        writes = []
        for y in ir.walk(fn.body):
            bb = match.binop(y)
            if bb and bb[0].endswith("=") and bb[0] not in ("==", "!=", "<=", ">=") and ref_of(bb[1]) == var and strip_casts(bb[1])["k"] == "DeclRefExpr":
                writes.append(y)
            u = match.unop(y, ("++", "--"))
            if u and ref_of(u[1]) == var:
                writes.append(y)
        steps = [y for y in writes if (match.unop(y, ("++",)) or (match.binop(y, ("+=",)) and const_int(match.binop(y, ("+=",))[2]) == 1)
                                       or (match.binop(y, ("=",)) and match.binop(match.binop(y, ("=",))[2], ("+",)) and
                                           ref_of(match.binop(match.binop(y, ("=",))[2], ("+",))[1]) == var and const_int(match.binop(match.binop(y, ("=",))[2], ("+",))[2]) == 1))]
        if len(writes) != 1 or len(steps) != 1 or not inside(fn, writes[0], l):
            continue
        if any(y["k"] in ("ContinueStmt", "BreakStmt", "ReturnStmt") for y in ir.walk(body)):
            continue
        for y in ir.walk(body):
            hs = handles_store(y)
            if hs:
                hk = heap_index(hs[0])
                if hk is not None and ref_of(hk) == var and ref_of(hs[1]) == var:
                    return l, y, start
    # for (key : heap_) handles_[key] = pos++;   with pos = 0 declared right in front of the loop
    for l in ir.walk(fn.body):
        if l["k"] != "CXXForRangeStmt" or len(kids(l)) < 3 or match.this_field(kids(l)[0]) != "heap_" or kids(l)[1] is None:
            continue
        var, body = kids(l)[1].get("did"), kids(l)[2]
        if any(y["k"] in ("ContinueStmt", "BreakStmt", "ReturnStmt") for y in ir.walk(body)):
            continue
        stmts = [c for c in (kids(body) if body is not None and body["k"] == "CompoundStmt" else [body]) if c is not None]
        hs = handles_store(stmts[0]) if stmts else None
        if not hs or ref_of(hs[0]) != var:
            continue
        u = match.unop(hs[1], ("++",))
        if len(stmts) == 1 and u and u[2] and ref_of(u[1]) is not None:
            cnt = ref_of(u[1])
        elif len(stmts) == 2 and ref_of(hs[1]) is not None and (
                (match.unop(stmts[1], ("++",)) and ref_of(match.unop(stmts[1], ("++",))[1]) == ref_of(hs[1])) or
                (match.binop(stmts[1], ("+=",)) and ref_of(match.binop(stmts[1], ("+=",))[1]) == ref_of(hs[1]) and const_int(match.binop(stmts[1], ("+=",))[2]) == 1)):
            cnt = ref_of(hs[1])
        else:
            continue
        decl = [y for y in ir.walk(fn.body) if y["k"] == "VarDecl" and y["did"] == cnt and kids(y) and const_int(kids(y)[0]) is not None]
        ds = fn.parent(decl[0]) if decl else None
        comp = fn.parent(ds) if ds is not None else None
        sibs = [c for c in kids(comp) if c is not None] if comp is not None and comp["k"] == "CompoundStmt" else []
        i = [j for j, c in enumerate(sibs) if same_node(c, ds)]
        if not (i and i[0] + 1 < len(sibs) and same_node(sibs[i[0] + 1], l)):
            continue
        writes = 0
        for y in ir.walk(fn.body):
            bb = match.binop(y)
            if bb and bb[0].endswith("=") and bb[0] not in ("==", "!=", "<=", ">=") and ref_of(bb[1]) == cnt and strip_casts(bb[1])["k"] == "DeclRefExpr":
                writes += 1
            uu = match.unop(y, ("++", "--"))
            if uu and ref_of(uu[1]) == cnt:
                writes += 1
        if writes == 1:
            return l, stmts[0], const_int(kids(decl[0])[0])
    return None, None, None


def leaving_key(tu, fn, g, swaps, key, pop):
    """the expression key denotes the key that pop_back() at `pop` removes: std::swap(heap_[H], heap_.back()) with
    H = handles_[key] is executed on every path to the pop.  When the function is entered heap_[handles_[k]] == k holds for
    every key k in the heap (the coupling this rule establishes; a key that is not in the heap has no valid H at all), so
    after the swap heap_.back() is that key - provided heap_ and handles_ are untouched up to the swap and heap_ from the
    swap to the pop, and key itself is built from values that never change"""
    r = init_reads(key)
    px = g.pos_deep(pop)
    if r is None or r[0] or (r[1] & local_facts(fn)[1]) or px is None:
        return False
    for sw in swaps:
        args = [a for a in kids(sw) if a is not None]
        if len(args) != 2 or not match.call_named(sw, ("swap",)) or sw.get("member_call"):
            continue
        last = [a for a in args if heap_last(a)]
        other = [a for a in args if not heap_last(a) and heap_index(a) is not None]
        ps = g.pos_deep(sw)
        if len(last) != 1 or len(other) != 1 or ps is None or not g.dominates(ps, px):
            continue
        hidx = resolve_at(tu, fn, g, heap_index(other[0]), ps)
        ip = match.index_parts(hidx)
        if not (ip and match.this_field(ip[0]) == "handles_" and match.same_expr(ip[1], key)):
            continue
        # state untouched from the entry to the swap, heap_ untouched from the swap to the pop
        early = [w for w, fs in field_writers(tu, fn) if (ALL in fs or fs & {"heap_", "handles_"}) and not same_node(w, sw)
                 and (g.pos_deep(w) is None or g.pos_deep(w) == ps or g.reachable(g.pos_deep(w), ps))]
        if early or g.reachable(ps, ps) or written_between(tu, fn, g, {"heap_"}, ps, px, skip=(sw,)) is not None:
            continue
        return True
    return False


def check_handle_coupled(ck, fn):
    """every change of heap_ keeps handles_ in step: a store heap_[I] = V has handles_[heap_[I] | V] = I on every path (unless
    a full re-index loop follows), an appended key gets its position, a key that leaves is marked not_present"""
    tu = fn.tu
    stores, swaps, pushes, pops = heap_ops(fn.body)
    if not stores and not swaps and not pushes:
        return
    tag = "%s::%s/%s" % (inst_tag(fn), fn.name, ",".join(p["ty"][-12:] for p in fn.params))
    g = cfgm.CFG(fn)
    hst = handle_stores(tu, fn)
    used = set()
    failures = []          # (kind, sig, message, node)
    reindex, rstore, first = find_reindex(fn)
    covered = 0
    if reindex is not None:
        used.add(("own", rstore["id"]))     # understood, whether it covers everything or not
    if reindex is not None and first != 0:
        reindex = None                      # positions below `first` keep whatever handle they had: the stores need their own
    if reindex is not None:
        pl = g.pos_deep(reindex)
        late = [(x, st) for x, st in stores if g.pos(x) and pl and g.reachable(pl, g.pos(x)) and not g.reachable(g.pos(x), pl)]
        covered = len(stores) - len(late)
        stores = late        # what is stored after the table was rebuilt needs its own bookkeeping
    for x, (idx, val) in stores:
        # handles_ stores that record position idx for the key now at heap_[idx] (or for the stored value itself)
        v = strip_casts(val)
        mv = match.call_named(v, ("move",))
        vv = kids(mv)[-1] if mv else v
        after, before = [], []
        px = g.pos_deep(x)
        for h in hst:
            ph = g.pos_deep(h[0])
            if not same_value(tu, fn, g, h[2], ph, idx, px):
                continue
            hk = heap_index(h[1])
            if hk is not None and same_value(tu, fn, g, hk, ph, idx, px):
                after.append(h)              # handles_[heap_[idx]] = idx: meaningful once the store has happened
            elif match.same_expr(h[1], vv):
                after.append(h)              # handles_[value] = idx: meaningful on either side of the store
                before.append(h)
        used |= {h[3] for h in after}
        pa = [g.pos_deep(h[0]) for h in after if g.pos_deep(h[0]) is not None]
        pb = [g.pos_deep(h[0]) for h in before if g.pos_deep(h[0]) is not None]
        okk = px is not None and ((pa and g.path_avoiding(px, pa) is None) or (pb and g.path_from_entry_avoiding(px, pb) is None))
        if not okk:
            failures.append(("pos", fn.name + (":store-after-reindex" if reindex is not None else ":store:" + dtable.describe(idx)),
                             "heap_[%s] is overwritten%s and a path to the exit does not record the new position of that key in handles_"
                             % (dtable.describe(idx), " after the handle table was rebuilt" if reindex is not None else ""), x))
    for x in swaps:
        # swap(heap_[h], heap_.back()): the key now at h needs handles_[heap_[h]] = h, the key at the back is about to leave
        for idx in [i for i in (heap_index(e) for e in kids(x)) if i is not None]:
            m = [h for h in hst if heap_index(h[1]) is not None and same_value(tu, fn, g, heap_index(h[1]), g.pos_deep(h[0]), idx, g.pos_deep(x))
                 and same_value(tu, fn, g, h[2], g.pos_deep(h[0]), idx, g.pos_deep(x))]
            used |= {h[3] for h in m}
            if not m:
                failures.append(("pos", fn.name + ":swap", "after the swap the key moved to heap_[%s] keeps its old handle" % dtable.describe(idx), x))
    for x in pushes:
        key = kids(x)[-1]
        mv = match.call_named(key, ("move",))
        key = kids(mv)[-1] if mv else key
        px = g.pos_deep(x)
        pre, post = [], []
        for h in hst:
            if not match.same_expr(h[1], key):
                continue
            # a never-written local that holds heap_.size() stands for it as long as heap_ is not changed in between
            hv = resolve_at(tu, fn, g, h[2], g.pos_deep(h[0]))
            b = match.binop(match.strip_conv(hv), ("-",))
            if heap_size(hv):
                if hv is not h[2] and (px is None or written_between(tu, fn, g, {"heap_"}, g.pos_deep(h[0]), px) is not None):
                    continue                # the local's value may be stale by the time the key is appended
                pre.append(h)               # handles_[key] = heap_.size() in front of the push_back
            elif b and heap_size(b[1]) and const_int(b[2]) == 1:
                post.append(h)              # handles_[key] = heap_.size() - 1 behind it
        used |= {h[3] for h in pre + post}
        ppre = [g.pos_deep(h[0]) for h in pre if g.pos_deep(h[0]) is not None]
        ppost = [g.pos_deep(h[0]) for h in post if g.pos_deep(h[0]) is not None]
        okk = px is not None and ((ppre and g.path_from_entry_avoiding(px, ppre) is None) or (ppost and g.path_avoiding(px, ppost) is None))
        if not okk:
            failures.append(("pos", fn.name + ":push", "a key is appended to heap_ without handles_[key] = its position", x))
    # removal: pop_back must mark the leaving key not present
    for x in pops:
        px = g.pos_deep(x)
        m = [h for h in hst if is_not_present(h[2]) and (heap_last(h[1]) or heap_last(resolve_at(tu, fn, g, h[1], g.pos_deep(h[0])))
                                                         or leaving_key(tu, fn, g, swaps, h[1], x))]
        # nothing may write handles_ between the mark and the pop_back (a later handles_[...] = pos could set the handle again),
        # nor heap_ (the last element would be another one)
        m = [h for h in m if px is not None and g.pos_deep(h[0]) is not None
             and written_between(tu, fn, g, {"handles_", "heap_"}, g.pos_deep(h[0]), px) is None]
        used |= {h[3] for h in m}
        pm = [g.pos_deep(h[0]) for h in m if g.pos_deep(h[0]) is not None]
        if not (px is not None and pm and g.path_from_entry_avoiding(px, pm) is None):
            failures.append(("np", fn.name + ":pop", "the key leaving heap_ is not marked not_present in handles_", x))
    if failures:
        # absence of the bookkeeping counts only in a closed world: every write of handles_ in this function is understood
        unmatched = [h for h in hst if h[3] not in used]
        unknown = [y for y in ir.walk(fn.body) if y["k"] == "MemberExpr" and match.this_field(y) == "handles_" and classify_handles_mention(fn, y) is None]
        for kind, sig, msg, x in failures:
            writers = [cal.name for c, cal in this_callees(tu, fn) if not is_handle_setter(cal) and callee_handle_kinds(tu, cal) & {kind, "unknown"}]
            if unmatched or unknown or writers:
                what = ("handles_[%s] = %s" % (dtable.describe(unmatched[0][1]), dtable.describe(unmatched[0][2]))) if unmatched else \
                    ("use of handles_ at line %s" % unknown[0].get("l")) if unknown else ("%s() writes handles_" % writers[0])
                raise dtable.Undecidable("%s: %s - cannot be decided, the handle bookkeeping of %s() is not fully understood (%s)"
                                         % (fn.nloc(x), msg, fn.name, what))
        for kind, sig, msg, x in failures:
            ck.violation("HANDLE-COUPLED", fn.qname, sig, msg, fn.nloc(x))
        return
    if reindex is not None and not stores:
        ck.ok("HANDLE-COUPLED", tag, "%d heap_ stores followed by a full re-index loop over [0, heap_.size())" % covered)
    else:
        ck.ok("HANDLE-COUPLED", tag, "%d stores, %d swaps, %d pushes, %d pops keep handles_ in step" % (len(stores) + covered, len(swaps), len(pushes), len(pops)))


def check_handle_reset(ck, fn):
    """wholesale replacement of heap_ needs the handles of the old contents reset first"""
    tu = fn.tu
    repl = []
    for x in ir.walk(fn.body):
        c = match.call_named(x, ("assign", "clear", "resize", "swap")) if "callee" in x else None
        if c and c.get("member_call") and match.this_field(kids(c)[0]) == "heap_":
            repl.append(c)
        b = match.binop(x, ("=",))
        if b and match.this_field(b[1]) == "heap_" and strip_casts(b[1])["k"] == "MemberExpr":
            repl.append(x)
    tag = "%s::%s/%s" % (inst_tag(fn), fn.name, ",".join(p["ty"][-14:] for p in fn.params))
    if not repl:
        # emptied through clear() (which is checked on its own) and refilled element by element
        if fn.name == "build_heap" and any(this_call(x, ("clear",)) for x in ir.walk(fn.body) if "callee" in x):
            ck.ok("HANDLE-RESET", tag, "heap_ is emptied by clear(), which resets the handles of the previous contents")
        return
    g = cfgm.CFG(fn)
    resets = []
    for x in ir.walk(fn.body):
        fa = fill_of(fn, x)
        if fa and match.this_field(fa[0]) == "handles_" and is_not_present(fa[1]):
            resets.append(x)
        c = match.call_named(x, ("assign",)) if "callee" in x else None
        if c and c.get("member_call") and match.this_field(kids(c)[0]) == "handles_" and any(is_not_present(a) for a in kids(c)):
            resets.append(c)
        c = this_call(x, ("clear",)) if "callee" in x else None
        if c:
            resets.append(c)
        # per-key reset loop over the old contents
        if x["k"] in LOOPS:
            for y in ir.walk(x):
                hs = handles_store(y)
                if hs and is_not_present(hs[1]):
                    resets.append(x)
                    break
    pres = [g.pos_deep(r) for r in resets if g.pos_deep(r) is not None]
    exposed = []
    for x in repl:
        px = g.pos_deep(x)
        if px is None:
            raise dtable.Undecidable("%s: position of the replacement of heap_ not found in the CFG" % fn.nloc(x))
        if g.path_from_entry_avoiding(px, pres) is not None:
            exposed.append(x)
    if not exposed:
        ck.ok("HANDLE-RESET", tag, "handles of the previous contents are reset before heap_ is replaced")
        return
    # a path reaches the replacement without passing a reset: evidence only if nothing else on the way could be the reset
    x = exposed[0]
    px = g.pos_deep(x)

    def before(n):
        q = g.pos_deep(n)
        return q is None or q == px or g.reachable(q, px)
    for y in ir.walk(fn.body):
        if y["k"] == "MemberExpr" and match.this_field(y) == "handles_" and before(y) and not any(inside(fn, y, r) for r in resets):
            kind = classify_handles_mention(fn, y)
            if kind is None or kind == "fill":
                raise dtable.Undecidable("%s: heap_ is replaced and no reset of the handles was recognised in front of it, but line %s uses handles_ in a "
                                         "way that is not understood" % (fn.nloc(x), y.get("l")))
            if kind == "store":
                st = fn.parent(fn.parent(y))
                hs = handles_store(st) if st is not None else None
                if hs is None or is_not_present(hs[1]):
                    raise dtable.Undecidable("%s: heap_ is replaced; the not_present store at line %s may be the reset of the old handles"
                                             % (fn.nloc(x), y.get("l")))
    for c, cal in this_callees(tu, fn):
        if before(c) and not any(same_node(c, r) for r in resets) and callee_handle_kinds(tu, cal) & {"np", "unknown"}:
            raise dtable.Undecidable("%s: heap_ is replaced; %s() called in front of it may reset the old handles" % (fn.nloc(x), cal.name))
    ck.violation("HANDLE-RESET", fn.qname, ("%s/%s" % (fn.name, ",".join(p["ty"][-14:] for p in fn.params))).replace(" ", ""),
                 "heap_ is replaced wholesale but the handles of the keys it held stay set: contains() keeps reporting removed keys", fn.nloc(repl[0]))


def _mentions_field(e, field):
    return any(y["k"] == "MemberExpr" and match.this_field(y) == field for y in ir.walk(e))


def full_scan_max(fn, loop, mv):
    """the loop visits every element of heap_ and raises the local mv to it"""
    if loop["k"] == "CXXForRangeStmt" and len(kids(loop)) >= 3 and match.this_field(kids(loop)[0]) == "heap_":
        var, body = kids(loop)[1], kids(loop)[2]
        elem = lambda e: var is not None and ref_of(e) == var.get("did")
    elif loop["k"] == "ForStmt":
        init, cond, inc, body = match.loop_parts(loop)
        decl = [y for y in ir.walk(init) if y["k"] == "VarDecl" and kids(y) and const_int(kids(y)[0]) == 0] if init is not None else []
        b = match.binop(cond, ("<", "!=")) if cond is not None else None
        u = match.unop(inc, ("++",)) if inc is not None else None
        if not (len(decl) == 1 and b and ref_of(b[1]) == decl[0]["did"] and heap_size(b[2]) and u and ref_of(u[1]) == decl[0]["did"]):
            return False
        elem = lambda e: heap_index(e) is not None and ref_of(heap_index(e)) == decl[0]["did"]
    else:
        return False
    if any(y["k"] in ("BreakStmt", "ContinueStmt", "ReturnStmt") for y in ir.walk(body)):
        return False
    sb = simplify(body)
    stmts = [c for c in (kids(sb) if sb["k"] == "CompoundStmt" else [sb]) if c is not None]
    for st in stmts:
        xu = xu_of(st)
        if xu and xu[0] == "max" and ref_of(xu[1]) == mv and elem(xu[2]):
            return True
    return False


def check_handle_grow(ck, fn):
    """heapify: the bound used to grow handles_ must cover the heap contents: (1) with a single element (the sift loop is
    skipped) it includes that element, (2) inside the sift loop every visited element feeds the maximum"""
    rs = [x for x in ir.walk(fn.body) if match.call_named(x, ("resize",)) and "callee" in x and x.get("member_call") and match.this_field(kids(x)[0]) == "handles_"]
    ck.require(len(rs) == 1 and len(kids(rs[0])) >= 2, "%s: handles_.resize not found in heapify" % fn.loc)
    bound = kids(rs[0])[1]
    bound_vars = []
    for y in ir.walk(bound):
        if y["k"] == "DeclRefExpr" and y["ref"]["kind"] == "local" and y["ref"]["id"] not in bound_vars:
            bound_vars.append(y["ref"]["id"])
    if len(bound_vars) != 1:
        raise dtable.Undecidable("%s: the bound of handles_.resize is not built from one local maximum (%s)" % (fn.nloc(rs[0]), dtable.describe(bound)))
    mv = bound_vars[0]
    decl = [x for x in ir.walk(fn.body) if x["k"] == "VarDecl" and x["did"] == mv]
    ck.require(decl, "%s: declaration of the maximum variable not found" % fn.loc)

    # ---- (1) scenario: exactly one element in heap_
    SIZE = 1

    def szval(e):
        e = strip_casts(e)
        if e is None:
            return None
        c = const_int(e)
        if c is not None:
            return c
        if heap_size(e):
            return SIZE
        b = match.binop(e, ("+", "-", "*", "/")) if e["k"] == "BinaryOperator" else None
        if b:
            l, r = szval(b[1]), szval(b[2])
            if l is None or r is None or (b[0] == "/" and r == 0):
                return None
            v = {"+": l + r, "-": l - r, "*": l * r, "/": l // r if r else 0}[b[0]]
            return v if v >= 0 else None          # unsigned wrap-around is not modelled
        return None

    def atomize(n, run):
        c = match.call_named(n, ("empty",))
        if c is not None and c.get("member_call") and kids(c):
            o = strip_casts(kids(c)[0])
            if match.this_field(o) == "heap_" or o["k"] == "This":
                return SIZE == 0
        if n["k"] == "BinaryOperator" and n.get("op") in ("<", ">", "<=", ">=", "==", "!="):
            l, r = szval(kids(n)[0]), szval(kids(n)[1])
            if l is not None and r is not None:
                return {"<": l < r, ">": l > r, "<=": l <= r, ">=": l >= r, "==": l == r, "!=": l != r}[n["op"]]
        if heap_size(n):
            return SIZE != 0
        return base_atom(n)

    leaves = dtable.explore(simplify(fn.body), atomize, fn)
    reached = 0
    for lf in leaves:
        run = lf["run"]
        state = {"cov": False}

        def covers(e):
            """the value of e is at least the single element of heap_ | None = not understood"""
            e0 = e
            e = match.strip_conv(e)
            if e is None:
                return False
            if e["k"] == "DeclRefExpr":
                return state["cov"] if e["ref"]["id"] == mv else (False if const_int(e) is not None or e["ref"].get("kind") != "local" else None)
            if const_int(e) is not None:
                return False
            c = match.call_named(e, ("front", "back"))
            if c is not None and c.get("member_call") and kids(c) and match.this_field(kids(c)[0]) == "heap_":
                return True
            hi = heap_index(e)
            if hi is not None and e["k"] != "MemberExpr":
                v = szval(hi)
                return True if v is not None and 0 <= v < SIZE else None
            if e["k"] == "ConditionalOperator":
                try:
                    t = run.truth(kids(e)[0])
                except dtable._Need:
                    return None
                return covers(kids(e)[1] if t else kids(e)[2])
            m = match.call_named(e, ("max",))
            if m is not None and "callee" in e and len(kids(m)) >= 2:
                a, b = covers(kids(m)[0]), covers(kids(m)[1])
                return True if (a or b) else (None if (a is None or b is None) else False)
            b = match.binop(e, ("+",)) if e["k"] == "BinaryOperator" else None
            if b:
                for x, y in ((b[1], b[2]), (b[2], b[1])):
                    cy = const_int(y)
                    if cy is not None and cy >= 0:
                        return covers(x)
            if not _mentions_field(e, "heap_") and not any(y["k"] == "DeclRefExpr" and y["ref"].get("kind") == "local" for y in ir.walk(e)):
                return False                       # no element of heap_ enters this value
            return None

        verdict = "unreached"
        for kind, n in leaf_items(lf):
            if kind == "decl":
                if n.get("did") == mv and kids(n):
                    state["cov"] = covers(kids(n)[0])
                continue
            if kind == "loop":
                if any((match.binop(y) and match.binop(y)[0].endswith("=") and match.binop(y)[0] not in ("==", "!=", "<=", ">=") and ref_of(match.binop(y)[1]) == mv)
                       for y in ir.walk(n)) or mv in run.clobbered and any(y["k"] == "DeclRefExpr" and y["ref"]["id"] == mv for y in ir.walk(n)):
                    state["cov"] = True if full_scan_max(fn, n, mv) else None
                continue
            if same_node(n, rs[0]):
                verdict = covers(bound)
                break
            xu = xu_of(n)
            if xu and ref_of(xu[1]) == mv:
                o = covers(xu[2])
                if xu[0] == "max":
                    state["cov"] = True if (state["cov"] or o) else (None if (state["cov"] is None or o is None) else False)
                else:
                    state["cov"] = None
                continue
            b = match.binop(n) if n["k"] in ("BinaryOperator", "CompoundAssignOperator", "CXXOperatorCallExpr") else None
            if b and b[0].endswith("=") and b[0] not in ("==", "!=", "<=", ">=") and ref_of(b[1]) == mv:
                state["cov"] = covers(b[2]) if b[0] == "=" else None
        if verdict == "unreached":
            continue
        reached += 1
        if verdict is None or (verdict is False and has_aux(lf["val"])):
            raise dtable.Undecidable("%s: cannot tell whether the bound of handles_.resize (%s) includes the only element of a one-element heap"
                                     % (fn.nloc(rs[0]), dtable.describe(bound)))
        if verdict is False:
            ck.violation("HANDLE-GROW", fn.qname, "single-element",
                         "on the path that skips the sift loop (one element) the bound for handles_.resize does not include that element: out-of-bounds handle write", fn.nloc(decl[0]))
            return
    if not reached:
        raise dtable.Undecidable("%s: handles_.resize is not reached in the one-element scenario" % fn.nloc(rs[0]))

    # ---- (2) every element visited by the sift loop feeds the maximum: the hole value and all children
    fed = set()
    unknown = []
    roles, value_var = index_roles(fn)
    sb = simplify(fn.body)
    full = any(full_scan_max(fn, l, mv) for l in ir.walk(fn.body) if l["k"] in ("ForStmt", "CXXForRangeStmt"))
    for y in ir.walk(sb):
        if y["k"] == "VarDecl" and y.get("did") == mv:
            continue
        b = match.binop(y) if y["k"] in ("BinaryOperator", "CompoundAssignOperator", "CXXOperatorCallExpr") else None
        if not (b and b[0].endswith("=") and b[0] not in ("==", "!=", "<=", ">=") and ref_of(b[1]) == mv):
            u = match.unop(y, ("++", "--"))
            if u and ref_of(u[1]) == mv:
                unknown.append(y)
            continue
        xu = xu_of(y)
        if xu and xu[0] == "max" and ref_of(xu[1]) == mv:
            r, v = operand_role(xu[2], roles, value_var, fn)
            if r:
                fed.add("value" if r == "hole" else r)
            elif _mentions_field(xu[2], "heap_") or any(z["k"] == "DeclRefExpr" and z["ref"].get("kind") == "local" for z in ir.walk(xu[2])):
                unknown.append(y)
        elif _mentions_field(b[2], "heap_"):
            unknown.append(y)
    if full or {"value", "child"} <= fed:
        ck.ok("HANDLE-GROW", inst_tag(fn) + "::heapify", "resize bound = max over root/hole values and all children; single-element path reads heap_.front()")
        return
    if unknown:
        raise dtable.Undecidable("%s: an update of the maximum key is not understood: %s" % (fn.nloc(unknown[0]), dtable.describe(unknown[0])))
    ck.violation("HANDLE-GROW", fn.qname, "coverage", "the maximum key does not take every visited element into account (needs the hole value and all children)", fn.loc)


# ---------------------------------------------------------------- radix heap
def bucket_index(e):
    """index expr if e is this->buckets_data_[i]"""
    p = match.index_parts(e)
    if p and match.this_field(p[0]) == "buckets_data_":
        return p[1]
    return None


def bucket_of(fn, e):
    """index expr if e denotes this->buckets_data_[i], directly or through a local reference bound to it"""
    t = strip_casts(e)
    idx = bucket_index(t)
    if idx is None and t is not None and t["k"] == "DeclRefExpr":
        # reference alias: auto& data_source = buckets_data_[i]
        d = [y for y in ir.walk(fn.body) if y["k"] == "VarDecl" and y["did"] == t["ref"]["id"] and kids(y)]
        if d:
            idx = bucket_index(kids(d[0])[0])
    return idx


def resolve_local(fn, e, depth=0):
    """e with never-written locals that were initialised from plain values (no calls, no fields) replaced by those values"""
    if e is None or depth > 4:
        return e
    mapping = {}
    for y in ir.walk(e):
        if y["k"] == "DeclRefExpr" and y["ref"].get("kind") == "local" and y["ref"]["id"] not in mapping:
            did = y["ref"]["id"]
            d = [z for z in ir.walk(fn.body) if z["k"] == "VarDecl" and z.get("did") == did and kids(z) and kids(z)[0] is not None]
            if not d or any(z["k"] in ("MemberExpr", "This") or "callee" in z for z in ir.walk(kids(d[0])[0])):
                continue
            written = False
            for z in ir.walk(fn.body):
                bb = match.binop(z)
                if bb and bb[0].endswith("=") and bb[0] not in ("==", "!=", "<=", ">=") and ref_of(bb[1]) == did and strip_casts(bb[1])["k"] == "DeclRefExpr":
                    written = True
                u = match.unop(z, ("++", "--"))
                if u and ref_of(u[1]) == did:
                    written = True
            if not written:
                mapping[did] = kids(d[0])[0]
    if not mapping:
        return e
    return resolve_local(fn, dtable._subst(e, mapping), depth + 1)


def index_relation(fn, e, idx, sub=None):
    """'same' | 'diff' | 'maybe': does the index expression e (inside a helper: through the substitution sub) denote the
    bucket idx?  Two different plain designators (a variable, a field) are taken as different buckets."""
    if sub:
        e = dtable._subst(e, sub)
    a, b = resolve_local(fn, e), resolve_local(fn, idx)
    if match.same_expr(a, b):
        return "same"
    sa, sb = strip_casts(a), strip_casts(b)
    simple = lambda n: n is not None and (n["k"] == "DeclRefExpr" or (n["k"] == "MemberExpr" and match.this_field(n)) or const_int(n) is not None)
    return "diff" if simple(sa) and simple(sb) else "maybe"


def site_region(fn, c):
    """the statement whose paths are tabulated for a bucket operation: the body of the innermost loop around it, else the function"""
    loop, via = enclosing(fn, c, LOOPS)
    if loop is None:
        return fn.body
    body = kids(loop)[2] if loop["k"] == "CXXForRangeStmt" else match.loop_parts(loop)[3]
    if not same_node(via, body):
        raise dtable.Undecidable("%s: bucket operation in the control part of a loop" % fn.nloc(c))
    return body


def helper_nodes(body):
    """[(node, conditional)] for the nodes of a loop-free helper; conditional = not evaluated on every path through the helper
    (inside a branch, behind an early return, right operand of && / ||, arm of ?:)"""
    out = []

    def expr(e, cond):
        if e is None:
            return
        out.append((e, cond))
        ch = kids(e)
        if e["k"] == "ConditionalOperator" and len(ch) == 3:
            expr(ch[0], cond)
            expr(ch[1], True)
            expr(ch[2], True)
        elif e["k"] == "BinaryOperator" and e.get("op") in ("&&", "||") and len(ch) == 2:
            expr(ch[0], cond)
            expr(ch[1], True)
        else:
            for c in ch:
                expr(c, cond)
        for key in ("init", "condvar"):
            if isinstance(e.get(key), dict):
                expr(e[key], cond)

    def stmts(lst, cond):
        for s in lst:
            if s is None:
                continue
            if s["k"] == "CompoundStmt":
                out.append((s, cond))
                cond = stmts(kids(s), cond)
            elif s["k"] == "IfStmt":
                out.append((s, cond))
                for key in ("init", "condvar"):
                    if isinstance(s.get(key), dict):
                        expr(s[key], cond)
                expr(kids(s)[0], cond)
                for br in kids(s)[1:]:
                    out.extend((y, True) for y in ir.walk(br))
                if any(y["k"] in ("ReturnStmt", "BreakStmt", "ContinueStmt", "GotoStmt", "CXXThrowExpr") for br in kids(s)[1:] for y in ir.walk(br)):
                    cond = True
            elif s["k"] in ("SwitchStmt", "CXXTryStmt", "LabelStmt", "GotoStmt", "AttributedStmt"):
                out.extend((y, True) for y in ir.walk(s))
                cond = True
            elif s["k"] == "ReturnStmt":
                expr(s, cond)
                cond = True
            else:
                expr(s, cond)
        return cond
    stmts([body], False)
    return out


def expanded(tu, fn, lf):
    """(node, substitution, in_loop, event number) for the nodes a leaf executes, with the bodies of loop-free helpers called
    on *this (one level; parameters stand for the arguments); second result: (call, callee, event number) of the helpers
    that were not expanded"""
    out, opaque = [], []
    for ei, (kind, n) in enumerate(leaf_items(lf)):
        for y in ir.walk(n):
            out.append((y, None, kind == "loop", ei))
            if "callee" in y and y.get("member_call") and kids(y) and strip_casts(kids(y)[0])["k"] == "This":
                cal = tu.by_did.get(y["callee"].get("did"))
                if cal is None or cal.body is None or cal.did == fn.did or cal.record != fn.record:
                    if not y["callee"].get("const"):
                        opaque.append((y, None, ei))
                    continue
                if any(z["k"] in LOOPS or z["k"] == "LambdaExpr" for z in ir.walk(cal.body)) or kind == "loop":
                    opaque.append((y, cal, ei))
                    continue
                sub = {p_["did"]: a for p_, a in zip(cal.params, kids(y)[1:])}
                # what the helper does on some of its paths only is a 'maybe' for the caller (like the body of a loop), never a fact
                out += [(z, sub, cond, ei) for z, cond in helper_nodes(cal.body)]
                for c2, cal2 in this_callees(tu, cal):
                    opaque.append((c2, cal2, ei))
    return out, opaque


def field_unknowns(tu, fn, nodes, opaque, field, known_calls=(), since=0):
    """uses of this->field on a leaf whose effect the rule does not classify (so that "the required update is absent"
    would be a guess): unknown member functions, aliases, the field handed to other functions, helpers that were not
    expanded and write the field (from event number `since` on)"""
    out = []
    par_of = {}
    for y, sub, in_loop, ei in nodes:
        for c in kids(y):
            if c is not None:
                par_of[id(c)] = y
    for y, sub, in_loop, ei in nodes:
        if not (y["k"] == "MemberExpr" and match.this_field(y) == field):
            continue
        par = par_of.get(id(y))
        node = y
        ip = match.index_parts(par) if par is not None else None
        if ip and strip_casts(ip[0]) is y:
            node, par = par, par_of.get(id(par))
        while par is not None and par["k"] in CASTS:
            node, par = par, par_of.get(id(par))
        if par is None:
            continue
        if "callee" in par and par.get("member_call") and kids(par) and strip_casts(kids(par)[0]) is strip_casts(node) and not par.get("op"):
            if par["callee"]["name"] in known_calls or par["callee"].get("const"):
                continue
            out.append("%s.%s() at line %s" % (field, par["callee"]["name"], par.get("l")))
        elif par["k"] == "VarDecl" and (par.get("isref") or (par.get("ty") or "").rstrip().endswith(("&", "*"))):
            out.append("alias of %s at line %s" % (field, par.get("l")))
        elif par["k"] == "CXXForRangeStmt":
            out.append("loop over %s at line %s" % (field, par.get("l")))
        elif "callee" in par and not par.get("op") and not par["callee"].get("const"):
            if par["callee"]["name"] not in ("min", "max", "move", "forward"):
                out.append("%s passed to %s() at line %s" % (field, par["callee"]["name"], par.get("l")))
        elif par["k"] == "UnaryOperator" and par.get("op") == "&":
            out.append("address of %s at line %s" % (field, par.get("l")))
    for c, cal, ei in opaque:
        if ei >= since and (cal is None or field in written_fields(tu, cal)):
            out.append("%s() may write %s" % (c["callee"]["name"], field))
    return out


def moved_between_buckets(fn, c):
    """the inserted element is the loop variable of a range-for over another bucket: elements change buckets, size_ stays"""
    loop, _ = enclosing(fn, c, ("CXXForRangeStmt",))
    if loop is None or bucket_of(fn, kids(loop)[0]) is None or kids(loop)[1] is None:
        return False
    arg = kids(c)[-1]
    mv = match.call_named(arg, ("move",))
    arg = kids(mv)[-1] if mv else arg
    return ref_of(arg) == kids(loop)[1].get("did")


def radix_site(ck, tu, fn, tag, c, idx, op):
    """one insertion into / emptying of a bucket: tabulates the paths of the enclosing region through the operation"""
    def atomize(n, run, c=c, idx=idx):
        e = match.call_named(n, ("empty",))
        if e is not None and e.get("member_call") and kids(e):
            bi = bucket_of(fn, kids(e)[0])
            if bi is not None and match.same_expr(bi, idx):
                done = any(ev[0] == "expr" and inside(fn, c, ev[1]) for ev in run.events)
                return ("empty-after" if done else "empty-before", False)
        # a comparison of the bucket's size() with a constant that separates 0 from every other size is the same test
        if n["k"] == "BinaryOperator" and n.get("op") in ("==", "!=", "<", ">", "<=", ">="):
            szs = [y for y in ir.walk(n) if "callee" in y and y["callee"]["name"] == "size" and y.get("member_call") and len(kids(y)) == 1
                   and bucket_of(fn, kids(y)[0]) is not None and match.same_expr(bucket_of(fn, kids(y)[0]), idx)]
            if len(szs) == 1:
                vals = [eval_arith(n, {}, lambda x, k=k: k if same_node(x, szs[0]) else None) for k in (0, 1, 2, 7)]
                if None not in vals and vals[0] != vals[1] and vals[1] == vals[2] == vals[3]:
                    done = any(ev[0] == "expr" and inside(fn, c, ev[1]) for ev in run.events)
                    return ("empty-after" if done else "empty-before", not vals[0])
        return base_atom(n)
    leaves = [lf for lf in dtable.explore(simplify(site_region(fn, c)), atomize, fn)
              if any(kind == "expr" and inside(fn, c, n) for kind, n in leaf_items(lf))]
    if not leaves:
        raise dtable.Undecidable("%s: no path through the bucket operation found" % fn.nloc(c))
    moving = op == "insert" and (moved_between_buckets(fn, c) or fn.name.startswith("reorganize"))
    missing = None          # (what, leaf valuation, reasons why the evidence is not conclusive)
    facts = []
    for lf in leaves:
        nodes, opaque = expanded(tu, fn, lf)
        val = lf["val"]
        others = {k: v for k, v in val.items() if k not in ("empty-before", "empty-after")}
        at = min(ei for y, sub, in_loop, ei in nodes if same_node(y, c))       # event that performs the bucket operation
        hit = {"set_bit": False, "clear_bit": False, "min": False, "reset": False, "+": False, "-": False}
        maybe = {"set_bit": [], "clear_bit": [], "min": [], "reset": [], "size": []}
        for y, sub, in_loop, ei in nodes:
            if "callee" in y and y.get("member_call") and kids(y) and match.this_field(kids(y)[0]) == "filled_" and y["callee"]["name"] in ("set_bit", "clear_bit"):
                rel = index_relation(fn, kids(y)[1], idx, sub) if len(kids(y)) > 1 else "maybe"
                if rel == "same" and not in_loop:
                    hit[y["callee"]["name"]] = True
                elif rel != "diff":
                    maybe[y["callee"]["name"]].append("%s at line %s" % (dtable.describe(y), y.get("l")))
            xu = xu_of(y) if y["k"] in ("BinaryOperator", "CXXOperatorCallExpr") else None
            b = match.binop(y) if y["k"] in ("BinaryOperator", "CompoundAssignOperator", "CXXOperatorCallExpr") and not y.get("xu") else None
            if b and not (b[0].endswith("=") and b[0] not in ("==", "!=", "<=", ">=")):
                b = None
            tgt = xu[1] if xu else (b[1] if b else None)
            ip = match.index_parts(tgt) if tgt is not None else None
            if ip and match.this_field(ip[0]) == "mins_":
                rel = index_relation(fn, ip[1], idx, sub)
                if xu:
                    kind = "min" if xu[0] == "min" else "raise"
                elif b[0] == "=" and match.call_named(b[2], ("max",)) and not kids(match.call_named(b[2], ("max",))):
                    kind = "reset"
                elif b[0] == "=" and not _mentions_field(b[2], "mins_") and not has_aux(others):
                    kind = "overwrite"       # unconditional on this path: the old minimum is lost
                else:
                    kind = "other"
                where = "%s at line %s" % (dtable.describe(y)[:60], y.get("l"))
                if kind in ("min", "reset"):
                    if rel == "same" and not in_loop:
                        hit[kind] = True
                    elif rel != "diff":
                        maybe[kind].append(where)
                elif kind == "other" and rel != "diff":
                    maybe["min"].append(where)
                    maybe["reset"].append(where)
            fd = match.field_delta(y, "size_")
            if fd and not in_loop:
                hit[fd[0]] = True
            elif (fd and in_loop) or (b and match.this_field(b[1]) == "size_" and strip_casts(b[1])["k"] == "MemberExpr" and not fd):
                maybe["size"].append("%s at line %s" % (dtable.describe(y)[:60], y.get("l")))
        facts.append((lf, nodes, opaque, others, at, hit, maybe))
    fl_known = ("set_bit", "clear_bit", "is_set", "empty", "find_lsb")
    for lf, nodes, opaque, others, at, hit, maybe in facts:
        val = lf["val"]

        def absent(what, field, eff, cands, known_calls=(), since=0):
            """the update is not on this path; conclusive only if nothing on the path could be that update in another
            form, and if the paths that do perform it differ from this one in understood conditions only"""
            why = list(cands) + field_unknowns(tu, fn, nodes, opaque, field, known_calls, since)
            if has_aux(others) and any(f[5][eff] for f in facts):
                why.append("the path depends on %s" % ", ".join(sorted(k for k in others if k.startswith(("aux:", "flag:")))[:2]))
            return (what, val, why)

        if op == "insert":
            if val.get("empty-before") is not False and not hit["set_bit"]:
                missing = missing or absent("filled_ bit set when the bucket was empty", "filled_", "set_bit", maybe["set_bit"], fl_known)
            if not hit["min"]:
                missing = missing or absent("mins_[idx] lowered to the new key", "mins_", "min", maybe["min"])
            if not moving and not hit["+"]:
                missing = missing or absent("size_ incremented", "size_", "+", maybe["size"])
        else:
            if op == "pop_back":
                e = val.get("empty-after")
                if e is not False and not hit["clear_bit"]:
                    missing = missing or absent("filled_ bit cleared when the bucket became empty", "filled_", "clear_bit", maybe["clear_bit"], fl_known, at)
                elif e is not True and hit["clear_bit"]:
                    # positive: the bit is cleared on a path on which the bucket is not known to be empty
                    missing = missing or ("filled_ bit kept while the bucket still holds elements", val,
                                          ["the path depends on %s" % ", ".join(sorted(others)[:2])] if has_aux(others) else [])
            elif not hit["clear_bit"]:
                missing = missing or absent("filled_ bit cleared", "filled_", "clear_bit", maybe["clear_bit"], fl_known, at)
            if op in ("pop_back", "swap") and not hit["-"]:
                missing = missing or absent("size_ decremented", "size_", "-", maybe["size"])
            if op == "clear" and not hit["reset"]:
                # clear of a drained bucket: its minimum must be reset too
                missing = missing or absent("mins_[idx] reset to the maximum", "mins_", "reset", maybe["reset"])
        if missing:
            break
    if missing is None:
        if op == "insert":
            ck.ok("RADIX-COUPLED", tag + " insert", "set_bit iff bucket was empty, mins_ lowered, size_ %s" % ("unchanged (move)" if moving else "incremented"))
        else:
            ck.ok("RADIX-COUPLED", tag + " " + op, "filled_ bit / mins_ / size_ follow the bucket")
        return
    what, val, why = missing
    if why:
        raise dtable.Undecidable("%s: %s of a bucket without '%s' on the path %s - cannot be decided: %s"
                                 % (fn.nloc(c), op, what, dtable.fmt_val(val) or "(unconditional)", "; ".join(why[:3])))
    if op == "insert":
        ck.violation("RADIX-COUPLED", fn.qname, fn.name + ":insert", "insertion into a bucket without: %s (path: %s)" % (what, dtable.fmt_val(val) or "unconditional"), fn.nloc(c))
    else:
        ck.violation("RADIX-COUPLED", fn.qname, fn.name + ":" + op,
                     "a bucket is emptied without keeping filled_/mins_/size_ in step: %s (path: %s)" % (what, dtable.fmt_val(val) or "unconditional"), fn.nloc(c))


def check_radix_coupled(ck, tu):
    fns = [f for f in tu.find(record=RH)]
    ck.require(fns, "RadixHeap not instantiated")
    n_ins = n_del = 0
    for fn in fns:
        tag = "%s::%s" % (inst_tag(fn), fn.name)
        sites = []
        for x in ir.walk(fn.body):
            c = match.call_named(x, ("push_back", "emplace_back", "pop_back", "clear", "swap")) if "callee" in x else None
            if not (c and c.get("member_call") and kids(c)):
                continue
            idx = bucket_of(fn, kids(c)[0])
            if idx is None:
                continue
            op = c["callee"]["name"]
            if op in ("push_back", "emplace_back"):
                sites.append((c, idx, "insert"))
            elif fn.name != "clear":
                sites.append((c, idx, op))
        for c, idx, op in sites:
            if op == "insert":
                n_ins += 1
            else:
                n_del += 1
            ck.guarded(lambda c=c, idx=idx, op=op: radix_site(ck, tu, fn, tag, c, idx, op))
    return n_ins, n_del


PURE_FREE = ("min", "max", "move", "forward", "size", "begin", "end", "cbegin", "cend", "get", "addressof", "distance")


def field_aliases(fn):
    """decl id -> field name for local references / pointers / range-for variables that stand for (an element of) a field of *this"""
    out = {}

    def root_field(e):
        base = strip_casts(e)
        while base is not None:
            f = match.this_field(base)
            if f:
                return f
            if base["k"] == "DeclRefExpr" and base["ref"]["id"] in out:
                return out[base["ref"]["id"]]
            p = match.index_parts(base)
            if p:
                base = strip_casts(p[0])
                continue
            d = match.deref_of(base)
            if d is not None:
                base = strip_casts(d)
                continue
            if base["k"] == "UnaryOperator" and base.get("op") == "&" and kids(base):
                base = strip_casts(kids(base)[0])
                continue
            if "callee" in base and base.get("member_call") and kids(base) and base["callee"]["name"] in ("begin", "end", "data", "front", "back", "at"):
                base = strip_casts(kids(base)[0])
                continue
            b = match.binop(base, ("+", "-"))
            if b:
                base = strip_casts(b[1])
                continue
            return None
        return None
    for _ in range(3):
        for x in ir.walk(fn.body):
            if x["k"] == "VarDecl" and kids(x) and kids(x)[0] is not None and x.get("did") not in out:
                ty = (x.get("ty") or "").rstrip()
                if x.get("isref") or ty.endswith(("&", "*")) or "iterator" in ty:
                    f = root_field(kids(x)[0])
                    if f:
                        out[x["did"]] = f
            if x["k"] == "CXXForRangeStmt" and len(kids(x)) >= 2 and kids(x)[1] is not None and kids(x)[1].get("did") not in out:
                f = root_field(kids(x)[0])
                v = kids(x)[1]
                if f and (v.get("isref") or (v.get("ty") or "").rstrip().endswith("&")):
                    out[v["did"]] = f
    return out, root_field


def node_writes(tu, fn, x, aliases, root_field, depth, seen, opaque):
    """fields of *this that the node x of fn may write (see written_fields)"""
    out = set()
    b = match.binop(x)
    if b and b[0] in ("=", "+=", "-=", "|=", "&=", "*=", "/=", "^=", "<<=", ">>=", "%="):
        f = root_field(b[1])
        if f:
            out.add(f)
    u = match.unop(x, ("++", "--"))
    if u and root_field(u[1]) and not (strip_casts(u[1])["k"] == "DeclRefExpr"):
        out.add(root_field(u[1]))
    if "callee" in x and x.get("member_call") and kids(x):
        obj = strip_casts(kids(x)[0])
        f = root_field(obj)
        if f and not x["callee"].get("const"):
            out.add(f)
        if obj["k"] == "This":
            cal = tu.by_did.get(x["callee"]["did"])
            if cal is not None and cal.body is not None:
                out |= written_fields(tu, cal, depth + 1, seen, opaque)
            elif opaque is not None and not x["callee"].get("const"):
                opaque.append("%s() at line %s (body not available)" % (x["callee"]["name"], x.get("l")))
    fa = fill_of(fn, x)
    if fa and root_field(fa[0]):
        out.add(root_field(fa[0]))
    if x["k"] == "CXXForRangeStmt":
        f = match.this_field(kids(x)[0])
        if f and any("callee" in y and y.get("member_call") and not y["callee"].get("const") for y in ir.walk(kids(x)[2])):
            out.add(f)
    if opaque is not None:
        if x["k"] == "LambdaExpr":
            opaque.append("lambda at line %s" % x.get("l"))
        if "callee" in x and not x.get("member_call") and not x.get("op") and x["k"] not in ("CXXConstructExpr", "CXXTemporaryObjectExpr") \
                and x["callee"]["name"] not in PURE_FREE and not match.fill_all(x):
            # a free function that receives a field (or something derived from it) by reference may write it
            if any(y["k"] == "This" or (y["k"] == "DeclRefExpr" and y["ref"]["id"] in aliases) for a_ in kids(x) for y in ir.walk(a_)):
                opaque.append("%s(...) at line %s" % (x["callee"]["name"], x.get("l")))
    return out


def written_fields(tu, fn, depth=0, seen=None, opaque=None):
    """fields of *this written by fn, directly or through member calls on this / on fields (also through local references
    to them).  `opaque`, if given, collects descriptions of operations whose effect on the fields is not understood."""
    seen = seen if seen is not None else set()
    if fn.did in seen or depth > 4:
        return set()
    seen.add(fn.did)
    out = set()
    aliases, root_field = field_aliases(fn)
    for x in ir.walk(fn.body):
        out |= node_writes(tu, fn, x, aliases, root_field, depth, seen, opaque)
    return out


# ---------------------------------------------------------------- values of never-written locals
ALL = "*"
_ASSIGN_OPS = ("=", "+=", "-=", "|=", "&=", "*=", "/=", "^=", "<<=", ">>=", "%=")
_VALUE_OPS = ("[]", "+", "-", "*", "/", "%", "<", ">", "<=", ">=", "==", "!=", "&&", "||", "!", "<<", ">>", "&", "|", "^")
ACCESSORS = ("back", "front", "begin", "end", "cbegin", "cend", "rbegin", "rend", "data", "at", "size", "empty", "capacity")
PURE_IN_INIT = ("size", "empty", "back", "front", "at", "data", "begin", "end", "parent", "left", "not_present", "min", "max", "top")


def local_facts(fn):
    """(decl id -> VarDecl with an initialiser, ids of the locals / parameters that may change after their initialisation:
    assigned, stepped, address taken, bound to a non-const reference, handed to a function that may take them by
    reference, touched by a lambda; range-for variables)"""
    got = getattr(fn, "_c13_local_facts", None)
    if got is not None:
        return got
    decls, mutable = {}, set()
    for y in fn.nodes():
        k = y["k"]
        if k == "VarDecl" and y.get("did") is not None:
            if kids(y) and kids(y)[0] is not None:
                decls.setdefault(y["did"], y)
                ty = (y.get("ty") or "").rstrip()
                if (y.get("isref") or ty.endswith(("&", "*"))) and not ty.startswith("const ") and ref_of(kids(y)[0]) is not None:
                    mutable.add(ref_of(kids(y)[0]))
            par = fn.parent(y)
            if par is not None and par["k"] == "CXXForRangeStmt":
                mutable.add(y["did"])
        if k == "CXXForRangeStmt":
            for c in kids(y)[:2]:
                if c is not None and c["k"] == "VarDecl":
                    mutable.add(c.get("did"))
        b = match.binop(y)
        if b and b[0] in _ASSIGN_OPS and strip_casts(b[1]) is not None and strip_casts(b[1])["k"] == "DeclRefExpr":
            mutable.add(ref_of(b[1]))
        u = match.unop(y, ("++", "--"))
        if u and ref_of(u[1]) is not None:
            mutable.add(ref_of(u[1]))
        if k == "UnaryOperator" and y.get("op") == "&" and kids(y) and ref_of(kids(y)[0]) is not None:
            mutable.add(ref_of(kids(y)[0]))
        if k == "LambdaExpr":
            mutable |= {z["ref"]["id"] for z in fn.nodes() if z["k"] == "DeclRefExpr"}
        if "callee" in y and not y.get("op") and y["callee"]["name"] not in ("min", "max"):
            cal = fn.tu.by_did.get(y["callee"].get("did"))
            args = kids(y)[1:] if y.get("member_call") else kids(y)
            for i, a in enumerate(args):
                s = a
                while s is not None and s["k"] in CASTS and kids(s) and s.get("cast") == "NoOp":
                    s = kids(s)[0]
                if s is None or s["k"] != "DeclRefExpr":
                    continue            # a converted value: no reference to the variable itself is passed
                pty = (cal.params[i].get("ty") or "").rstrip() if cal is not None and i < len(cal.params) else None
                if pty is None or (pty.endswith(("&", "*")) and not pty.startswith("const ")):
                    mutable.add(s["ref"]["id"])
    mutable.discard(None)
    for did, d in decls.items():
        ty = (d.get("ty") or "").rstrip()
        if ty.startswith("const ") and not ty.endswith(("&", "*")):
            mutable.discard(did)        # a const object cannot change
    fn._c13_local_facts = (decls, mutable)
    return fn._c13_local_facts


def init_reads(e):
    """(fields of *this, locals / parameters) that a side-effect free expression reads (ALL among the fields: any of them);
    None if e is not understood to be side-effect free"""
    fields, locs = set(), set()

    def rec(y):
        if y is None:
            return True
        k = y["k"]
        if k == "This":
            fields.add(ALL)
            return True
        if k == "MemberExpr" and match.this_field(y):
            fields.add(y["member"])
            return True
        if k == "DeclRefExpr":
            if y["ref"].get("kind") in ("local", "param"):
                locs.add(y["ref"]["id"])
                return True
            return const_int(y) is not None
        if "callee" in y:
            if y["k"] in ("CXXConstructExpr", "CXXTemporaryObjectExpr"):
                return False
            if not (y.get("op") in _VALUE_OPS or (not y.get("op") and (y["callee"]["name"] in PURE_IN_INIT or (y.get("member_call") and y["callee"].get("const"))))):
                return False
        elif k in ("BinaryOperator",):
            if y.get("op") not in _VALUE_OPS and y.get("op") != ",":
                return False
        elif k == "UnaryOperator":
            if y.get("op") not in ("-", "+", "!", "~", "*"):
                return False
        elif k not in CASTS + ("ConditionalOperator", "ArraySubscriptExpr", "ParenExpr", "MemberExpr", "IntegerLiteral", "CXXBoolLiteralExpr",
                               "CharacterLiteral", "UnaryExprOrTypeTraitExpr", "DefaultArg"):
            return False
        return all(rec(c) for c in kids(y))
    return (fields, locs) if rec(e) else None


def field_writers(tu, fn):
    """[(node, fields of *this it may write; ALL = any)] for the nodes of fn"""
    got = getattr(fn, "_c13_writers", None)
    if got is None:
        got = []
        aliases, root_field = field_aliases(fn)
        for x in ir.walk(fn.body):
            opaque = []
            w = node_writes(tu, fn, x, aliases, root_field, 0, set(), opaque)
            if opaque:
                w = w | {ALL}
            if match.call_named(x, ("swap", "iter_swap")) and "callee" in x and not x.get("member_call") and len(kids(x)) == 2 \
                    and all(root_field(a) for a in kids(x)):
                w = {root_field(a) for a in kids(x)}        # std::swap(f[i], g.back()) exchanges elements of these fields, nothing else
            if "callee" in x and x.get("member_call") and kids(x) and strip_casts(kids(x)[0])["k"] != "This" and x["callee"]["name"] in ACCESSORS:
                continue                # hands out a reference / iterator; a write through it is seen where it happens
            if w:
                got.append((x, w))
        fn._c13_writers = got
    return got


def written_between(tu, fn, g, fields, pa, pb, skip=()):
    """a node that may write one of the fields on a path from CFG position pa to pb (both exclusive), else None"""
    for w, fs in field_writers(tu, fn):
        if not (ALL in fs or ALL in fields or fs & fields) or any(same_node(w, s_) for s_ in skip):
            continue
        pw = g.pos_deep(w)
        if pw is None or (g.reachable(pa, pw) and g.reachable(pw, pb)):
            return w
    return None


def resolve_at(tu, fn, g, e, at, depth=0):
    """e with never-written locals replaced by their initialisers, where the initialiser evaluated at CFG position `at`
    (the place where e is evaluated) still yields the value of the local: it is side-effect free, the locals it reads
    never change and no field it reads can be written between the declaration and `at`"""
    if e is None or at is None or depth > 3:
        return e
    decls, mutable = local_facts(fn)
    mapping = {}
    for y in ir.walk(e):
        if y["k"] != "DeclRefExpr" or y["ref"].get("kind") != "local":
            continue
        did = y["ref"]["id"]
        if did in mapping or did in mutable or did not in decls:
            continue
        d = decls[did]
        ty = (d.get("ty") or "").rstrip()
        if d.get("isref") or ty.endswith(("&", "*")):
            continue
        r = init_reads(kids(d)[0])
        pd = g.pos_deep(d)
        if r is None or pd is None or (r[1] & mutable):
            continue
        if not (pd == at or g.reachable(pd, at)):
            continue
        if r[0] and written_between(tu, fn, g, r[0], pd, at) is not None:
            continue
        mapping[did] = kids(d)[0]
    if not mapping:
        return e
    return resolve_at(tu, fn, g, dtable._subst(e, mapping), at, depth + 1)


def same_value(tu, fn, g, a, pa, b, pb):
    """a evaluated at CFG position pa and b evaluated at pb denote the same value: the same expression, or the same after
    never-written locals were replaced by their initialisers (resolve_at) and nothing the result reads changes between
    the two places"""
    if match.same_expr(a, b):
        return True
    if pa is None or pb is None:
        return False
    ra, rb = resolve_at(tu, fn, g, a, pa), resolve_at(tu, fn, g, b, pb)
    if not match.same_expr(ra, rb):
        return False
    r = init_reads(ra)
    if r is None or (r[1] & local_facts(fn)[1]):
        return False
    if not r[0]:
        return True
    return written_between(tu, fn, g, r[0], pa, pb) is None and written_between(tu, fn, g, r[0], pb, pa) is None


def container_of(fn, e):
    """the container whose elements e[...] denotes: e itself, or what a never-written local reference / pointer /
    iterator e was bound to (auto& c = x; T* p = x.data(); auto it = x.begin(); T* p = &x[0])"""
    s = strip_casts(e)
    if s is None or s["k"] != "DeclRefExpr" or s["ref"].get("kind") != "local":
        return e
    decls, mutable = local_facts(fn)
    d = decls.get(s["ref"]["id"])
    if d is None or s["ref"]["id"] in mutable:
        return e
    ty = (d.get("ty") or "").rstrip()
    init = match.strip_conv(kids(d)[0])
    if d.get("isref") or ty.endswith("&"):
        return init if init is not None and (init["k"] == "MemberExpr" or init["k"] == "DeclRefExpr") else e
    c = match.call_named(init, ("data", "begin"))
    if c is not None and c.get("member_call") and len(kids(c)) == 1:
        return kids(c)[0]
    if init is not None and init["k"] == "UnaryOperator" and init.get("op") == "&" and kids(init):
        ip = match.index_parts(kids(init)[0])
        if ip and const_int(ip[1]) == 0:
            return ip[0]
    return e


def fill_of(fn, n):
    """match.fill_all, and the counting loop written through a local alias of the container:
    T* p = c.data(); for (i = 0; i < c.size(); ++i) p[i] = v;   (also auto& r = c / c.begin() / &c[0])"""
    fa = match.fill_all(n)
    if fa or n is None or n["k"] != "ForStmt":
        return fa
    init, cond, inc, body = match.loop_parts(n)
    stmts = [s for s in (kids(body) if body is not None and body["k"] == "CompoundStmt" else [body]) if s is not None]
    var = [y for y in ir.walk(init) if y["k"] == "VarDecl"] if init is not None else []
    c = match.binop(cond, ("<", "!=")) if cond is not None else None
    if not (len(var) == 1 and kids(var[0]) and const_int(kids(var[0])[0]) == 0 and c and ref_of(c[1]) == var[0]["did"] and len(stmts) == 1):
        return None
    did = var[0]["did"]
    u = match.unop(inc, ("++",)) if inc is not None else None
    bi = match.binop(inc, ("+=",)) if inc is not None else None
    if not ((u and ref_of(u[1]) == did) or (bi and ref_of(bi[1]) == did and const_int(bi[2]) == 1)):
        return None
    sz = match.call_named(match.strip_conv(c[2]), ("size",))
    b = match.binop(stmts[0], ("=",))
    ip = match.index_parts(b[1]) if b else None
    if sz is None or not sz.get("member_call") or len(kids(sz)) != 1 or not ip or ref_of(ip[1]) != did:
        return None
    if any(y["k"] == "DeclRefExpr" and y["ref"]["id"] == did for y in ir.walk(b[2])):
        return None
    ca, cb = container_of(fn, ip[0]), container_of(fn, kids(sz)[0])
    if match.same_expr(ca, cb) and strip_casts(ca)["k"] in ("MemberExpr", "DeclRefExpr"):
        return ca, b[2]
    return None


def check_build_replaces(ck, tu, rec):
    """build_heap() replaces the heap's contents: no element is appended to heap_ on a path that has not emptied or
    overwritten it first"""
    RESET = ("assign", "clear", "resize", "operator=", "swap")
    APPEND = ("push_back", "emplace_back", "insert", "emplace")
    SIZING = ("resize", "assign")

    def sizing(r):
        """the reset gives heap_ a size of the caller's choosing: resize(n) / assign(n, v) / heap_ = vector(n [, v])"""
        if r["callee"]["name"] in SIZING:
            return True
        b = match.binop(r, ("=",))
        v = strip_casts(b[2]) if b else None
        if v is not None and v["k"] in ("CXXConstructExpr", "CXXTemporaryObjectExpr") and v["callee"]["name"] == "vector":
            args = [a for a in kids(v) if a is not None and a["k"] != "DefaultArg"]
            aty = (args[0].get("ty") or "").replace("const ", "").strip() if args else ""
            return len(args) in (1, 2) and aty in BITS
        return False
    for fn in tu.find(name="build_heap", record=rec):
        def one(fn=fn):
            g = cfgm.CFG(fn)
            resets, appends, writes, delegates, other = [], [], [], [], []
            for z in fn.nodes():
                if "callee" not in z:
                    continue
                nm = z["callee"]["name"]
                on_heap = z.get("member_call") and kids(z) and match.this_field(kids(z)[0]) == "heap_"
                if z["k"] == "CXXOperatorCallExpr" and z.get("op") == "=" and kids(z) and match.this_field(kids(z)[0]) == "heap_":
                    resets.append(z)
                elif on_heap and nm in RESET:
                    resets.append(z)
                elif on_heap and nm in APPEND:
                    appends.append(z)
                elif nm in ("back_inserter", "inserter", "front_inserter") and kids(z) and match.this_field(kids(z)[0]) == "heap_":
                    appends.append(z)
                elif nm in ("copy", "move", "copy_n", "uninitialized_copy") and any(
                        match.this_field(kids(q)[0]) == "heap_" for a in kids(z) for q in ir.walk(a)
                        if "callee" in q and q["callee"]["name"] == "begin" and q.get("member_call") and kids(q)):
                    writes.append(z)
                elif z.get("member_call") and kids(z) and strip_casts(kids(z)[0])["k"] == "This":
                    cal = tu.by_did.get(z["callee"].get("did"))
                    if nm == "build_heap" and cal is not None and cal.did != fn.did:
                        delegates.append(z)
                    elif nm == "clear" and cal is not None and cal.body is not None and "heap_" in written_fields(tu, cal):
                        resets.append(z)
                    elif nm != "heapify" and (cal is None or cal.body is None or "heap_" in written_fields(tu, cal)):
                        other.append(z)
                elif on_heap and not z["callee"].get("const") and nm not in ("begin", "end", "reserve", "data", "size", "empty", "capacity", "front", "back", "operator[]", "at"):
                    other.append(z)
            tag = "%s::build_heap(%s)" % (rec.split("::")[-1], fn.params[0]["ty"].replace("std::", "")[:30])
            bad = None
            pres = [g.pos_deep(r) for r in resets if g.pos_deep(r) is not None]
            for a in appends:
                pa = g.pos_deep(a)
                if pa is not None and g.path_from_entry_avoiding(pa, pres) is not None:
                    bad = a            # evidence: a path from the entry reaches the append without emptying heap_
            # a sized overwrite needs resize(source size) in front of the copy
            for w in writes:
                pw = g.pos_deep(w)
                sized = [g.pos_deep(r) for r in resets if sizing(r) and g.pos_deep(r) is not None]
                if pw is None:
                    raise dtable.Undecidable("%s: position of the copy into heap_ not found in the CFG" % fn.nloc(w))
                if g.path_from_entry_avoiding(pw, sized) is None:
                    continue
                unsized = [r for r in resets if not sizing(r) and r["callee"]["name"] != "clear" and g.pos_deep(r) is not None and
                           (g.reachable(g.pos_deep(r), pw))]
                if unsized or other or delegates:
                    raise dtable.Undecidable("%s: keys are copied over heap_.begin(); cannot tell whether heap_ has the size of the source at that point (%s)"
                                             % (fn.nloc(w), dtable.describe((unsized or other or delegates)[0])[:60]))
                bad = bad or w         # evidence: on a path to the copy heap_ still has its old size (or none)
            if bad is not None:
                ck.violation("BUILD-REPLACES", fn.qname, tag, "build_heap() adds the new keys to heap_ without discarding what it held (%s): a heap that was "
                             "used before keeps its old elements" % dtable.describe(bad)[:70], fn.nloc(bad))
            elif delegates and not (appends or writes):
                ck.ok("BUILD-REPLACES", tag, "delegates to another build_heap() overload")
            elif not (resets or appends or writes):
                # nothing recognised that stores the keys: a finding only if nothing else touches heap_ either
                touch = [y for y in fn.nodes() if y["k"] == "MemberExpr" and match.this_field(y) == "heap_"]
                if touch or other:
                    raise dtable.Undecidable("%s: the way build_heap() stores the keys into heap_ is not understood (line %s)"
                                             % (fn.loc, (touch or other)[0].get("l")))
                ck.violation("BUILD-REPLACES", fn.qname, tag + ":none", "build_heap() never stores the keys into heap_", fn.loc)
            else:
                ck.ok("BUILD-REPLACES", tag, "heap_ is replaced (%s)" % ", ".join(sorted({(r.get("callee") or {}).get("name", "=") for r in resets})))
        ck.guarded(one)


def check_clear_complete(ck, tu, rec, const_fields=(), method="clear"):
    clears = tu.find(name=method, record=rec)
    for cl in clears:
        def one(cl=cl):
            mut = set()
            for fn in tu.find(record=rec):
                if fn.rtargs != cl.rtargs or fn.kind in ("ctor", "dtor") or fn.name == method:
                    continue
                if fn.d.get("copy_assign") or fn.d.get("move_assign"):
                    continue
                mut |= written_fields(tu, fn)
            mut -= set(const_fields)
            opaque = []
            got = written_fields(tu, cl, opaque=opaque)
            miss = sorted(mut - got)
            if miss and opaque:
                # "clear() does not touch the field" is only established if everything clear() does is understood
                raise dtable.Undecidable("%s: %s() is not seen to re-establish %s, but it contains an operation whose effect is not understood: %s"
                                         % (cl.loc, method, ", ".join(miss), opaque[0]))
            if miss:
                ck.violation("CLEAR-COMPLETE", cl.qname, "missing:" + ",".join(miss),
                             "%s() does not re-establish %s, which the mutators change: the next use starts from stale state" % (method, ", ".join(miss)), cl.loc)
            else:
                ck.ok("CLEAR-COMPLETE", inst_tag(cl) + "::" + method, "resets all %d mutable state fields (%s)" % (len(mut), ",".join(sorted(mut))))
        ck.guarded(one)


# ---------------------------------------------------------------- radix heap: evaluation on a small model
# The member functions of one RadixHeap instantiation (and IntegerRank / BucketComputation, which they call) are
# interpreted on concrete values: integers with the value semantics of C++ on an LP64 target (every node carries its
# type; conversions wrap, unsigned arithmetic is modular), std::vector / std::array / std::pair / BitArray as small Python
# objects with their documented interface.  No tlx code is executed.  Whatever the interpreter does not model exactly is
# Undecidable; what it evaluates to undefined behaviour on concrete values (an index outside an array, back() of an empty
# vector, a shift by the width or more, a container changed while a range-for iterates over it) is positive evidence.
RX_ITY = {"bool": (0, 1), "char": (-128, 127), "signed char": (-128, 127), "unsigned char": (0, 255),
          "short": (-2 ** 15, 2 ** 15 - 1), "unsigned short": (0, 2 ** 16 - 1), "int": (-2 ** 31, 2 ** 31 - 1), "unsigned int": (0, 2 ** 32 - 1),
          "unsigned": (0, 2 ** 32 - 1), "long": (-2 ** 63, 2 ** 63 - 1), "unsigned long": (0, 2 ** 64 - 1), "long long": (-2 ** 63, 2 ** 63 - 1),
          "unsigned long long": (0, 2 ** 64 - 1)}
RX_CASTS = ("ImplicitCastExpr", "CStyleCastExpr", "CXXStaticCastExpr", "CXXFunctionalCastExpr", "CXXConstCastExpr")
RX_WRAPPERS = ("ParenExpr", "ExprWithCleanups", "MaterializeTemporaryExpr", "CXXBindTemporaryExpr", "ConstantExpr", "CXXDefaultInitExpr",
               "SubstNonTypeTemplateParmExpr")
RX_LVALUE_CASTS = ("NoOp", "DerivedToBase", "UncheckedDerivedToBase", "LValueToRValue", "ConstructorConversion", "UserDefinedConversion")
RX_BITARRAY = "tlx::radix_heap_detail::BitArray"


class RxUB(Exception):
    """the evaluation reached undefined behaviour / a violated documented precondition on concrete values"""
    def __init__(self, msg, where=""):
        Exception.__init__(self, msg)
        self.msg, self.where = msg, where


class _RxReturn(Exception):
    def __init__(self, v):
        self.v = v


class _RxBreak(Exception):
    pass


class _RxContinue(Exception):
    pass


def rx_bare(ty):
    t = (ty or "").strip()
    while True:
        s = t
        for pre in ("const ", "volatile "):
            if t.startswith(pre):
                t = t[len(pre):].strip()
        for suf in ("&&", "&", " const", " volatile"):
            if t.endswith(suf):
                t = t[:-len(suf)].strip()
        if s == t:
            return t


def rx_is_ref(ty):
    return (ty or "").rstrip().endswith("&")


def rx_targs(ty):
    """('std::array', ['std::vector<int>', '4']) for 'std::array<std::vector<int>, 4>'; (ty, None) for a plain name"""
    t = rx_bare(ty)
    i = t.find("<")
    if i < 0 or not t.endswith(">"):
        return t, None
    args, depth, cur = [], 0, ""
    for ch in t[i + 1:-1]:
        if ch == "," and depth == 0:
            args.append(cur.strip())
            cur = ""
            continue
        depth += ch in "<(["
        depth -= ch in ">)]"
        cur += ch
    if cur.strip():
        args.append(cur.strip())
    return t[:i], args


def rx_int_arg(s):
    try:
        return int((s or "").rstrip("UuLl"))
    except ValueError:
        return None


def rx_wrap(v, rng):
    return (v - rng[0]) % (rng[1] - rng[0] + 1) + rng[0]


RX_UNINIT = ("uninitialised",)


class RxVec:
    def __init__(self, ety, items=None):
        self.ety, self.items, self.busy = ety, (items if items is not None else []), 0


class RxArr:
    def __init__(self, ety, items):
        self.ety, self.items = ety, items


class RxPair:
    def __init__(self, tys, first, second):
        self.tys, self.first, self.second = tys, first, second


class RxBits:
    def __init__(self, n):
        self.n, self.bits = n, set()


class RxObj:
    def __init__(self, ty, fields=None):
        self.ty, self.fields = ty, (fields if fields is not None else {})


class RxIter:
    def __init__(self, cont, pos):
        self.cont, self.pos = cont, pos


class RxLambda:
    """a closure: the call operator, the captured this, the by-copy captures and the objects the by-reference captures name"""
    def __init__(self, fn, this, vars_, refs):
        self.fn, self.this, self.vars, self.refs = fn, this, vars_, refs


class RxRef:
    """what an expression that denotes an object evaluates to before it is read"""
    def __init__(self, lv):
        self.lv = lv


class RxFrame:
    def __init__(self, fn, this):
        self.fn, self.this, self.vars, self.refs = fn, this, {}, {}


def rx_copy(v):
    if isinstance(v, RxVec):
        return RxVec(v.ety, [rx_copy(x) for x in v.items])
    if isinstance(v, RxArr):
        return RxArr(v.ety, [rx_copy(x) for x in v.items])
    if isinstance(v, RxPair):
        return RxPair(v.tys, rx_copy(v.first), rx_copy(v.second))
    if isinstance(v, RxBits):
        b = RxBits(v.n)
        b.bits = set(v.bits)
        return b
    if isinstance(v, RxObj):
        return RxObj(v.ty, {k: rx_copy(x) for k, x in v.fields.items()})
    return v


def rx_freeze(v):
    """a comparable picture of a value"""
    if isinstance(v, (RxVec, RxArr)):
        return tuple(rx_freeze(x) for x in v.items)
    if isinstance(v, RxPair):
        return (rx_freeze(v.first), rx_freeze(v.second))
    if isinstance(v, RxBits):
        return frozenset(v.bits)
    if isinstance(v, RxObj):
        return ("object", tuple(sorted((k, rx_freeze(x)) for k, x in v.fields.items())))
    if isinstance(v, bool):
        return int(v)
    return v


def rx_default(ty, value_init):
    """a default-constructed (value_init: value-initialised) object of the type"""
    t = rx_bare(ty)
    if t in RX_ITY:
        return (False if t == "bool" else 0) if value_init else RX_UNINIT
    head, args = rx_targs(t)
    if head == "std::vector" and args:
        return RxVec(args[0])
    if head == "std::array" and args and len(args) == 2 and rx_int_arg(args[1]) is not None:
        return RxArr(args[0], [rx_default(args[0], value_init) for _ in range(rx_int_arg(args[1]))])
    if head == "std::pair" and args and len(args) == 2:
        return RxPair(args, rx_default(args[0], True), rx_default(args[1], True))
    if head == RX_BITARRAY and args and rx_int_arg(args[0]) is not None:
        return RxBits(rx_int_arg(args[0]))
    if t.startswith("tlx::") and not t.endswith("*"):
        return RxObj(t)
    raise dtable.Undecidable("objects of type %s are not modelled" % t)


class RxExec:
    MAX_STEPS = 3000000
    MAX_LOOP = 5000

    def __init__(self, tu):
        self.tu = tu
        self.steps = 0
        self.depth = 0
        self.cur = None          # innermost function being evaluated (for messages)
        self.called = set()      # names of the functions / intrinsics whose bodies were evaluated

    # ---- messages
    def where(self, n):
        f = self.cur
        if f is not None and n is not None and n.get("l") is not None:
            return f.nloc(n)
        return f.loc if f is not None else "?"

    def und(self, n, msg):
        raise dtable.Undecidable("%s: %s (%s)" % (self.where(n), msg, dtable.describe(n)[:70] if n is not None and "k" in n else ""))

    def ub(self, n, msg):
        raise RxUB(msg + " at %s: %s" % (self.where(n), dtable.describe(n)[:70] if n is not None else ""), self.where(n))

    # ---- integers
    def conv(self, v, ty):
        if isinstance(v, (int, bool)):
            t = rx_bare(ty)
            if t == "bool":
                return bool(v)
            rng = RX_ITY.get(t)
            if rng is not None:
                return rx_wrap(int(v), rng)
        return v

    def fit(self, r, ty, n):
        """the exact result r of integer arithmetic in the type ty"""
        rng = RX_ITY.get(rx_bare(ty))
        if rng is None:
            self.und(n, "arithmetic in a type that is not modelled: %s" % ty)
        if rng[0] <= r <= rng[1]:
            return r
        if rng[0] == 0:
            return rx_wrap(r, rng)
        self.und(n, "signed arithmetic leaves the range of %s (result %d): not modelled" % (rx_bare(ty), r))

    def arith(self, op, a, b, n, ty):
        if isinstance(a, RxIter) or isinstance(b, RxIter):
            return self.iter_arith(op, a, b, n)
        if not isinstance(a, (int, bool)) or not isinstance(b, (int, bool)):
            self.und(n, "operator %s on values that are not integers" % op)
        a, b = int(a), int(b)
        if op in ("<", ">", "<=", ">=", "==", "!="):
            return {"<": a < b, ">": a > b, "<=": a <= b, ">=": a >= b, "==": a == b, "!=": a != b}[op]
        if op in ("/", "%"):
            if b == 0:
                self.ub(n, "division by zero")
            q = abs(a) // abs(b) * (1 if (a >= 0) == (b >= 0) else -1)
            return self.fit(q if op == "/" else a - q * b, ty, n)
        if op in ("<<", ">>"):
            rng = RX_ITY.get(rx_bare(ty))
            if rng is None:
                self.und(n, "shift in a type that is not modelled: %s" % ty)
            width = (rng[1] - rng[0]).bit_length()
            if b < 0 or b >= width:
                self.ub(n, "shift of a %d-bit value by %d (undefined)" % (width, b))
            return rx_wrap(a << b, rng) if op == "<<" else a >> b
        if op in ("&", "|", "^"):
            rng = RX_ITY.get(rx_bare(ty))
            if rng is None:
                self.und(n, "bit operation in a type that is not modelled: %s" % ty)
            return rx_wrap({"&": a & b, "|": a | b, "^": a ^ b}[op], rng)
        if op in ("+", "-", "*"):
            return self.fit({"+": a + b, "-": a - b, "*": a * b}[op], ty, n)
        self.und(n, "operator %s is not modelled" % op)

    def iter_arith(self, op, a, b, n):
        if isinstance(a, RxIter) and isinstance(b, RxIter):
            if a.cont is not b.cont:
                self.und(n, "iterators into different containers")
            if op == "-":
                return a.pos - b.pos
            if op in ("<", ">", "<=", ">=", "==", "!="):
                return self.arith(op, a.pos, b.pos, n, "long")
        if isinstance(a, RxIter) and isinstance(b, int) and op in ("+", "-"):
            return RxIter(a.cont, a.pos + (b if op == "+" else -b))
        if isinstance(b, RxIter) and isinstance(a, int) and op == "+":
            return RxIter(b.cont, b.pos + a)
        self.und(n, "iterator arithmetic not modelled")

    def truth(self, v, n):
        if isinstance(v, (int, bool)):
            return bool(v)
        self.und(n, "condition on a value that is not an integer")

    # ---- objects
    def load(self, l, n):
        kind = l[0]
        if kind == "var":
            v = l[1].vars.get(l[2], RX_UNINIT)
        elif kind == "mem":
            o = l[1]
            if isinstance(o, RxPair) and l[2] in ("first", "second"):
                v = getattr(o, l[2])
            elif isinstance(o, RxObj) and l[2] in o.fields:
                v = o.fields[l[2]]
            else:
                self.und(n, "member %s of an object that is not modelled" % l[2])
        elif kind == "elem":
            v = l[1].items[self.index(l[1], l[2], n)]
        else:
            v = l[1][0]
        if v is RX_UNINIT:
            self.und(n, "reads a value that was never written in the model")
        return v

    def store(self, l, v, n):
        kind = l[0]
        if kind == "var":
            l[1].vars[l[2]] = v
        elif kind == "mem":
            o = l[1]
            if isinstance(o, RxPair) and l[2] in ("first", "second"):
                setattr(o, l[2], v)
            elif isinstance(o, RxObj):
                o.fields[l[2]] = v
            else:
                self.und(n, "member %s of an object that is not modelled" % l[2])
        elif kind == "elem":
            l[1].items[self.index(l[1], l[2], n)] = v
        else:
            l[1][0] = v

    def index(self, cont, i, n):
        if not isinstance(cont, (RxVec, RxArr)):
            self.und(n, "subscript of something that is not a vector / array")
        if not isinstance(i, int) or isinstance(i, bool):
            self.und(n, "subscript that is not an integer")
        if i < 0 or i >= len(cont.items):
            self.ub(n, "index %d outside the %s of %d elements" % (i, "array" if isinstance(cont, RxArr) else "vector", len(cont.items)))
        return i

    def assign_object(self, dst, src, n):
        """dst = src for class objects: the identity of dst stays (references to it remain valid)"""
        if isinstance(dst, RxVec) and isinstance(src, RxVec):
            self.mutate(dst, n)
            dst.items = [rx_copy(x) for x in src.items]
        elif isinstance(dst, RxArr) and isinstance(src, RxArr) and len(dst.items) == len(src.items):
            dst.items = [rx_copy(x) for x in src.items]
        elif isinstance(dst, RxPair) and isinstance(src, RxPair):
            dst.first, dst.second = self.conv(rx_copy(src.first), dst.tys[0]), self.conv(rx_copy(src.second), dst.tys[1])
        elif isinstance(dst, RxBits) and isinstance(src, RxBits):
            dst.bits = set(src.bits)
        elif isinstance(dst, RxObj) and isinstance(src, RxObj):
            dst.fields = {k: rx_copy(x) for k, x in src.fields.items()}
        else:
            self.und(n, "assignment between objects that are not modelled")

    def mutate(self, vec, n):
        if vec.busy:
            self.ub(n, "a vector is changed while a range-for iterates over it (its iterators are invalidated)")

    def construct(self, ty, vals, n, value_init=True, aggregate=False):
        t = rx_bare(ty)
        if t in RX_ITY:
            if not vals:
                return rx_default(t, value_init)
            if len(vals) == 1 and isinstance(vals[0], (int, bool)):
                return self.conv(vals[0], t)
            self.und(n, "construction of %s not modelled" % t)
        head, args = rx_targs(t)
        if len(vals) == 1 and type(vals[0]) in (RxVec, RxArr, RxBits, RxObj) and head != "std::pair" \
                and not (aggregate and type(vals[0]) is RxObj and rx_bare(vals[0].ty) != t and t.startswith("tlx::")):
            return rx_copy(vals[0])
        if head == "std::pair" and args and len(args) == 2:
            if not vals:
                return rx_default(t, True)
            if len(vals) == 1 and isinstance(vals[0], RxPair):
                a, b = vals[0].first, vals[0].second
            elif len(vals) == 2:
                a, b = vals
            else:
                self.und(n, "construction of a pair from %d arguments not modelled" % len(vals))
            out = []
            for x, aty in zip((a, b), args):
                if rx_bare(aty) in RX_ITY:
                    if not isinstance(x, (int, bool)):
                        self.und(n, "pair member of integer type built from something else")
                    out.append(self.conv(x, aty))
                else:
                    out.append(self.construct(aty, [x], n))
            return RxPair(args, out[0], out[1])
        if head == "std::vector" and args:
            if not vals:
                return RxVec(args[0])
            if isinstance(vals[0], int) and not isinstance(vals[0], bool) and len(vals) <= 2 and 0 <= vals[0] <= 4096:
                return RxVec(args[0], [rx_copy(vals[1]) if len(vals) == 2 else rx_default(args[0], True) for _ in range(vals[0])])
            self.und(n, "construction of a vector not modelled")
        if not vals:
            return rx_default(t, value_init)
        if aggregate and t.startswith("tlx::"):
            return self.aggregate(t, vals, n)
        self.und(n, "construction of %s from %d arguments not modelled" % (t, len(vals)))

    def aggregate(self, t, vals, n):
        """T{a, b, ...} for a plain struct of the library (an InitListExpr of class type is aggregate initialisation): one
        initialiser per field, in the order of declaration; the record must be known with exactly these fields"""
        recs = [r for r in self.tu.records if r.get("full") == t]
        if len(recs) != 1 or recs[0].get("bases"):
            self.und(n, "aggregate initialisation of %s: record not known or with base classes" % t)
        fields = recs[0].get("fields", [])
        if len(fields) != len(vals) or any(f.get("name") is None or f.get("ty") is None or rx_is_ref(f["ty"]) for f in fields):
            self.und(n, "aggregate initialisation of %s: %d initialisers for %d fields" % (t, len(vals), len(fields)))
        o = RxObj(t)
        for f, v in zip(fields, vals):
            if rx_bare(f["ty"]) in RX_ITY:
                if not isinstance(v, (int, bool)):
                    self.und(n, "field %s of integer type initialised from something else" % f["name"])
                o.fields[f["name"]] = self.conv(v, f["ty"])
            else:
                o.fields[f["name"]] = self.construct(f["ty"], [v], n)
        return o

    # ---- expressions
    def ev(self, e, fr):
        v = self.ev_ref(e, fr)
        if isinstance(v, RxRef):
            v = self.load(v.lv, e)
        return v

    def lv(self, e, fr):
        v = self.ev_ref(e, fr)
        if isinstance(v, RxRef):
            return v.lv
        return ("tmp", [v])

    def ev_ref(self, e, fr):
        """value of e, or RxRef for an expression that denotes an object"""
        self.steps += 1
        if self.steps > self.MAX_STEPS:
            self.und(e, "the evaluation does not end within %d steps" % self.MAX_STEPS)
        if e is None:
            self.und(e, "missing expression")
        k = e["k"]
        if k in ("IntegerLiteral", "CharacterLiteral"):
            return self.conv(int(e["val"]), e.get("ty"))
        if k == "CXXBoolLiteralExpr":
            return bool(e["val"]) if not isinstance(e["val"], str) else e["val"] in ("1", "true", "True")
        if k == "DeclRefExpr":
            d = e["ref"]["id"]
            if d in fr.refs:
                return RxRef(fr.refs[d])
            if d in fr.vars:
                return RxRef(("var", fr, d))
            if "cval" in e:
                return self.conv(int(e["cval"]), e.get("ty"))
            self.und(e, "value of %s is not known" % e["ref"].get("name"))
        if "cval" in e and k != "MemberExpr":
            return self.conv(int(e["cval"]), e.get("ty"))
        if k in RX_WRAPPERS:
            if not kids(e):
                self.und(e, "empty wrapper")
            return self.ev_ref(kids(e)[0], fr)
        if k == "This":
            if fr.this is None:
                self.und(e, "this outside a member function")
            return fr.this
        if k == "MemberExpr":
            if not kids(e):
                if "cval" in e:
                    return self.conv(int(e["cval"]), e.get("ty"))
                self.und(e, "member without object")
            if e.get("static") and "cval" in e:
                return self.conv(int(e["cval"]), e.get("ty"))
            obj = self.ev(kids(e)[0], fr)
            if isinstance(obj, tuple) and obj and obj[0] == "ptr":
                obj = self.load(obj[1], e)
            elif isinstance(obj, RxIter) and e.get("arrow"):
                obj = self.load(("elem", obj.cont, obj.pos), e)
            if not isinstance(obj, (RxObj, RxPair)):
                self.und(e, "member of an object that is not modelled")
            return RxRef(("mem", obj, e["member"]))
        if k in RX_CASTS:
            cast = e.get("cast")
            ch = kids(e)[0] if kids(e) else None
            if cast == "ToVoid":
                self.ev(ch, fr)
                return None
            tb = rx_bare(e.get("ty"))
            if tb in RX_ITY:
                v = self.ev(ch, fr)
                if not isinstance(v, (int, bool)):
                    self.und(e, "conversion of something that is not an integer to %s" % tb)
                return self.conv(v, tb)
            if cast in RX_LVALUE_CASTS or cast is None:
                return self.ev_ref(ch, fr)
            self.und(e, "cast %s not modelled" % cast)
        if k == "UnaryOperator":
            return self.unary(e, fr)
        if k == "BinaryOperator":
            return self.binary(e, fr)
        if k == "CompoundAssignOperator":
            l = self.lv(kids(e)[0], fr)
            a, b = self.load(l, e), self.ev(kids(e)[1], fr)
            if isinstance(a, RxIter):
                r = self.iter_arith(e["op"][:-1], a, b, e)
            else:
                cty = e.get("cty") or e.get("ty")
                r = self.conv(self.arith(e["op"][:-1], self.conv(a, cty), b, e, cty), kids(e)[0].get("ty"))
            self.store(l, r, e)
            return RxRef(l)
        if k == "ConditionalOperator":
            c = self.truth(self.ev(kids(e)[0], fr), e)
            return self.ev_ref(kids(e)[1] if c else kids(e)[2], fr)
        if k in ("CXXConstructExpr", "CXXTemporaryObjectExpr"):
            args = [a for a in kids(e) if a is not None and a["k"] != "DefaultArg"]
            if len(args) != len([a for a in kids(e) if a is not None]):
                self.und(e, "construction with default arguments not modelled")
            return self.construct(e.get("ty"), [self.ev(a, fr) for a in args], e, value_init=(k != "CXXConstructExpr"))
        if k == "InitListExpr":
            return self.construct(e.get("ty"), [self.ev(a, fr) for a in kids(e) if a is not None], e, aggregate=True)
        if k == "CXXScalarValueInitExpr":
            return rx_default(e.get("ty"), True)
        if k == "LambdaExpr":
            f = self.tu.by_did.get(e.get("fn"))
            if f is None or f.body is None:
                self.und(e, "body of the lambda is not available")
            this, vars_, refs = None, {}, {}
            for c in e.get("captures") or []:
                if c.get("name") == "this":
                    this = fr.this
                elif c.get("id") is None:
                    self.und(e, "capture of the lambda not understood")
                elif c.get("byref"):
                    refs[c["id"]] = fr.refs[c["id"]] if c["id"] in fr.refs else ("var", fr, c["id"])
                else:
                    vars_[c["id"]] = rx_copy(self.load(fr.refs[c["id"]] if c["id"] in fr.refs else ("var", fr, c["id"]), e))
            return RxLambda(f, this, vars_, refs)
        if "callee" in e:
            return self.call(e, fr)
        self.und(e, "expression of kind %s not modelled" % k)

    def unary(self, e, fr):
        op = e.get("op")
        ch = kids(e)[0]
        if op in ("++", "--"):
            l = self.lv(ch, fr)
            old = self.load(l, e)
            if isinstance(old, RxIter):
                new = RxIter(old.cont, old.pos + (1 if op == "++" else -1))
            elif isinstance(old, int) and not isinstance(old, bool):
                new = self.fit(old + (1 if op == "++" else -1), ch.get("ty") or e.get("ty"), e)
            else:
                self.und(e, "%s of something that is not an integer" % op)
            self.store(l, new, e)
            return old if e.get("postfix") else RxRef(l)
        if op == "*":
            p = self.ev(ch, fr)
            if isinstance(p, RxIter):
                return RxRef(("elem", p.cont, p.pos))
            if isinstance(p, tuple) and p and p[0] == "ptr":
                return RxRef(p[1])
            if isinstance(p, RxObj) and strip_casts(ch)["k"] == "This":
                return p
            self.und(e, "dereference not modelled")
        if op == "&":
            return ("ptr", self.lv(ch, fr))
        v = self.ev(ch, fr)
        if op == "!":
            return not self.truth(v, e)
        if not isinstance(v, (int, bool)):
            self.und(e, "unary %s on something that is not an integer" % op)
        if op == "-":
            return self.fit(-int(v), e.get("ty"), e)
        if op == "~":
            return self.conv(~int(v), e.get("ty"))
        if op == "+":
            return int(v)
        self.und(e, "unary %s not modelled" % op)

    def binary(self, e, fr):
        op = e["op"]
        a, b = kids(e)
        if op == "=":
            v = self.ev(b, fr)
            l = self.lv(a, fr)
            if type(v) in (RxVec, RxArr, RxPair, RxBits, RxObj):
                self.assign_object(self.load(l, e), v, e)
            else:
                self.store(l, v, e)
            return RxRef(l)
        if op == ",":
            self.ev(a, fr)
            return self.ev_ref(b, fr)
        if op == "&&":
            return self.truth(self.ev(a, fr), e) and self.truth(self.ev(b, fr), e)
        if op == "||":
            return self.truth(self.ev(a, fr), e) or self.truth(self.ev(b, fr), e)
        x, y = self.ev(a, fr), self.ev(b, fr)
        if op in ("==", "!=") and type(x) is RxPair and type(y) is RxPair:
            return (rx_freeze(x) == rx_freeze(y)) == (op == "==")
        # the type the operation is carried out in: that of the (converted) left operand for shifts and comparisons
        ty = a.get("ty") if op in ("<<", ">>", "<", ">", "<=", ">=", "==", "!=") else e.get("ty")
        return self.arith(op, x, y, e, ty)

    # ---- calls
    def callee_fn(self, e):
        f = self.tu.by_did.get(e["callee"].get("did"))
        return f if f is not None and f.body is not None else None

    def call(self, e, fr):
        name = e["callee"]["name"]
        args = [a for a in kids(e)]
        if any(a is None or a["k"] == "DefaultArg" for a in args):
            self.und(e, "call with default arguments not modelled")
        if e["k"] == "CXXOperatorCallExpr":
            return self.op_call(e, fr, e.get("op"), args)
        if e.get("member_call"):
            if not args:
                self.und(e, "member call without object")
            if strip_casts(args[0])["k"] == "This":
                f = self.callee_fn(e)
                if f is None:
                    self.und(e, "body of %s() is not available" % name)
                return self.invoke(f, fr.this, [("node", a) for a in args[1:]], fr, e)
            obj = self.ev(args[0], fr)
            if isinstance(obj, tuple) and obj and obj[0] == "ptr":
                obj = self.load(obj[1], e)
            elif isinstance(obj, RxIter) and e.get("arrow"):
                obj = self.load(("elem", obj.cont, obj.pos), e)          # p->f() through a pointer / iterator into a container
            return self.method(e, fr, obj, name, args[1:])
        f = self.callee_fn(e)
        if f is not None and f.kind not in ("ctor", "dtor", "lambda"):
            return self.invoke(f, None, [("node", a) for a in args], fr, e)
        q = e["callee"].get("qname") or name
        std = q.startswith("std::") or q == name
        if std and name in ("move", "forward", "as_const") and len(args) == 1:
            r = self.ev_ref(args[0], fr)
            v = self.load(r.lv, e) if isinstance(r, RxRef) else r
            if name == "move" and isinstance(v, (RxVec, RxArr)):
                self.und(e, "a whole container is moved from: the state it is left in is unspecified, not modelled")
            return r
        if std and name in ("min", "max") and len(args) == 2:
            x, y = self.ev(args[0], fr), self.ev(args[1], fr)
            if not isinstance(x, (int, bool)) or not isinstance(y, (int, bool)):
                self.und(e, "std::%s of values that are not integers" % name)
            # std::min(a, b) is b only if b < a; std::max(a, b) is b only if a < b
            return (y if y < x else x) if name == "min" else (y if x < y else x)
        if std and name == "fill" and len(args) == 3:
            a, b, v = self.ev(args[0], fr), self.ev(args[1], fr), self.ev(args[2], fr)
            if not (isinstance(a, RxIter) and isinstance(b, RxIter) and a.cont is b.cont):
                self.und(e, "std::fill over something that is not a modelled container")
            for i in range(a.pos, b.pos):
                self.store(("elem", a.cont, i), rx_copy(v), e)
            return None
        if std and name == "for_each" and len(args) == 3:
            a, b, f = self.ev(args[0], fr), self.ev(args[1], fr), self.ev(args[2], fr)
            if not (isinstance(a, RxIter) and isinstance(b, RxIter) and a.cont is b.cont and isinstance(f, RxLambda)):
                self.und(e, "std::for_each over something that is not a modelled container / with something that is not a lambda")
            if isinstance(a.cont, RxVec):
                a.cont.busy += 1
            try:
                for i in range(a.pos, b.pos):
                    self.invoke(f.fn, f.this, [("lv", ("elem", a.cont, self.index(a.cont, i, e)))], fr, e, closure=f)
            finally:
                if isinstance(a.cont, RxVec):
                    a.cont.busy -= 1
            return f
        if std and name == "fill_n" and len(args) == 3:
            a, cnt, v = self.ev(args[0], fr), self.ev(args[1], fr), self.ev(args[2], fr)
            if not (isinstance(a, RxIter) and isinstance(cnt, int)):
                self.und(e, "std::fill_n over something that is not a modelled container")
            for i in range(a.pos, a.pos + cnt):
                self.store(("elem", a.cont, i), rx_copy(v), e)
            return RxIter(a.cont, a.pos + cnt)
        if std and name == "swap" and len(args) == 2:
            la, lb = self.lv(args[0], fr), self.lv(args[1], fr)
            self.swap(la, lb, e)
            return None
        if std and name == "make_pair" and len(args) == 2:
            return self.construct(e.get("ty"), [self.ev(args[0], fr), self.ev(args[1], fr)], e)
        if name.startswith("__builtin_"):
            return self.builtin(e, fr, name, args)
        self.und(e, "call of %s() not modelled" % q)

    def swap(self, la, lb, n):
        a, b = self.load(la, n), self.load(lb, n)
        if isinstance(a, RxVec) and isinstance(b, RxVec):
            self.mutate(a, n)
            self.mutate(b, n)
            a.items, b.items = b.items, a.items
        elif type(a) in (RxArr, RxPair, RxBits, RxObj) or type(b) in (RxArr, RxPair, RxBits, RxObj):
            if type(a) is not type(b):
                self.und(n, "swap of different kinds of objects")
            ca = rx_copy(a)
            self.assign_object(a, b, n)
            self.assign_object(b, ca, n)
        else:
            self.store(la, b, n)
            self.store(lb, a, n)

    def builtin(self, e, fr, name, args):
        base = name.rstrip("l")
        suf = name[len(base):]
        if base not in ("__builtin_clz", "__builtin_ctz", "__builtin_ffs", "__builtin_popcount") or suf not in ("", "l", "ll") or len(args) != 1:
            self.und(e, "intrinsic %s not modelled" % name)
        v = self.ev(args[0], fr)
        if not isinstance(v, (int, bool)):
            self.und(e, "intrinsic on something that is not an integer")
        self.called.add(name)
        w = 32 if suf == "" else 64
        u = int(v) % (1 << w)
        if base in ("__builtin_clz", "__builtin_ctz") and u == 0:
            self.ub(e, "%s(0) is undefined" % name)
        if base == "__builtin_clz":
            return w - u.bit_length()
        if base == "__builtin_ctz":
            return (u & -u).bit_length() - 1
        if base == "__builtin_ffs":
            return 0 if u == 0 else (u & -u).bit_length()
        return bin(u).count("1")

    def op_call(self, e, fr, op, args):
        if op == "()":
            obj = self.ev(args[0], fr)
            if isinstance(obj, RxLambda):
                return self.invoke(obj.fn, obj.this, [("node", a) for a in args[1:]], fr, e, closure=obj)
            f = self.callee_fn(e)
            if not isinstance(obj, RxObj) or f is None or f.kind == "lambda":
                self.und(e, "call of a function object that is not modelled")
            return self.invoke(f, obj, [("node", a) for a in args[1:]], fr, e)
        if op == "[]" and len(args) == 2:
            obj, i = self.ev(args[0], fr), self.ev(args[1], fr)
            if isinstance(obj, RxIter):
                return RxRef(("elem", obj.cont, self.index(obj.cont, obj.pos + i, e)))
            return RxRef(("elem", obj, self.index(obj, i, e)))
        if op == "=" and len(args) == 2:
            l = self.lv(args[0], fr)
            self.assign_object(self.load(l, e), self.ev(args[1], fr), e)
            return RxRef(l)
        if op == "*" and len(args) == 1:
            p = self.ev(args[0], fr)
            if isinstance(p, RxIter):
                return RxRef(("elem", p.cont, p.pos))
        if op in ("++", "--"):
            l = self.lv(args[0], fr)
            old = self.load(l, e)
            if isinstance(old, RxIter):
                new = RxIter(old.cont, old.pos + (1 if op == "++" else -1))
                self.store(l, new, e)
                return old if len(args) == 2 else RxRef(l)
        if op in ("+=", "-=") and len(args) == 2:
            l = self.lv(args[0], fr)
            old, d = self.load(l, e), self.ev(args[1], fr)
            if isinstance(old, RxIter) and isinstance(d, int):
                self.store(l, RxIter(old.cont, old.pos + (d if op == "+=" else -d)), e)
                return RxRef(l)
        if op in ("==", "!=", "<", ">", "<=", ">=", "+", "-") and len(args) == 2:
            x, y = self.ev(args[0], fr), self.ev(args[1], fr)
            if isinstance(x, RxIter) or isinstance(y, RxIter):
                return self.iter_arith(op, x, y, e)
            if op in ("==", "!=") and type(x) is type(y) and type(x) in (RxPair, RxVec, RxArr):
                return (rx_freeze(x) == rx_freeze(y)) == (op == "==")
        self.und(e, "overloaded operator %s not modelled" % op)

    def method(self, e, fr, obj, name, args):
        """the documented interface of std::vector / std::array / BitArray on the model objects"""
        n = len(args)
        if isinstance(obj, (RxVec, RxArr)):
            items = obj.items
            if name == "size" and n == 0:
                return len(items)
            if name == "empty" and n == 0:
                return not items
            if name in ("begin", "cbegin") and n == 0:
                return RxIter(obj, 0)
            if name in ("end", "cend") and n == 0:
                return RxIter(obj, len(items))
            if name in ("back", "front") and n == 0:
                if not items:
                    self.ub(e, "%s() of an empty %s" % (name, "vector" if isinstance(obj, RxVec) else "array"))
                return RxRef(("elem", obj, len(items) - 1 if name == "back" else 0))
            if name in ("operator[]", "at") and n == 1:
                i = self.ev(args[0], fr)
                if name == "at" and isinstance(i, int) and not 0 <= i < len(items):
                    self.und(e, "at() throws: exceptions are not modelled")
                return RxRef(("elem", obj, self.index(obj, i, e)))
        if isinstance(obj, RxArr):
            if name == "fill" and n == 1:
                v = self.ev(args[0], fr)
                obj.items = [rx_copy(v) for _ in obj.items]
                return None
            if name == "max_size" and n == 0:
                return len(obj.items)
            if name == "data" and n == 0:
                return RxIter(obj, 0)
        if isinstance(obj, RxVec):
            if name == "push_back" and n == 1:
                v = self.ev(args[0], fr)
                self.mutate(obj, e)
                obj.items.append(self.construct(obj.ety, [v], e))
                return None
            if name == "emplace_back":
                vals = [self.ev(a, fr) for a in args]
                self.mutate(obj, e)
                obj.items.append(self.construct(obj.ety, vals, e))
                return RxRef(("elem", obj, len(obj.items) - 1))
            if name == "pop_back" and n == 0:
                if not obj.items:
                    self.ub(e, "pop_back() of an empty vector")
                self.mutate(obj, e)
                obj.items.pop()
                return None
            if name == "clear" and n == 0:
                self.mutate(obj, e)
                obj.items = []
                return None
            if name == "swap" and n == 1:
                other = self.ev(args[0], fr)
                if not isinstance(other, RxVec):
                    self.und(e, "swap with something that is not a vector")
                self.mutate(obj, e)
                self.mutate(other, e)
                obj.items, other.items = other.items, obj.items
                return None
            if name in ("reserve", "shrink_to_fit"):
                for a in args:
                    self.ev(a, fr)
                self.mutate(obj, e)
                return None
            if name == "capacity" and n == 0:
                self.und(e, "capacity() is not modelled")
        if isinstance(obj, RxBits):
            if name in ("set_bit", "clear_bit", "is_set") and n == 1:
                i = self.ev(args[0], fr)
                if not isinstance(i, int) or isinstance(i, bool):
                    self.und(e, "bit index that is not an integer")
                if i < 0 or i >= obj.n:
                    self.ub(e, "bit %d outside the BitArray of %d bits" % (i, obj.n))
                if name == "is_set":
                    return i in obj.bits
                (obj.bits.add if name == "set_bit" else obj.bits.discard)(i)
                return None
            if name == "clear_all" and n == 0:
                obj.bits.clear()
                return None
            if name == "empty" and n == 0:
                return not obj.bits
            if name == "find_lsb" and n == 0:
                if not obj.bits:
                    self.ub(e, "find_lsb() of an empty BitArray (result undefined)")
                return min(obj.bits)
        if isinstance(obj, RxObj):
            f = self.callee_fn(e)
            if f is not None and f.kind not in ("ctor", "dtor", "lambda"):
                return self.invoke(f, obj, [("node", a) for a in args], fr, e)
        if isinstance(obj, RxPair) and name == "swap" and n == 1:
            other = self.ev(args[0], fr)
            if isinstance(other, RxPair):
                c = rx_copy(obj)
                self.assign_object(obj, other, e)
                self.assign_object(other, c, e)
                return None
        self.und(e, "member function %s() of this kind of object is not modelled" % name)

    def invoke(self, fn, this, args, fr=None, site=None, closure=None):
        """evaluates the body of fn; args: ('node', expression of the caller) | ('val', value) | ('lv', object of the model)"""
        if fn.body is None:
            self.und(site, "body of %s() is not available" % fn.name)
        if self.depth > 40:
            self.und(site, "call depth exceeded (recursion?)")
        if len(args) != len(fn.params):
            self.und(site, "%s() called with %d arguments for %d parameters" % (fn.name, len(args), len(fn.params)))
        self.called.add(fn.name)
        nf = RxFrame(fn, this)
        if closure is not None:
            nf.vars.update({k_: rx_copy(v_) for k_, v_ in closure.vars.items()})
            nf.refs.update(closure.refs)
        for p, a in zip(fn.params, args):
            pty = p.get("ty") or ""
            if a[0] == "lv":
                if rx_is_ref(pty):
                    nf.refs[p["did"]] = a[1]
                else:
                    nf.vars[p["did"]] = self.conv(rx_copy(self.load(a[1], site)), pty)
            elif a[0] == "val":
                if rx_is_ref(pty):
                    nf.refs[p["did"]] = ("tmp", [a[1]])
                else:
                    nf.vars[p["did"]] = self.conv(a[1], pty)
            elif rx_is_ref(pty):
                nf.refs[p["did"]] = self.lv(a[1], fr)
            else:
                nf.vars[p["did"]] = self.conv(rx_copy(self.ev(a[1], fr)), pty)
        saved = self.cur
        self.cur = fn
        self.depth += 1
        try:
            if fn.kind == "ctor":
                self.ctor_inits(fn, nf)
            self.stmt(fn.body, nf)
            ret = None
        except _RxReturn as r:
            ret = r.v
        finally:
            self.depth -= 1
            self.cur = saved
        return ret

    def ctor_inits(self, fn, fr):
        for i in fn.inits:
            if i.get("field") is None or i.get("e") is None:
                self.und(fn.body, "initialiser of the constructor not understood")
            fr.this.fields[i["field"]] = rx_copy(self.ev(i["e"], fr))

    # ---- statements
    def stmt(self, s, fr):
        if s is None:
            return
        self.steps += 1
        if self.steps > self.MAX_STEPS:
            self.und(s, "the evaluation does not end within %d steps" % self.MAX_STEPS)
        k = s["k"]
        if k == "CompoundStmt":
            for c in kids(s):
                self.stmt(c, fr)
        elif k == "DeclStmt":
            for v in kids(s):
                if v is None or v["k"] != "VarDecl":
                    if v is not None and v["k"] in ("TypedefDecl", "TypeAliasDecl", "StaticAssertDecl", "UsingDecl"):
                        continue
                    self.und(s, "declaration not modelled")
                self.declare(v, fr)
        elif k == "VarDecl":
            self.declare(s, fr)
        elif k == "IfStmt":
            if isinstance(s.get("init"), dict):
                self.stmt(s["init"], fr)
            if isinstance(s.get("condvar"), dict):
                self.und(s, "condition variable not modelled")
            c = self.truth(self.ev(kids(s)[0], fr), s)
            self.stmt(kids(s)[1] if c else (kids(s)[2] if len(kids(s)) > 2 else None), fr)
        elif k in ("ForStmt", "WhileStmt", "DoStmt"):
            init, cond, inc, body = match.loop_parts(s)
            if isinstance(s.get("condvar"), dict):
                self.und(s, "condition variable not modelled")
            if init is not None:
                self.stmt(init, fr)
            first = k == "DoStmt"
            for _ in range(self.MAX_LOOP):
                if not first and cond is not None and not self.truth(self.ev(cond, fr), s):
                    break
                first = False
                try:
                    self.stmt(body, fr)
                except _RxBreak:
                    break
                except _RxContinue:
                    pass
                if inc is not None:
                    self.ev(inc, fr)
            else:
                self.und(s, "loop does not end within %d rounds on the model" % self.MAX_LOOP)
        elif k == "CXXForRangeStmt":
            rng, var, body = (kids(s) + [None, None, None])[:3]
            if var is None or var["k"] != "VarDecl":
                self.und(s, "range-for without loop variable")
            cont = self.ev(rng, fr)
            if not isinstance(cont, (RxVec, RxArr)):
                self.und(s, "range-for over something that is not a vector / array")
            if isinstance(cont, RxVec):
                cont.busy += 1
            try:
                i = 0
                while i < len(cont.items):
                    if rx_is_ref(var.get("ty")) or var.get("isref"):
                        fr.refs[var["did"]] = ("elem", cont, i)
                    else:
                        fr.vars[var["did"]] = rx_copy(cont.items[i])
                    try:
                        self.stmt(body, fr)
                    except _RxBreak:
                        break
                    except _RxContinue:
                        pass
                    i += 1
                    if i > self.MAX_LOOP:
                        self.und(s, "loop does not end on the model")
            finally:
                if isinstance(cont, RxVec):
                    cont.busy -= 1
        elif k == "ReturnStmt":
            if not kids(s) or kids(s)[0] is None:
                raise _RxReturn(None)
            if rx_is_ref(fr.fn.d.get("ret")):
                raise _RxReturn(RxRef(self.lv(kids(s)[0], fr)))
            raise _RxReturn(rx_copy(self.ev(kids(s)[0], fr)))
        elif k == "BreakStmt":
            raise _RxBreak()
        elif k == "ContinueStmt":
            raise _RxContinue()
        elif k == "NullStmt":
            pass
        elif k == "AttributedStmt":
            for c in kids(s):
                self.stmt(c, fr)
        elif k in ("SwitchStmt", "GotoStmt", "LabelStmt", "CXXTryStmt", "CXXThrowExpr", "GCCAsmStmt", "MSAsmStmt", "CoroutineBodyStmt"):
            self.und(s, "%s not modelled" % k)
        else:
            self.ev(s, fr)

    def declare(self, v, fr):
        ty = v.get("ty") or ""
        init = kids(v)[0] if kids(v) else None
        if v.get("static"):
            self.und(v, "static local not modelled")
        if v.get("isref") or rx_is_ref(ty):
            if init is None:
                self.und(v, "reference without initialiser")
            fr.vars.pop(v["did"], None)
            fr.refs[v["did"]] = self.lv(init, fr)
            return
        fr.refs.pop(v["did"], None)
        if init is None:
            fr.vars[v["did"]] = rx_default(ty, False)
        else:
            fr.vars[v["did"]] = self.conv(rx_copy(self.ev(init, fr)), ty)


# ---- the key types
def rx_key_range(ty):
    t = rx_bare(ty)
    rng = RX_ITY.get(t)
    if rng is None or t == "bool":
        raise dtable.Undecidable("key type %s is not an integer type the model knows" % t)
    return rng


def rx_guard(ck, rule, fn, sig, thunk):
    """runs an evaluation; undefined behaviour reached on concrete values is reported as a violation of the rule"""
    try:
        return thunk()
    except RxUB as u:
        ck.violation(rule, fn.qname, sig + ":undefined", "the evaluation on concrete values reaches undefined behaviour: " + u.msg, u.where or fn.loc)
        return None


# ---------------------------------------------------------------- IntegerRank
def rank_family(rng):
    lo, hi = rng
    fam = {0, 1, lo, hi, lo + 1, hi - 1, (lo + hi) // 2, (lo + hi) // 2 + 1, hi // 2, hi // 2 + 1}
    if lo < 0:
        fam |= {-1, -2, lo // 2, lo // 2 - 1}
    b = 1
    while b <= hi:
        fam |= {b - 1, b, b + 1, -b, -b - 1, -b + 1}
        b <<= 1
    return sorted(x for x in fam if lo <= x <= hi)


def check_rank(ck, tu):
    """RANK-TABLE: rank_of_int(x) of every instantiated IntegerRank<T> is evaluated for 0, 1, -1, the extremes of T and their
    neighbours and the values around every power of two: it must be the number of values of T smaller than x (x - min; this
    is the documented definition and, the rank type having as many values as T, the only strictly monotone map), so that
    rank_of_int(min) == 0 and x < y implies rank(x) < rank(y); int_at_rank, where instantiated, must be its inverse."""
    n = 0
    ranks = tu.find(name="rank_of_int", record="tlx::radix_heap_detail::IntegerRank")
    invs = tu.find(name="int_at_rank", record="tlx::radix_heap_detail::IntegerRank")
    for fn in ranks + [f for f in invs if not any(r.rtargs == f.rtargs for r in ranks)]:
        def one(fn=fn):
            T = fn.rtargs[0] if fn.rtargs else None
            rng = rx_key_range(T)
            tag = "IntegerRank<%s>" % T
            rf = fn if fn.name == "rank_of_int" else None
            inv = [f for f in invs if f.rtargs == fn.rtargs]
            ck.require(len(inv) <= 1 and len([r for r in ranks if r.rtargs == fn.rtargs]) <= 1, "%s: several rank_of_int / int_at_rank in one instantiation" % fn.loc)
            inv = inv[0] if inv else None
            for f in (rf, inv):
                ck.require(f is None or (len(f.params) == 1 and f.body is not None), "%s: signature of %s not understood" % (fn.loc, fn.name))
            x = RxExec(tu)
            fam = rank_family(rng)
            got = {}
            if rf is not None:
                for v in fam:
                    r = x.invoke(rf, None, [("val", v)])
                    if not isinstance(r, int) or isinstance(r, bool):
                        raise dtable.Undecidable("%s: rank_of_int(%d) does not evaluate to an integer" % (rf.loc, v))
                    got[v] = r
                    if r != v - rng[0]:
                        prev = [w for w in fam if w < v and got.get(w) is not None and got[w] >= r]
                        more = (": rank_of_int(%d) = %d is not smaller, the order of the keys is not preserved" % (prev[-1], got[prev[-1]])) if prev else ""
                        ck.violation("RANK-TABLE", rf.qname, "%s:rank:%d" % (T.replace(" ", "_"), v),
                                     "rank_of_int(%d) = %d for %s, expected %d (the number of values of the type that are smaller)%s" % (v, r, T, v - rng[0], more), rf.loc)
                        return
            if inv is not None:
                for v in fam:
                    r = v - rng[0]
                    back = x.invoke(inv, None, [("val", got.get(v, r))])
                    if back != v:
                        ck.violation("RANK-TABLE", inv.qname, "%s:inverse:%d" % (T.replace(" ", "_"), v),
                                     "int_at_rank(%s%d) = %s for %s, expected %d: int_at_rank is not the inverse of rank_of_int"
                                     % ("rank_of_int(%d) = " % v if rf is not None else "", got.get(v, r), back, T, v), inv.loc)
                        return
            ck.ok("RANK-TABLE", tag, "%s on %d values (0, +-1, extremes and their neighbours, around the powers of two): rank = x - min, strictly monotone%s"
                  % ("rank_of_int" if rf is not None else "int_at_rank", len(fam), "; int_at_rank is the inverse" if inv is not None and rf is not None else ""))
        n += 1
        ck.guarded(lambda one=one, fn=fn: rx_guard(ck, "RANK-TABLE", fn, (fn.rtargs or ["?"])[0].replace(" ", "_"), one))
    return n


# ---------------------------------------------------------------- bucket arithmetic
def bucket_reference(x, limit, radix_bits):
    """the documented bucket of key x under the insertion limit: 0 for the limit itself, else row * (Radix - 1) + digit with
    row = position of the highest radix digit in which x and the limit differ, digit = that digit of x (never 0 in a row
    above the first since x > limit; so each row has Radix - 1 buckets, matching lower_bound() and num_buckets)"""
    if x == limit:
        return 0
    row = ((x ^ limit).bit_length() - 1) // radix_bits
    return row * ((1 << radix_bits) - 1) + ((x >> (radix_bits * row)) & ((1 << radix_bits) - 1))


def bucket_family(bits, radix):
    top = (1 << bits) - 1
    ds, p = {0, top, top >> 1, (top >> 1) + 1}, 1
    while p <= top:
        ds |= {p - 1, p, p + 1, 2 * p, p * (radix - 1), p * radix - 1}
        p *= radix
    limits = {0, 1, radix - 1, radix, radix + 1, radix * radix - 1, radix * radix, radix * radix + radix + 1, top >> 1, (top >> 1) + 1,
              top - radix * radix, top - radix, top - 1, top, top // 3, top - top // 3}
    limits = sorted(v for v in limits if 0 <= v <= top)
    return limits, sorted(d for d in ds if 0 <= d <= top)


def check_bucket_index(ck, tu):
    """BUCKET-INDEX: BucketComputation<Radix, Int>::operator()(x, limit) of every instantiation is evaluated for limits and
    keys x = limit + d around the powers of the radix and the extremes of Int, and compared with the documented bucket"""
    n = 0
    REC = "tlx::radix_heap_detail::BucketComputation"
    for fn in tu.find(record=REC):
        if fn.name != "operator()" or fn.body is None:
            continue

        def one(fn=fn):
            radix = rx_int_arg(fn.rtargs[0]) if len(fn.rtargs) == 2 else None
            rng = rx_key_range(fn.rtargs[1]) if radix else None
            ck.require(radix and radix >= 2 and radix & (radix - 1) == 0 and rng[0] == 0 and len(fn.params) == 2,
                       "%s: BucketComputation<%s> not understood" % (fn.loc, ",".join(fn.rtargs)))
            bits, rb = rng[1].bit_length(), radix.bit_length() - 1
            recs = [r for r in tu.records if r["qname"] == REC and r.get("targs") == fn.rtargs]
            nb = [s_.get("val") for r in recs for s_ in r.get("statics", []) if s_["name"] == "num_buckets" and s_.get("val") is not None]
            if len(nb) != 1:
                raise dtable.Undecidable("%s: number of buckets of BucketComputation<%s> not found" % (fn.loc, ",".join(fn.rtargs)))
            nb = int(nb[0])
            tag = "BucketComputation<%s>" % ",".join(fn.rtargs)
            x = RxExec(tu)
            this = RxObj(REC)
            limits, ds = bucket_family(bits, radix)
            cache = {}

            def idx(key, lim):
                if (key, lim) not in cache:
                    r = x.invoke(fn, this, [("val", key), ("val", lim)])
                    if not isinstance(r, int) or isinstance(r, bool):
                        raise dtable.Undecidable("%s: bucket of (%d, %d) does not evaluate to an integer" % (fn.loc, key, lim))
                    cache[(key, lim)] = r
                return cache[(key, lim)]

            def bad(what, key, lim, msg):
                ck.violation("BUCKET-INDEX", fn.qname, "%s:%s" % (tag, what),
                             "bucket(x=%d, insertion_limit=%d) = %d, documented: %d (row %d of %d-bit digits): %s"
                             % (key, lim, idx(key, lim), bucket_reference(key, lim, rb), ((key ^ lim).bit_length() - 1) // rb if key != lim else 0, rb, msg), fn.loc)
            evals, differs = 0, None
            for lim in limits:
                keys = sorted({lim + d for d in ds if lim + d <= rng[1]})
                for key in keys:
                    g = idx(key, lim)
                    evals += 1
                    if g != bucket_reference(key, lim, rb) and differs is None:
                        differs = (key, lim)
                if differs is None:
                    continue
                # the layout differs from the documented one: look for a necessary condition that is violated
                vals = [(key, idx(key, lim)) for key in keys]
                for key, g in vals:
                    if not 0 <= g < nb:
                        return bad("range", key, lim, "outside the %d buckets (mins_ / buckets_data_ are indexed with it)" % nb)
                for (k1, g1), (k2, g2) in zip(vals, vals[1:]):
                    if g1 > g2:
                        return bad("monotone", k2, lim, "the smaller key %d is put into the later bucket %d: the first non-empty bucket does not hold the minimum" % (k1, g1))
                first_row = {}
                for key, g in vals:
                    if g < radix and first_row.setdefault(g, key) != key:
                        return bad("first-row", key, lim, "shares bucket %d of the first row with key %d: top() takes any element of that bucket for the minimum"
                                   % (g, first_row[g]))
                groups = {}
                for key, g in vals:
                    groups.setdefault(g, []).append(key)
                for g, ks in sorted(groups.items()):
                    if g < radix:
                        continue
                    m = min(ks)
                    for key in ks:
                        if idx(key, m) >= g:
                            return bad("progress", key, m, "when bucket %d (filled under limit %d) is redistributed with its minimum %d as the new limit, this key "
                                       "does not move to an earlier bucket" % (g, lim, m))
                    for key, g2 in vals:
                        if g2 > g and idx(key, m) != g2:
                            return bad("stable", key, m, "the key was put into bucket %d under limit %d; after the limit moved to %d (minimum of the earlier bucket %d) "
                                       "it belongs to another bucket, the order of the buckets is lost" % (g2, lim, m, g))
            if differs is not None:
                raise dtable.Undecidable("%s: bucket(x=%d, limit=%d) = %d differs from the documented bucket %d, but range / monotonicity / single-key first row / "
                                         "redistribution hold on the evaluated family: a different bucket layout cannot be decided"
                                         % (fn.loc, differs[0], differs[1], idx(*differs), bucket_reference(differs[0], differs[1], rb)))
            ck.ok("BUCKET-INDEX", tag, "%d (key, limit) pairs around the powers of %d and the extremes of the %d-bit key: row = highest differing digit, "
                  "column = that digit, below %d buckets, monotone in the key" % (evals, radix, bits, nb))
            if not hasattr(tu, "c13_bucket_ok"):
                tu.c13_bucket_ok = {}
            tu.c13_bucket_ok[fn.did] = set(x.called)
        n += 1
        ck.guarded(lambda one=one, fn=fn: rx_guard(ck, "BUCKET-INDEX", fn, "BucketComputation<%s>" % ",".join(fn.rtargs), one))
    return n


# ---------------------------------------------------------------- histories of one RadixHeap instantiation on the model
class RadixModel:
    """one RadixHeap<pair<K, D>, PairKeyExtract, K, Radix> object on the model, driven through its public member functions"""
    FIELDS = ("size_", "mins_", "filled_", "buckets_data_")

    def __init__(self, tu, rt, fns):
        self.tu, self.rt, self.fns = tu, rt, fns
        self.x = RxExec(tu)
        head, pargs = rx_targs(rt[0]) if rt else (None, None)
        self.radix = rx_int_arg(rt[3]) if len(rt) == 4 else None
        if head != "std::pair" or not pargs or len(pargs) != 2 or rx_bare(pargs[0]) != rx_bare(rt[2]) or not self.radix or rx_bare(pargs[1]) not in RX_ITY:
            raise dtable.Undecidable("RadixHeap<%s>: only heaps of std::pair<key, integer> with the pair's first member as the key are modelled" % ", ".join(rt))
        self.vty, self.kty = rt[0], rt[2]
        self.krng = rx_key_range(self.kty)
        self.top_rank = self.krng[1] - self.krng[0]
        self.tag = "RadixHeap<%s,%d>" % (rx_bare(self.kty), self.radix)
        recs = [r for r in tu.records if r["qname"] == RH and r.get("targs") == rt]
        if len(recs) != 1:
            raise dtable.Undecidable("%s: record of the instantiation not found" % self.tag)
        self.rec = recs[0]
        self.obj = None
        self.fresh = None

    def fn(self, name, pred=None):
        c = [f for f in self.fns.get(name, []) if f.body is not None and (pred is None or pred(f))]
        return c[0] if c else None

    def construct(self):
        ctors = [f for f in self.fns.get("RadixHeap", []) if f.kind == "ctor" and f.body is not None and not f.d.get("copy_ctor") and not f.d.get("move_ctor")
                 and not (len(f.params) == 1 and rx_bare(f.params[0].get("ty")) == rx_bare(self.rec.get("full")))]
        if len(ctors) != 1 or len(ctors[0].params) > 1:
            raise dtable.Undecidable("%s: constructor not found" % self.tag)
        c = ctors[0]
        self.obj = RxObj(self.rec.get("full") or RH)
        for f in self.rec.get("fields", []):
            self.obj.fields[f["name"]] = rx_default(f["ty"], False)
        self.x.invoke(c, self.obj, [("val", rx_default(p["ty"], True)) for p in c.params])
        for f in self.FIELDS:
            if f not in self.obj.fields:
                raise dtable.Undecidable("%s: state field %s not found" % (self.tag, f))
        b, m, fl = self.obj.fields["buckets_data_"], self.obj.fields["mins_"], self.obj.fields["filled_"]
        if not (isinstance(b, RxArr) and all(isinstance(v, RxVec) for v in b.items) and isinstance(m, RxArr) and len(m.items) == len(b.items)
                and isinstance(fl, RxBits) and fl.n == len(b.items)):
            raise dtable.Undecidable("%s: buckets_data_ / mins_ / filled_ are not an array of vectors, an array of ranks and a BitArray of one size" % self.tag)
        return c

    def state(self):
        return {k: rx_freeze(v) for k, v in self.obj.fields.items()}

    def elements(self):
        return [[(p.first, p.second) for p in v.items] for v in self.obj.fields["buckets_data_"].items]

    def call(self, f, vals):
        return self.x.invoke(f, self.obj, [("val", v) for v in vals])

    def pair(self, key, data):
        return self.x.construct(self.vty, [key, data], None)

    def inserters(self):
        """[(label, function, argument builder(key, data) -> values or None if the key does not fit the parameter types)]"""
        out = []
        for f in self.fns.get("push", []):
            if f.body is not None and len(f.params) == 1:
                out.append(("push", f, lambda key, data: [self.pair(key, data)]))
        for f in self.fns.get("emplace", []):
            if f.body is not None and len(f.params) == 3 and all(rx_bare(p["ty"]) in RX_ITY for p in f.params):
                def build(key, data, f=f):
                    if self.x.conv(key, f.params[1]["ty"]) != key or self.x.conv(data, f.params[2]["ty"]) != data:
                        return None
                    return [key, key, data]
                out.append(("emplace<%s>" % rx_bare(f.params[1]["ty"]), f, build))
        for f in self.fns.get("emplace_keyfirst", []):
            if f.body is not None and len(f.params) == 2 and all(rx_bare(p["ty"]) in RX_ITY for p in f.params):
                out.append(("emplace_keyfirst", f, lambda key, data, f=f: [key, data] if self.x.conv(data, f.params[1]["ty"]) == data else None))
        return out


def radix_histories(radix, top, thorough):
    """monotone histories over ranks 0..top (rank = key - min of the key type): ('ins', rank) | 'top' | 'pop' | 'peek' |
    'swap' | 'clear' | 'drain'.  No inserted rank is below the minimum the heap showed last (top / pop / swap)."""
    R, mid = radix, top // 2 + 1                 # mid: the rank of key 0 of a signed type
    clip = lambda v: max(0, min(top, v))
    H = []
    # extremes of the key type and the values around zero, drained with every observer
    H.append([("ins", r) for r in (top, 0, top - 1, 1, mid, mid - 1, mid + 1, R, R * R, R - 1)] + ["peek", "top", "pop", "peek", "pop", "top", "pop", "drain"])
    # reorganisation of a bucket above the first row, a drained bucket filled again, clear() in the middle, keys below the old limit afterwards
    a = R * R
    H.append([("ins", r) for r in (a + 1, a + R, a + 2 * R + 1, clip(a * R + 5), 3)] + ["pop", "pop", ("ins", a + R), ("ins", a + R + 1), ("ins", a + 1), "top", "pop",
             ("ins", a + 2), "pop", "top", "clear", ("ins", 1), ("ins", R), ("ins", 0), ("ins", a + R), ("ins", 2), "top", "pop", "top", "drain"])
    # equal keys, removal of a whole bucket
    H.append([("ins", r) for r in (5, 5, 5, R + 5, 5, a)] + ["peek", "swap", ("ins", R + 5), ("ins", R + 5), ("ins", R + 6), "top", "swap", "pop", "drain", "clear", ("ins", 0), "pop"])
    # the upper end of the key range, drained by pop() alone
    H.append([("ins", clip(r)) for r in (top, top, top - 1, top - R, top - a, top - a - 1)] + ["drain"])
    # a heap of one element, used again after it ran empty; first-row bucket other than 0 becomes the current one, then clear()
    H.append([("ins", mid), "top", "pop", ("ins", mid), "pop", ("ins", mid + 1), ("ins", mid + 2), "top", "pop", "top", "clear", ("ins", 2), ("ins", 0), "top", "drain"])
    # generated histories (fixed linear congruential sequence)
    seed = 12345
    for hno in range(6 if thorough else 3):
        h, floor, held = [], 0, []
        for _ in range(26):
            seed = (seed * 1103515245 + 12345) % (1 << 31)
            c = (seed >> 8) % 100
            if not held or c < 52:
                seed = (seed * 1103515245 + 12345) % (1 << 31)
                d = (0, 1, R - 1, R, R + 1, a, a - 1, a * R, 2, (seed >> 12) % (4 * a), top // 4)[(seed >> 4) % 11]
                r = clip(floor + d)
                h.append(("ins", r))
                held.append(r)
            elif c < 66:
                h.append("top")
                floor = min(held)
            elif c < 90:
                h.append("pop")
                floor = min(held)
                held.remove(floor)
            elif c < 96:
                h.append("peek")
            else:
                h.append("clear")
                floor, held = 0, []
        H.append(h + ["drain"])
    return H


def check_radix_model(ck, tu, thorough=False):
    """RADIX-VALUE / RADIX-ORDER / CLEAR-STATE: histories of every RadixHeap instantiation on the model"""
    insts = {}
    for f in tu.find(record=RH):
        insts.setdefault(tuple(f.rtargs), {}).setdefault(f.name, []).append(f)
    ck.require(insts, "RadixHeap not instantiated")
    for rt, fns in insts.items():
        anchor = (fns.get("push") or fns.get("emplace") or fns.get("pop") or next(iter(fns.values())))[0]
        ck.guarded(lambda rt=rt, fns=fns, anchor=anchor: rx_guard(ck, "RADIX-ORDER", anchor, "RadixHeap<%s>" % ",".join(rt[2:]).replace(" ", "_"),
                                                                    lambda: radix_model_instance(ck, tu, list(rt), fns, anchor, thorough)))
    return len(insts)


def radix_model_instance(ck, tu, rt, fns, anchor, thorough):
    M = RadixModel(tu, rt, fns)
    tag = M.tag
    reported = set()
    stats = {"ops": 0, "ins": 0, "del": 0, "clears": 0, "hist": 0}
    used = {}

    def bad(rule, fn, what, msg):
        if (rule, what) not in reported:
            reported.add((rule, what))
            ck.violation(rule, (fn or anchor).qname, "%s:%s" % (tag, what), msg, (fn or anchor).loc)

    kmin = M.krng[0]
    ins = M.inserters()
    pop_f, top_f, clear_f = M.fn("pop", lambda f: not f.params), M.fn("top", lambda f: not f.params), M.fn("clear", lambda f: not f.params)
    peek_f, size_f, empty_f = M.fn("peak_top_key", lambda f: not f.params), M.fn("size", lambda f: not f.params), M.fn("empty", lambda f: not f.params)
    swap_f = M.fn("swap_top_bucket", lambda f: len(f.params) == 1)
    if not ins or pop_f is None:
        raise dtable.Undecidable("%s: no push() / emplace() or no pop() instantiated: histories cannot be evaluated" % tag)

    def trace(hist, upto):
        return " ".join(("%s(%d)" % (o[0], o[1] + kmin)) if isinstance(o, tuple) else o for o in hist[:upto + 1])[-300:]

    for hno, hist in enumerate(radix_histories(M.radix, M.top_rank, thorough)):
        ctor = M.construct()
        if M.fresh is None:
            M.fresh = M.state()
        held = []                    # (key, data) the heap must hold
        serial = 0
        ok_hist = True

        def ops(hist=hist):
            for i, o in enumerate(hist):
                if o == "drain":
                    while held:
                        yield i, "pop"
                else:
                    yield i, o
        for pos, op in ops():
            here = lambda: trace(hist, pos)
            if not held and op in ("top", "pop", "peek", "swap"):
                continue              # not defined on an empty heap
            kind = op[0] if isinstance(op, tuple) else op
            before = M.state()
            want_min = min(k for k, d in held) if held else None
            fn_used, ret, out_vec = None, None, None
            try:
                if kind == "ins":
                    key = op[1] + kmin
                    serial += 1
                    cands = [(lab, f, b(key, serial)) for lab, f, b in ins]
                    cands = [c for c in cands if c[2] is not None]
                    if not cands:
                        raise dtable.Undecidable("%s: no insertion function takes key %d" % (tag, key))
                    lab, fn_used, vals = cands[(serial + hno) % len(cands)]
                    used[lab] = used.get(lab, 0) + 1
                    ret = M.call(fn_used, vals)
                    held.append((key, serial))
                    stats["ins"] += 1
                elif kind == "top":
                    fn_used = top_f
                    if top_f is None:
                        continue
                    ret = M.call(top_f, [])
                    ret = M.x.load(ret.lv, None) if isinstance(ret, RxRef) else ret
                elif kind == "peek":
                    fn_used = peek_f
                    if peek_f is None:
                        continue
                    ret = M.call(peek_f, [])
                elif kind == "pop":
                    fn_used = pop_f
                    M.call(pop_f, [])
                    stats["del"] += 1
                elif kind == "swap":
                    fn_used = swap_f or pop_f
                    if swap_f is None:
                        M.call(pop_f, [])
                    else:
                        out_vec = RxVec(M.vty)
                        M.call(swap_f, [out_vec])
                    stats["del"] += 1
                elif kind == "clear":
                    fn_used = clear_f
                    if clear_f is None:
                        continue
                    M.call(clear_f, [])
                    stats["clears"] += 1
                    held = []
            except RxUB as u:
                bad("RADIX-ORDER", fn_used, "%s:undefined" % kind, "history %s: %s() reaches undefined behaviour on the model: %s" % (here(), kind if kind != "ins" else fn_used.name, u.msg))
                ok_hist = False
                break
            stats["ops"] += 1
            if kind != "ins":
                lab = "pop" if kind == "swap" and swap_f is None else {"peek": "peak_top_key", "swap": "swap_top_bucket"}.get(kind, kind)
                used[lab] = used.get(lab, 0) + 1
            # ---- contents: the heap holds exactly what the history put in and did not take out
            buckets = M.elements()
            flat = sorted(e for b in buckets for e in b)
            if kind == "top":
                if not isinstance(ret, RxPair) or (ret.first, ret.second) not in held or ret.first != want_min:
                    got = (ret.first, ret.second) if isinstance(ret, RxPair) else ret
                    bad("RADIX-ORDER", fn_used, "top", "history %s: top() yields %s, the smallest key held is %d" % (here(), got, want_min))
                    ok_hist = False
                    break
            if kind == "peek" and ret != want_min:
                bad("RADIX-ORDER", fn_used, "peak_top_key", "history %s: peak_top_key() = %s, the smallest key held is %d" % (here(), ret, want_min))
                ok_hist = False
                break
            if kind in ("pop", "swap"):
                gone = list(held)
                for e in flat:
                    if e in gone:
                        gone.remove(e)
                taken = [(p.first, p.second) for p in out_vec.items] if out_vec is not None else None
                if len(flat) + len(gone) != len(held) or not gone or (out_vec is None and len(gone) != 1) or any(k != want_min for k, d in gone) \
                        or (taken is not None and sorted(taken) != sorted(gone)):
                    bad("RADIX-ORDER", fn_used, kind, "history %s: %s() removes %s%s, expected %s with the smallest key %d; %d elements remain of %d"
                        % (here(), "swap_top_bucket" if out_vec is not None else "pop", gone, (" and hands out %s" % taken) if taken is not None else "",
                           "elements" if out_vec is not None else "one element", want_min, len(flat), len(held)))
                    ok_hist = False
                    break
                held = [e for e in held if e not in gone]
            if flat != sorted(held):
                bad("RADIX-ORDER", fn_used, "%s:contents" % kind, "history %s: after %s() the buckets hold %s, expected %s" % (here(), fn_used.name, flat[:8], sorted(held)[:8]))
                ok_hist = False
                break
            for f, name, want in ((size_f, "size", len(held)), (empty_f, "empty", not held)):
                if f is not None:
                    g = M.call(f, [])
                    if g != want:
                        bad("RADIX-ORDER", f, name, "history %s: %s() = %s with %d elements held" % (here(), name, g, len(held)))
                        ok_hist = False
            # ---- the fields that describe the buckets follow them exactly
            F = M.obj.fields
            delta = len(held) - (sum(len(b) for b in before["buckets_data_"]))
            if F["size_"] != len(held):
                bad("RADIX-VALUE", fn_used, "%s:size_" % kind, "history %s: %s() changes size_ from %s to %s while the number of stored elements changes by %+d to %d"
                    % (here(), fn_used.name, before["size_"], F["size_"], delta, len(held)))
                ok_hist = False
            nonempty = {i for i, b in enumerate(buckets) if b}
            if F["filled_"].bits != nonempty:
                i = min(F["filled_"].bits ^ nonempty)
                bad("RADIX-VALUE", fn_used, "%s:filled_" % kind, "history %s: after %s() bit %d of filled_ is %s, bucket %d holds %d elements"
                    % (here(), fn_used.name, i, "set" if i in F["filled_"].bits else "clear", i, len(buckets[i])))
                ok_hist = False
            for i in sorted(nonempty):
                want = min(k for k, d in buckets[i]) - kmin
                if F["mins_"].items[i] != want:
                    old = before["mins_"][i]
                    bad("RADIX-VALUE", fn_used, "%s:mins_" % kind, "history %s: after %s() mins_[%d] = %s (was %s), the smallest rank among the %d keys of bucket %d is %d"
                        % (here(), fn_used.name, i, F["mins_"].items[i], old, len(buckets[i]), i, want))
                    ok_hist = False
                    break
            # ---- clear() leaves the state the constructor leaves
            if kind == "clear":
                now = M.state()
                for name in sorted(M.fresh):
                    if M.fresh[name] != now.get(name):
                        a, b = M.fresh[name], now.get(name)
                        if isinstance(a, tuple) and isinstance(b, tuple) and len(a) == len(b):
                            j = [i for i in range(len(a)) if a[i] != b[i]][0]
                            name_, a, b = "%s[%d]" % (name, j), a[j], b[j]
                        else:
                            name_ = name
                        bad("CLEAR-STATE", clear_f, name, "history %s: after clear() %s = %s, the constructor leaves %s"
                            % (here(), name_, sorted(b) if isinstance(b, frozenset) else b, sorted(a) if isinstance(a, frozenset) else a))
                        ok_hist = False
            if not ok_hist:
                break
        if held and ok_hist:
            raise dtable.Undecidable("%s: history %d did not run empty on the model" % (tag, hno))
        stats["hist"] += 1
    if not any(r == "RADIX-ORDER" for r, w in reported):
        ck.ok("RADIX-ORDER", tag, "%d histories, %d operations (%s) on the model: top() / peak_top_key() show the smallest key held, pop() / swap_top_bucket() "
              "remove exactly elements with it, size() / empty() count, nothing is lost; keys include min, max, 0, +-1 of %s"
              % (stats["hist"], stats["ops"], ", ".join("%s x%d" % kv for kv in sorted(used.items())), rx_bare(M.kty)))
    if not any(r == "RADIX-VALUE" for r, w in reported):
        ck.ok("RADIX-VALUE", tag, "after each of %d insertions and %d removals: size_ == number of elements, filled_ == set of non-empty buckets, "
              "mins_[i] == smallest rank in bucket i" % (stats["ins"], stats["del"]))
    if stats["clears"] and not any(r == "CLEAR-STATE" for r, w in reported):
        ck.ok("CLEAR-STATE", tag, "after %d clear() calls in the middle of histories every field equals the state the constructor leaves (%s)"
              % (stats["clears"], ",".join(sorted(M.fresh))))
    elif not stats["clears"] and clear_f is None:
        raise dtable.Undecidable("%s: clear() is not instantiated" % tag)


BITS = {"unsigned char": 8, "signed char": 8, "char": 8, "unsigned short": 16, "short": 16, "unsigned int": 32, "int": 32, "unsigned": 32,
        "unsigned long": 64, "long": 64, "unsigned long long": 64, "long long": 64}


def check_clz_width(ck, tu):
    """`W - 1 - clz(v)` is the index of the highest set bit only if W is the bit width of the type clz() actually sees
    (after integer promotion), in every instantiation"""
    n = 0
    sites = set()
    for fn in tu.functions:
        if fn.body is None or not fn.qname.startswith("tlx::radix_heap_detail::"):
            continue
        for z in fn.nodes():
            if "callee" not in z or z["callee"]["name"] != "clz":
                continue
            par = fn.parent(z)
            while par is not None and par["k"] in ("ImplicitCastExpr", "ParenExpr", "CXXStaticCastExpr"):
                par = fn.parent(par)
            if par is None or par["k"] != "BinaryOperator" or par.get("op") != "-":
                continue
            width_m1 = const_int(kids(par)[0])
            argty = ((z["callee"].get("targs") or [None])[0] or (strip_casts(kids(z)[0]).get("ty") or "")).replace("const ", "")
            bits = BITS.get(argty)
            if width_m1 is None or bits is None:
                raise dtable.Undecidable("%s: width of the clz() operand not understood (%s, %s)" % (fn.nloc(z), width_m1, argty))
            n += 1
            tag = "%s<%s>" % (fn.record.split("::")[-1], ",".join(fn.rtargs or []))
            if width_m1 != bits - 1:
                ck.violation("CLZ-WIDTH", fn.qname, "%s:%d-vs-%d" % (tag, width_m1, bits),
                             "the highest differing bit is computed as %d - clz(v), but clz() operates on %s (%d bits, after integer promotion of the "
                             "narrow key type): the bit index is off by %d and wraps, the bucket index leaves the bucket array"
                             % (width_m1, argty, bits, bits - 1 - width_m1), fn.nloc(z))
            else:
                ck.ok("CLZ-WIDTH", tag, "%d - clz(%s)" % (width_m1, argty))
            sites.add(fn.did)
    # an instantiation of the bucket computation without a `W - 1 - clz(v)` of its own: there is no constant to compare; the bit index
    # it computes (through whatever helpers, with the widths and promotions of the instantiation) is decided where BUCKET-INDEX
    # evaluated that very function and confirmed every result
    for fn in tu.find(record="tlx::radix_heap_detail::BucketComputation"):
        if fn.name == "operator()" and fn.body is not None and fn.did not in sites:
            called = getattr(tu, "c13_bucket_ok", {}).get(fn.did)
            if called is not None:
                n += 1
                via = sorted(c for c in called if "clz" in c or "log2" in c)
                ck.ok("CLZ-WIDTH", "%s<%s>" % (fn.record.split("::")[-1], ",".join(fn.rtargs or [])),
                      "no `W - 1 - clz(v)` in this instantiation (%s); the bit index is decided by evaluation (BUCKET-INDEX)"
                      % ("evaluated through " + ", ".join(via) if via else "no count-leading-zeros function is evaluated"))
    return n


def run(ck):
    ck.explanation = (
        "DAryHeap / DAryAddressableIntHeap: every comparator call in sift_up, sift_down and heapify is classified by the roles of its "
        "operands (hole value, parent, child - derived from index-variable provenance) and its decision is tabulated: the smaller child is "
        "selected, the hole sinks iff a child is strictly smaller and rises iff the value is strictly smaller than the parent; left()/parent() "
        "are evaluated as index arithmetic and must be mutually inverse (a parent index that is written out instead is evaluated too: every "
        "division in the heap's member functions must be (x-1)/arity). Addressable heap: every store into heap_ keeps handles_ in step "
        "(or a full re-index loop follows), wholesale replacement of heap_ resets the old handles first, the handles_ growth bound covers "
        "every key. build_heap() replaces the contents (BUILD-REPLACES); clear() / clear_all() write every mutable state field (CLEAR-COMPLETE). "
        "RadixHeap, structurally: every insertion into / emptying of a bucket updates the filled_ bit, mins_ and size_ together (RADIX-COUPLED); "
        "the bit-index arithmetic of the bucket computation uses the width of the type clz() really sees (CLZ-WIDTH). RadixHeap, by evaluation of "
        "the instantiated code on a small model with exact C++ integer semantics (no tlx code is run): IntegerRank::rank_of_int is x - min on 0, "
        "+-1, the extremes and the powers of two of every key type and int_at_rank its inverse (RANK-TABLE); BucketComputation yields the documented "
        "bucket (row = highest differing radix digit, column = that digit) for keys and limits around the powers of the radix and the extremes, "
        "below num_buckets and monotone (BUCKET-INDEX); on monotone histories of push/emplace/top/peak_top_key/pop/swap_top_bucket/clear for every "
        "instantiation (8..64-bit signed and unsigned keys incl. min/max/0/-1, equal keys, clear() in the middle, re-filled buckets) size_, filled_ "
        "and mins_ have exactly the values the bucket contents require after every operation (RADIX-VALUE), top()/peak_top_key() show the smallest "
        "key held, pop()/swap_top_bucket() remove only elements with it and nothing is lost (RADIX-ORDER), and clear() leaves the state the "
        "constructor leaves (CLEAR-STATE). Not decided: heap order of the d-ary heaps over histories (only the local sift decisions are), radix "
        "histories beyond the evaluated family, radices and key types the witness does not instantiate, BitArray (modelled by its documented "
        "interface, not checked), lower_bound()/upper_bound() of BucketComputation (never instantiated).")
    arities = ["2"] if ck.tier == "quick" else ["2", "5"]
    # each rule instance runs guarded: one that cannot be decided (exit 2 in the end) does not hide what the others find
    for ar in arities:
        tu = ir.extract("witness/C13_heaps.cpp", defines=["WITNESS_ARITY=" + ar])
        for rec in (DH, AH):
            for fn in tu.find(record=rec):
                if fn.name in ("sift_up", "sift_down", "heapify"):
                    ck.guarded(lambda fn=fn: check_decisions(ck, fn))
            ck.guarded(lambda rec=rec: check_index_inverse(ck, tu, rec))
        for fn in tu.find(record=AH):
            if fn.kind in ("ctor", "dtor") or fn.d.get("const"):
                continue
            ck.guarded(lambda fn=fn: check_handle_coupled(ck, fn))
            ck.guarded(lambda fn=fn: check_handle_reset(ck, fn))
            if fn.name == "heapify":
                ck.guarded(lambda fn=fn: check_handle_grow(ck, fn))
        ck.guarded(lambda: check_clear_complete(ck, tu, AH))
        ck.guarded(lambda: check_radix_coupled(ck, tu))
        ck.guarded(lambda: check_clear_complete(ck, tu, RH))
        ck.guarded(lambda: check_clear_complete(ck, tu, "tlx::radix_heap_detail::BitArrayRecursive", method="clear_all"))
        ck.guarded(lambda: check_build_replaces(ck, tu, "tlx::DAryHeap"))
        ck.guarded(lambda: check_build_replaces(ck, tu, AH))
        ck.guarded(lambda: ck.require(check_rank(ck, tu) >= 6, "IntegerRank::rank_of_int was not found for the key types of the witness"))
        ck.guarded(lambda: ck.require(check_bucket_index(ck, tu) >= 4, "BucketComputation::operator() was not found for the (radix, key) pairs of the witness"))
        ck.guarded(lambda: ck.require(check_clz_width(ck, tu) >= 4, "the bucket computation of the radix heap (clz of the key difference) was not found for the narrow key types"))
        if ar == arities[0]:
            # the radix heap does not depend on the arity of the d-ary heaps: its histories are evaluated on the model once
            ck.guarded(lambda: ck.require(check_radix_model(ck, tu, ck.tier == "thorough") >= 6, "RadixHeap is not instantiated for the key types of the witness"))
    m = len(arities)
    ck.floor("HEAP-DECISION", 12 * m)
    ck.floor("INDEX-INVERSE", 4 * m)
    ck.floor("HANDLE-COUPLED", 10 * m)
    ck.floor("HANDLE-RESET", 8 * m)
    ck.floor("HANDLE-GROW", 2 * m)
    ck.floor("RADIX-COUPLED", 10 * m)
    ck.floor("CLEAR-COMPLETE", 6 * m)
    ck.floor("BUILD-REPLACES", 6 * m)
    ck.floor("CLZ-WIDTH", 4 * m)
    ck.floor("RANK-TABLE", 6 * m)
    ck.floor("BUCKET-INDEX", 4 * m)
    ck.floor("RADIX-VALUE", 6)
    ck.floor("RADIX-ORDER", 6)
    ck.floor("CLEAR-STATE", 6)
