"""C06 — parallel mergesort: temporaries destroyed, barrier phases / balance, fork/join,
Stable propagation, sample index bound (equally_split clamp).

Verdict discipline of this file: a violation is reported only on positive evidence - a concrete evaluation (TEMP-DESTROY:
"for a chunk of 3 elements the elements [0, 1] are destroyed"; SPLIT-INDEX-BOUND: the positions written / read), a path in
the CFG that is feasible for a valid splitting algorithm (BARRIER-PHASES, TEMP-DESTROY:path), two branches of a
thread-dependent condition that cross a different number of barriers (BARRIER-BALANCE), a live call of an unstable
algorithm (STABLE-PROPAGATE).  "The expected shape was not found" is Undecidable (exit 2), and so is every operation on the
guarded objects (sd->temporary, sd->pieces, the barrier, the raw buffer) whose kind is not recognised.

Roles are taken from the interface, never from names of locals: sd / barrier / mwmsa by parameter type, the thread index as
the argument that changes between the spawns of the worker threads, the raw buffer as the value of the operator new call.

Forms that are read (second pass):
 - an element of a container of the sorting data in any of the spellings of Roles.elem_parts (c[i], c.at(i), c.begin()[i],
   *(c.begin() + i), *(c.data() + i), through a saved begin());
 - FORK-JOIN / INDEX-BY-COPY by evaluation of the spawn and the join loop for 1..4 threads (check_fork_join): for / while /
   do loops, counters declared in front of the loop, either direction, `for (std::thread& t : threads) t.join()`, a bound
   spelled threads.size() (= the constructor argument of the container);
 - BARRIER-PHASES: a loop around a wait whose first test is decided by constants (entered_loops) is entered / skipped, so
   `for (r = 0; r < 2; ++r) barrier.wait();` is a barrier on every path and `for (r = 0; r < 0; ++r) barrier.wait();` none;
 - TEMP-DESTROY: when the statements that construct / destroy do not determine the counts (a bound that is computed
   elsewhere in the function from data, e.g. the merged length), the whole body is evaluated in fully specified worlds
   (Life.run, world: thread 1 of 3, each valid splitting algorithm, all elements equal so that lower_bound / upper_bound are
   decided); only a world in which every step evaluates and the destroyed elements differ from the constructed ones is
   reported - no such world leaves the finding of the first evaluation (cannot decide);
 - the C08 rules for the multisequence_partition instantiation of this translation unit run here too (exact splitting)."""
from engine import ir, dtable, match, cfg as cfgm, skel
from engine.ir import kids, strip_casts, const_int, ref_of

PU = "tlx::parallel_mergesort_detail::parallel_sort_mwms_pu"
BASE = "tlx::parallel_mergesort_base"
SD_RECORD = "PMWMSSortingData"
VALID_MWMSA = (0, 1)             # MWMSA_SAMPLING, MWMSA_EXACT: the splitting algorithms a caller may ask for

INDEP, UNKNOWN, DEP = 0, 1, 2    # thread dependence of a value: same for all threads / not known / mentions the thread index
ASSIGN_OPS = ("=", "+=", "-=", "*=", "/=", "%=", "|=", "&=", "^=", ">>=", "<<=")
LOOPS = ("ForStmt", "WhileStmt", "DoStmt")
SLOT_KINDS = ("ArraySubscriptExpr", "CXXOperatorCallExpr", "CXXMemberCallExpr", "UnaryOperator")   # node kinds of sd->field[index] (Roles.elem_parts)
# standard algorithms that take their iterator / value arguments without keeping a reference to them and without destroying elements
BYVALUE_CALLS = {"sort", "stable_sort", "lower_bound", "upper_bound", "equal_range", "binary_search", "uninitialized_copy", "uninitialized_copy_n",
                 "uninitialized_move", "uninitialized_move_n", "uninitialized_fill", "uninitialized_fill_n", "destroy", "destroy_n", "destroy_at",
                 "make_pair", "pair", "min", "max", "distance", "next", "prev", "operator new", "operator delete", "is_sorted", "addressof",
                 "copy", "copy_n", "move", "forward", "merge", "inplace_merge", "partial_sort", "nth_element", "sort_heap", "make_heap"}
READ_OPS = ("+", "-", "*", "/", "%", "<", ">", "<=", ">=", "==", "!=", "[]", "&&", "||", "!", "<<", ">>", "&", "|", "^", "()")
CONSTRUCTS = ("uninitialized_copy", "uninitialized_copy_n", "uninitialized_move", "uninitialized_move_n", "uninitialized_fill", "uninitialized_fill_n")
INT_TYPES = ("unsigned long", "long", "int", "unsigned int", "size_t", "unsigned long long", "long long", "std::size_t")
UNSTABLE_SORTS = ("sort", "partial_sort", "nth_element", "sort_heap")
STABLE_SORTS = ("stable_sort",)


def und(fn, node, what):
    return dtable.Undecidable("%s: %s" % (fn.nloc(node) if node is not None else fn.loc, what))


def is_const_ty(ty):
    t = (ty or "").strip()
    return t.startswith("const ") or t.endswith(" const") or "*const" in t.replace(" ", "")


def is_ref_ty(ty):
    return (ty or "").rstrip().endswith("&")


def is_ptr_ty(ty):
    t = (ty or "").replace(" ", "")
    return t.endswith("*") or t.endswith("*const")


def contains(root, node):
    return any(y is node for y in ir.walk(root))


def std_call(x, names):
    return x is not None and "callee" in x and x["callee"]["name"] in names and (x["callee"].get("qname") or "").startswith("std::")


def is_dtor_op(x):
    """explicit destructor call, pseudo destructor call, std::destroy / destroy_n / destroy_at"""
    if x["k"] == "CXXPseudoDestructorExpr":
        return True
    if "callee" in x and x["callee"]["name"].startswith("~"):
        return True
    if "callee" in x and x["callee"]["name"] in ("destroy", "destroy_n", "destroy_at"):
        return True
    return False


# ------------------------------------------------------------------------------------------------ locals
class Locals:
    """declarations, direct writes and exposure (address taken, bound to a reference, handed to a call that may keep a
    reference) of the locals / parameters of one function; `resolve` looks through locals that keep their initial value"""

    def __init__(self, tu, fn):
        self.tu, self.fn = tu, fn
        self.decl = {}
        self.writes = {}
        self.exposed = set()
        for y in fn.nodes():
            if y["k"] == "VarDecl" and y.get("did") is not None:
                self.decl[y["did"]] = y
                if is_ref_ty(y.get("ty")) and kids(y) and ref_of(kids(y)[0]) is not None and not is_const_ty(y.get("ty")):
                    self.exposed.add(ref_of(kids(y)[0]))
            w = match.unop(y, ("++", "--"))
            if not w and y["k"] in ("BinaryOperator", "CompoundAssignOperator", "CXXOperatorCallExpr"):
                w = match.binop(y, ASSIGN_OPS)
            if w:
                d = ref_of(w[1])
                if d is not None:
                    self.writes.setdefault(d, []).append(y)
            if y["k"] == "UnaryOperator" and y.get("op") == "&" and ref_of(kids(y)[0]) is not None:
                self.exposed.add(ref_of(kids(y)[0]))
            if y["k"] == "LambdaExpr":
                lf = tu.by_did.get(y.get("fn"))
                for c in y.get("captures", []):
                    if c.get("byref") and c.get("id") is not None and (lf is None or c["id"] in self.touched_in(lf)):
                        self.exposed.add(c["id"])
            self.exposed |= self.handed_out(y)

    def handed_out(self, y):
        """variables that the call y may keep a reference to / modify through a reference parameter"""
        out = set()
        if "callee" in y and not self.harmless_call(y):
            cal = self.tu.by_did.get(y["callee"].get("did"))
            args = kids(y)[1:] if y.get("member_call") else kids(y)
            for i, a in enumerate(args):
                if a is None or a["k"] != "DeclRefExpr":
                    continue            # wrapped in a conversion: passed by value
                if cal is not None and y["k"] != "CXXOperatorCallExpr" and i < len(cal.params):
                    ty = cal.params[i].get("ty") or ""
                    if not is_ref_ty(ty) or ty.strip().startswith("const "):
                        continue
                out.add(a["ref"]["id"])
        return out

    def touched_in(self, lf):
        """variables of the enclosing function that a lambda body writes, takes the address of or hands out"""
        out = set()
        for y in lf.nodes():
            w = match.unop(y, ("++", "--"))
            if not w and y["k"] in ("BinaryOperator", "CompoundAssignOperator", "CXXOperatorCallExpr"):
                w = match.binop(y, ASSIGN_OPS)
            if w and ref_of(w[1]) is not None:
                out.add(ref_of(w[1]))
            if y["k"] == "UnaryOperator" and y.get("op") == "&" and ref_of(kids(y)[0]) is not None:
                out.add(ref_of(kids(y)[0]))
            if y["k"] == "LambdaExpr":
                out |= {c["id"] for c in y.get("captures", []) if c.get("byref") and c.get("id") is not None}
            out |= self.handed_out(y)
        return out

    @staticmethod
    def harmless_call(y):
        if y["k"] == "CXXOperatorCallExpr":
            return y.get("op") in READ_OPS
        return y["callee"]["name"] in BYVALUE_CALLS and ((y["callee"].get("qname") or "").startswith("std::") or
                                                        y["callee"]["name"].startswith("operator "))

    def frozen(self, d):
        """the local holds the value of its initialiser wherever it is in scope"""
        v = self.decl.get(d)
        if v is None or not kids(v) or kids(v)[0] is None:
            return False
        if is_ref_ty(v.get("ty")):
            return True                 # a reference names the object it was bound to
        if d in self.writes:
            return False
        return is_const_ty(v.get("ty")) or d not in self.exposed

    def resolve(self, e):
        e = strip_casts(e)
        for _ in range(12):
            d = ref_of(e)
            if d is None or not self.frozen(d):
                break
            e = strip_casts(kids(self.decl[d])[0])
        return e

    def param_unchanged(self, d):
        return d not in self.writes and d not in self.exposed


# ------------------------------------------------------------------------------------------------ roles
def thread_index_param(tu, fn):
    """the parameter of the worker that receives the value that differs between the spawned threads: the argument, at the
    call inside the thread lambda, that refers to a variable written in the loop that spawns the threads"""
    found = set()
    seen_call = False
    for f in tu.functions:
        if f.body is None:
            continue
        for lam in [x for x in f.nodes() if x["k"] == "LambdaExpr"]:
            lf = tu.by_did.get(lam.get("fn"))
            if lf is None:
                continue
            calls = [c for c in lf.nodes() if "callee" in c and c["callee"].get("did") == fn.did]
            if not calls:
                continue
            seen_call = True
            loop = f.parent(lam)
            while loop is not None and loop["k"] not in LOOPS:
                loop = f.parent(loop)
            if loop is None:
                raise und(f, lam, "worker thread is not started in a loop: thread index of %s not identified" % fn.name)
            varying = set()
            for y in ir.walk(loop):
                if y["k"] == "VarDecl" and y.get("did") is not None and loop["k"] == "ForStmt" and kids(loop)[0] is not None and contains(kids(loop)[0], y):
                    varying.add(y["did"])
                w = match.unop(y, ("++", "--")) or (match.binop(y, ASSIGN_OPS) if y["k"] in ("BinaryOperator", "CompoundAssignOperator", "CXXOperatorCallExpr") else None)
                if w and ref_of(w[1]) is not None:
                    varying.add(ref_of(w[1]))
            # a local of the loop body that is computed from a varying variable varies too
            for _ in range(4):
                for y in ir.walk(loop):
                    if y["k"] == "VarDecl" and y.get("did") is not None and y["did"] not in varying and kids(y) and kids(y)[0] is not None and \
                            any(z["k"] == "DeclRefExpr" and z["ref"]["id"] in varying for z in ir.walk(kids(y)[0])):
                        varying.add(y["did"])
            for c in calls:
                args = kids(c)
                if len(args) != len(fn.params):
                    raise und(lf, c, "call of %s with %d arguments" % (fn.name, len(args)))
                for i, a in enumerate(args):
                    if any(y["k"] == "DeclRefExpr" and y["ref"]["id"] in varying for y in ir.walk(a)):
                        found.add(i)
    if not seen_call:
        raise dtable.Undecidable("%s: no thread lambda calls %s: thread index not identified" % (fn.loc, fn.name))
    if len(found) != 1:
        raise dtable.Undecidable("%s: %d arguments of %s vary between the spawned threads: thread index not identified" % (fn.loc, len(found), fn.name))
    return fn.params[found.pop()]["did"]


class Roles:
    def __init__(self, tu, fn):
        self.tu, self.fn = tu, fn
        self.L = Locals(tu, fn)

        def by_type(pred, what):
            ps = [p for p in fn.params if pred(p.get("ty") or "")]
            if len(ps) != 1:
                raise dtable.Undecidable("%s: %s parameter not identified" % (fn.loc, what))
            return ps[0]["did"]
        self.sd = by_type(lambda t: SD_RECORD in t and t.rstrip().endswith("*"), "sorting data")
        self.barrier = by_type(lambda t: "ThreadBarrier" in t, "barrier")
        self.mwmsa = by_type(lambda t: "MultiwayMergeSplittingAlgorithm" in t, "splitting algorithm")
        self.iam = thread_index_param(tu, fn)
        for d, what in ((self.sd, "sorting data pointer"), (self.iam, "thread index"), (self.mwmsa, "splitting algorithm")):
            if not self.L.param_unchanged(d):
                raise dtable.Undecidable("%s: the %s parameter is modified" % (fn.loc, what))

    # ---- sd->field, sd->field[idx]
    def sd_field(self, e):
        f = match.field_of(self.L.resolve(e))
        if not f:
            return None
        b = self.L.resolve(f[0])
        d = match.deref_of(b)
        if d is not None:
            b = self.L.resolve(d)
        return f[1] if ref_of(b) == self.sd else None

    def elem_parts(self, e):
        """(container expression, index expression) if e is an element of a random-access container, in one of the spellings
        c[i], c.at(i), c.begin()[i], c.data()[i], *(c.begin() + i), *(i + c.begin()), *(c.data() + i); locals that keep
        their initial value (a saved begin()) are read through"""
        L = self.L

        def whole(it):
            c = match.call_named(L.resolve(match.strip_conv(it)), ("begin", "cbegin", "data"))
            if c is not None and c.get("member_call") and len(kids(c)) == 1 and (c["callee"].get("qname") or "").startswith(("tlx::SimpleVector", "std::vector", "std::array")):
                return kids(c)[0]
            return None
        e = L.resolve(e)
        p = match.index_parts(e)
        if p:
            w = whole(p[0])
            return (w, p[1]) if w is not None else p
        d = match.deref_of(e)
        if d is not None:
            b = match.binop(L.resolve(d), ("+",))
            if b:
                for it, ix in ((b[1], b[2]), (b[2], b[1])):
                    w = whole(it)
                    if w is not None:
                        return w, ix
        return None

    def slot(self, e):
        """(field, index expression) if e is sd->field[index]"""
        p = self.elem_parts(e)
        if p:
            m = self.sd_field(p[0])
            if m:
                return m, p[1]
        return None

    def lin_iam(self, e, depth=0):
        """(coefficient of the thread index, constant) if e is  k * iam + c  over the integers, else None"""
        e = self.L.resolve(match.strip_conv(e))
        if e is None or depth > 8:
            return None
        c = const_int(e)
        if c is not None:
            return 0, c
        if ref_of(e) == self.iam:
            return 1, 0
        b = match.binop(e, ("+", "-")) if e["k"] == "BinaryOperator" else None
        if b:
            l, r = self.lin_iam(b[1], depth + 1), self.lin_iam(b[2], depth + 1)
            if l is None or r is None:
                return None
            sg = 1 if b[0] == "+" else -1
            return l[0] + sg * r[0], l[1] + sg * r[1]
        return None

    def is_iam(self, e):
        return self.lin_iam(e) == (1, 0)


# ------------------------------------------------------------------------------------------------ thread dependence
class Dep:
    """classifies values as INDEP (built from constants, the thread-independent value parameters and locals that are only
    ever defined from such values under such conditions), DEP (mentions the thread index) or UNKNOWN (memory, calls)"""

    def __init__(self, R):
        self.R, self.fn, self.L = R, R.fn, R.L
        self.loc = {}
        self._ctrl = {}
        defs = {}
        for d, v in self.L.decl.items():
            defs.setdefault(d, [])
            if kids(v) and kids(v)[0] is not None:
                defs[d].append((v, kids(v)[0]))
        for d, ws in self.L.writes.items():
            for w in ws:
                u = match.unop(w, ("++", "--"))
                defs.setdefault(d, []).append((w, None if u else match.binop(w, ASSIGN_OPS)[2]))
        self.params = {p["did"]: p for p in self.fn.params}
        for _ in range(10):
            changed = False
            for d, dl in defs.items():
                if d in self.params:
                    c = DEP if d == R.iam else (INDEP if not is_ref_ty(self.params[d].get("ty")) else UNKNOWN)
                else:
                    c = INDEP if dl else UNKNOWN      # declared without a value and never assigned: filled through a reference
                if d in self.L.exposed and not is_const_ty((self.L.decl.get(d) or self.params.get(d) or {}).get("ty")):
                    c = max(c, UNKNOWN)
                for node, rhs in dl:
                    c = max(c, self.ctrl(node))
                    if rhs is not None:
                        c = max(c, self.cls(rhs))
                if self.loc.get(d, INDEP) != c:
                    self.loc[d] = c
                    changed = True
            self._ctrl = {}
            if not changed:
                break

    def cls(self, e):
        if e is None:
            return INDEP
        if const_int(e) is not None:
            return INDEP
        c = INDEP
        for y in ir.walk(e):
            k = y["k"]
            if k == "DeclRefExpr":
                r = y["ref"]
                if r["id"] == self.R.iam:
                    return DEP
                if r.get("kind") == "enumconst" or const_int(y) is not None:
                    continue
                if r["id"] in self.loc:
                    c = max(c, self.loc[r["id"]])
                elif r["id"] in self.params:
                    c = max(c, INDEP if not is_ref_ty(self.params[r["id"]].get("ty")) else UNKNOWN)
                elif r["id"] in self.L.decl:
                    c = max(c, INDEP)          # optimistic start of the fixpoint
                else:
                    c = max(c, UNKNOWN)        # a global
            elif k in ("MemberExpr", "ArraySubscriptExpr", "This", "LambdaExpr", "CXXNewExpr"):
                c = max(c, UNKNOWN)
            elif k == "UnaryOperator" and y.get("op") in ("*", "&"):
                c = max(c, UNKNOWN)
            elif "callee" in y:
                if y["k"] == "CXXOperatorCallExpr" and y.get("op") in READ_OPS and y.get("op") not in ("[]", "*", "()"):
                    continue
                if std_call(y, ("min", "max")):
                    continue
                c = max(c, UNKNOWN)
            elif k == "CallExpr":
                c = max(c, UNKNOWN)
        return c

    def ctrl(self, node):
        """thread dependence of the conditions that decide whether `node` is executed"""
        if node["id"] in self._ctrl:
            return self._ctrl[node["id"]]
        c = INDEP
        n, par = node, self.fn.parent(node)
        while par is not None:
            k = par["k"]
            if k == "IfStmt":
                if not contains(kids(par)[0], n) and n is not kids(par)[0]:
                    c = max(c, self.cls(kids(par)[0]))
            elif k in LOOPS:
                init, cond, inc, body = match.loop_parts(par)
                if n is not init and not (init is not None and contains(init, n)):
                    c = max(c, self.cls(cond) if cond is not None else INDEP)
            elif k == "ConditionalOperator":
                if n is not kids(par)[0]:
                    c = max(c, self.cls(kids(par)[0]))
            elif k == "BinaryOperator" and par.get("op") in ("&&", "||"):
                if n is kids(par)[1]:
                    c = max(c, self.cls(kids(par)[0]))
            elif k == "SwitchStmt":
                if n is not kids(par)[0]:
                    c = max(c, self.cls(kids(par)[0]))
            elif k in ("CXXForRangeStmt", "CXXTryStmt", "CXXCatchStmt"):
                c = max(c, UNKNOWN)
            n, par = par, self.fn.parent(par)
        self._ctrl[node["id"]] = c
        return c


# ------------------------------------------------------------------------------------------------ CFG helpers
def find_path(g, a, b, avoid, blocked=(), entered=None):
    """blocks of a path from just after position a (None: the function entry) to position b that passes no position of
    `avoid` and takes no edge of `blocked`; None if there is none.  entered: {head block: exit successor} of loops whose
    first test succeeds - a path that reaches such a head from outside the loop (not over a back edge) goes into the body"""
    if a is None:
        a = (g.entry, -1)
    avoid = [p for p in avoid if p is not None]
    if not entered:
        return g.path_between_avoiding(a, b, avoid, blocked)
    tset = {}
    for t in avoid:
        tset.setdefault(t[0], []).append(t[1])
    if a[0] == b[0] and b[1] > a[1] and not any(a[1] < j < b[1] for j in tset.get(a[0], [])):
        return [a[0]]
    if any(j > a[1] for j in tset.get(a[0], [])):
        return None
    be, dom = set(blocked), g.dom()

    def first(frm, to):
        return to in entered and not (frm in dom and to in dom[frm])
    work = [(s_, first(a[0], s_), [a[0], s_]) for s_ in g.succ[a[0]] if (a[0], s_) not in be]
    seen = set()
    while work:
        blk, fl, path = work.pop()
        if (blk, fl) in seen:
            continue
        seen.add((blk, fl))
        if blk == b[0]:
            if not any(j < b[1] for j in tset.get(blk, [])):
                return path
            continue
        if blk in tset:
            continue
        for s_ in g.succ[blk]:
            if (blk, s_) in be or (fl and s_ == entered[blk]):
                continue
            work.append((s_, first(blk, s_), path + [s_]))
    return None


def entered_loops(fn, g, L, loops):
    """-> (entered, skipped).  entered: {head block: exit successor} for those of the given for / while loops whose first
    test is true whatever the data is; skipped: [(head block, body successor)] for those whose first test is false (the
    body is never run).  The initialisation and the condition evaluate on constants alone; a counter that is declared in
    front of the loop (in no other loop) and changed only inside it has its initial value at the first test"""
    entered, skipped = {}, []
    for lp in loops:
        init, cond, inc, body = match.loop_parts(lp)
        if cond is None:
            continue
        env = {}
        for d, v in L.decl.items():
            ws = L.writes.get(d, [])
            if not ws or contains(lp, v) or not all(contains(lp, w) for w in ws) or d in L.exposed or is_ref_ty(v.get("ty")) or not kids(v) or \
                    const_int(kids(v)[0]) is None:
                continue
            # the declaration and the loop are run the same number of times: no loop around this one that does not hold the declaration too
            par, nested = fn.parent(lp), False
            while par is not None and not contains(par, v):
                nested = nested or par["k"] in LOOPS + ("CXXForRangeStmt",)
                par = fn.parent(par)
            if par is not None and not nested and not any(y["k"] in ("GotoStmt", "LabelStmt") for y in fn.nodes()):
                env[d] = const_int(kids(v)[0])
        sk = skel.Skel(fn, env, None, None)
        try:
            if init is not None:
                sk.stmt(init)
            v = sk.ev(cond)
        except (dtable.Undecidable, skel.Return, skel.Diverges):
            continue
        if not isinstance(v, (bool, int)):
            continue
        heads = [bid for bid, b in g.blocks.items() if b.get("term") == lp["id"] and len(b.get("succ", [])) == 2 and None not in b["succ"]]
        if len(heads) == 1 and not any(y["k"] == "BinaryOperator" and y.get("op") in ("&&", "||") for y in ir.walk(cond)):
            if v:
                entered[heads[0]] = g.blocks[heads[0]]["succ"][1]
            elif not any(y["k"] in ("GotoStmt", "LabelStmt") for y in fn.nodes()):
                skipped.append((heads[0], g.blocks[heads[0]]["succ"][0]))
    return entered, skipped


def lazy_locals(L):
    """`unknown` callback for the skeleton: a local that keeps its initial value is read through"""
    busy = set()

    def unknown(e, sk):
        e0 = strip_casts(e)
        if e0 is None or e0["k"] != "DeclRefExpr":
            return None
        d = e0["ref"]["id"]
        v = L.decl.get(d)
        if v is None or d in busy or not L.frozen(d) or is_ref_ty(v.get("ty")):
            return None
        busy.add(d)
        try:
            return sk.ev(kids(v)[0])
        finally:
            busy.discard(d)
    return unknown


def infeasible_edges(fn, g, L, env):
    """-> (edges, open_blocks).  edges: CFG edges that are not taken when the given parameters have the given values (the
    condition that ends a block is evaluated on the integer skeleton; a condition that depends on anything else blocks
    nothing).  open_blocks: blocks whose condition mentions one of these parameters but could not be evaluated - a path that
    branches there is not known to be feasible"""
    out, open_blocks = [], set()

    def mentions(node):
        for y in ir.walk(node):
            if y["k"] == "DeclRefExpr" and (y["ref"]["id"] in env or ref_of(L.resolve(y)) in env or
                                            (L.resolve(y) is not y and any(z["k"] == "DeclRefExpr" and z["ref"]["id"] in env for z in ir.walk(L.resolve(y))))):
                return True
        return False
    for bid, b in g.blocks.items():
        succ = b.get("succ", [])
        if b.get("cond") is None or len([s_ for s_ in succ if s_ is not None]) < 2:
            continue
        node = fn.byid(b["cond"])
        if node is None:
            continue
        try:
            v = skel.Skel(fn, dict(env), lazy_locals(L), None).ev(node)
        except dtable.Undecidable:
            v = None
        if not isinstance(v, (bool, int)):
            if mentions(node):
                open_blocks.add(bid)
            continue
        if b.get("termk") == "SwitchStmt":
            labels = {}
            for s_ in succ:
                lab = fn.byid(g.blocks[s_].get("label")) if s_ is not None and g.blocks[s_].get("label") is not None else None
                labels[s_] = lab
            cases = {s_: lab for s_, lab in labels.items() if lab is not None and lab["k"] == "CaseStmt"}
            rest = [s_ for s_, lab in labels.items() if s_ not in cases]
            if len(rest) > 1 or any("val" not in lab or len([c for c in kids(lab) if c is not None]) > 1 and False for lab in cases.values()):
                open_blocks.add(bid)
                continue
            hit = [s_ for s_, lab in cases.items() if lab.get("val") == int(v)]
            keep = hit if hit else rest
            out += [(bid, s_) for s_ in succ if s_ is not None and s_ not in keep]
            continue
        if len(succ) != 2:
            continue
        dead = succ[1] if v else succ[0]
        if dead is not None:
            out.append((bid, dead))
    return out, open_blocks


def entry_pos(fn, g, stmt):
    """the position that is evaluated first whenever `stmt` is executed"""
    ps = []
    for x in ir.walk(stmt):
        p = g.pos(x)
        if p is not None and p not in ps:
            ps.append(p)
    for p in ps:
        if all(p == q or g.dominates(p, q) for q in ps):
            return p
    return None


# ------------------------------------------------------------------------------------------------ raw buffer life cycle
class Life:
    """the raw buffer of one worker: operator new -> uninitialized_copy -> ... -> destructors -> operator delete.
    Addresses are evaluated on the integer skeleton: the operator new call yields BUF, sd->starts[] a fixed partition in
    which this thread's chunk has the chosen length, sd->source a base address, sd->temporary[k] the buffer of thread k
    (BUF for this thread once the slot has been assigned).  Locals that keep their initial value are read through."""
    BUF, SRC, OTHER, IAM = 5000, 100000, 20000, 1
    OTHER_INT = 3                 # value of the other integer parameters (the thread count) at the evaluated grid point
    FREE_INT = 2                  # value of the integer tunables (non-const globals) in a whole-body world
    SD = ("sd",)                  # value of the sorting data pointer in a whole-body world

    def __init__(self, R, g):
        self.R, self.fn, self.L, self.g = R, R.fn, R.L, g
        fn = self.fn
        self.params = {p["did"]: p for p in fn.params}
        self.news = [x for x in fn.nodes() if x["k"] == "CallExpr" and "callee" in x and x["callee"]["name"] == "operator new"]
        self.dels = [x for x in fn.nodes() if x["k"] == "CallExpr" and "callee" in x and x["callee"]["name"] == "operator delete"]
        self.constructs = [x for x in fn.nodes() if ("callee" in x and x["callee"]["name"] in CONSTRUCTS) or
                           (x["k"] == "CXXNewExpr" and x.get("placement") and not x.get("array"))]
        self.dtor_ops = []
        for x in fn.nodes():
            if is_dtor_op(x):
                self.dtor_ops.append(x)
        # sd->temporary[iam] = <buffer>
        self.stores = []
        for x in fn.nodes():
            b = match.binop(x, ("=",)) if x["k"] in ("BinaryOperator", "CXXOperatorCallExpr") else None
            s = R.slot(b[1]) if b else None
            if s and s[0] == "temporary":
                self.stores.append((x, s[1], b[2]))

    def unit_of(self, x):
        """the statement of the function body that holds x"""
        n, par = x, self.fn.parent(x)
        while par is not None and par is not self.fn.body:
            n, par = par, self.fn.parent(par)
        return n if par is self.fn.body else None

    def starts(self, k, length):
        return sum(length if j == self.IAM else length + 2 + j for j in range(k))

    def tainted_locals(self):
        """locals whose value the whole-body evaluation does not track: address taken, changed inside a lambda through a
        by-reference capture, bound to a reference through an expression that chooses between objects"""
        fn, L, out = self.fn, self.L, set()

        def chosen(e):
            e = strip_casts(e)
            if e is None:
                return
            if e["k"] == "DeclRefExpr":
                out.add(e["ref"]["id"])
            elif e["k"] == "ConditionalOperator":
                chosen(kids(e)[1])
                chosen(kids(e)[2])
            elif e["k"] == "ParenExpr":
                chosen(kids(e)[0])
            elif e["k"] == "BinaryOperator" and e.get("op") == ",":
                chosen(kids(e)[1])
        for y in fn.nodes():
            if y["k"] == "UnaryOperator" and y.get("op") == "&" and ref_of(kids(y)[0]) is not None:
                out.add(ref_of(kids(y)[0]))
            if y["k"] == "LambdaExpr":
                lf = fn.tu.by_did.get(y.get("fn"))
                for c in y.get("captures", []):
                    if c.get("byref") and c.get("id") is not None and (lf is None or c["id"] in L.touched_in(lf)):
                        out.add(c["id"])
            if y["k"] == "VarDecl" and is_ref_ty(y.get("ty")) and not is_const_ty(y.get("ty")) and kids(y) and kids(y)[0] is not None and \
                    strip_casts(kids(y)[0])["k"] != "DeclRefExpr":
                chosen(kids(y)[0])
        return out

    def world_ready(self, tu):
        """closed world for the evaluation of the whole body: the slots of sd->temporary / sd->pieces are used in the worker
        only (in the subscript forms), and no function that receives the sorting data writes the partition"""
        R, fn = self.R, self.fn
        foreign = foreign_field_uses(tu, R, ("temporary", "pieces"))
        if foreign:
            raise und(fn, foreign[0][0], foreign[0][1])

        def writes_partition(f, depth=0):
            for y in f.nodes():
                w = match.unop(y, ("++", "--")) or (match.binop(y, ASSIGN_OPS) if y["k"] in ("BinaryOperator", "CompoundAssignOperator", "CXXOperatorCallExpr") else None)
                if w:
                    for z in ir.walk(w[1]):
                        if z["k"] == "MemberExpr" and SD_RECORD in (z.get("owner") or "") and (z.get("member") == "starts" or
                                                                                               (z.get("member") == "source" and strip_casts(w[1]) is z)):
                            return y
                if y["k"] == "MemberExpr" and SD_RECORD in (y.get("owner") or "") and y.get("member") in ("starts", "source"):
                    par = f.parent(y)
                    while par is not None and par["k"] in ("ImplicitCastExpr", "ParenExpr"):
                        par = f.parent(par)
                    if par is not None and ((par["k"] == "UnaryOperator" and par.get("op") == "&") or
                                            ("callee" in par and par["k"] != "CXXOperatorCallExpr" and not Locals.harmless_call(par) and
                                             not (par.get("member_call") and par["callee"].get("const")) and match.index_parts(par) is None)):
                        return y
                if depth < 4 and "callee" in y and any(a is not None and SD_RECORD in (a.get("ty") or "") for a in kids(y)):
                    cal = tu.by_did.get(y["callee"].get("did"))
                    if cal is not None and cal.body is not None and cal is not f:
                        m = writes_partition(cal, depth + 1)
                        if m is not None:
                            return m
            return None
        for x in fn.nodes():
            f = None
            if x["k"] == "LambdaExpr" and any(c.get("id") == R.sd for c in x.get("captures", [])):
                f = tu.by_did.get(x.get("fn"))
            elif "callee" in x and x["k"] != "CXXOperatorCallExpr" and any(a is not None and ref_of(R.L.resolve(a)) == R.sd for a in kids(x)):
                f = tu.by_did.get(x["callee"].get("did"))
                if f is None or f.body is None:
                    raise und(fn, x, "%s() receives the sorting data and its body is not available" % x["callee"]["name"])
            if f is not None and writes_partition(f) is not None:
                raise und(fn, x, "a function / lambda that receives the sorting data changes sd->starts / sd->source")

    def run(self, length, units=(), exprs=(), world=None):
        """evaluates the given statements of the function body (in order) and then the given expressions for a chunk of
        `length` elements -> (events, values); events: ('dtor', address) / ('free', address) / ('construct', dest, count).

        world: None, or a value of the splitting-algorithm parameter.  Then `units` is the whole function body and it is
        evaluated in one fully specified world: thread IAM of OTHER_INT threads, that splitting algorithm, every free
        integer tunable = FREE_INT, and ALL ELEMENTS EQUAL - so std::lower_bound returns the begin and std::upper_bound
        the end of the searched range of elements, for every valid comparator.  In this mode the locals live in the
        skeleton's environment (nothing is read through), sd->pieces[i][j].m is memory written and read by this thread
        (a cell it has not written is data), calls that set an integer local through a reference are entered, every
        other call forgets the locals it may change.  `world_ready` must have been passed."""
        R, L, fn, g = self.R, self.L, self.fn, self.g
        tu = fn.tu
        events = []
        busy = set()
        inside = set()
        for u in units:
            inside |= {y["id"] for y in ir.walk(u)}
        own_store = [s for s in self.stores if R.is_iam(s[1])]
        pieces = {}
        tainted = self.tainted_locals() if world is not None else set()
        comp_params = [p_["did"] for p_ in fn.params if p_["did"] not in (R.sd, R.iam, R.barrier, R.mwmsa) and not is_int_ty(p_.get("ty")) and
                       not is_ptr_ty(p_.get("ty"))]

        def addr(v):
            if isinstance(v, tuple) and len(v) == 2 and v[0] == "ptr":
                v = v[1]
            if isinstance(v, tuple) and len(v) == 2 and v[0] == "mem":
                v = v[1]
            return v if isinstance(v, int) and not isinstance(v, bool) else None

        def obj_addr(base, sk):
            """address of the object a destructor is called on"""
            b0 = strip_casts(base)
            if is_ptr_ty(b0.get("ty")):
                return addr(sk.ev(base))
            ip = match.index_parts(b0)
            if ip and is_ptr_ty(strip_casts(ip[0]).get("ty")):
                a, i = addr(sk.ev(ip[0])), sk.ev(ip[1])
                return a + i if a is not None and isinstance(i, int) and not isinstance(i, bool) else None
            d = match.deref_of(b0)
            if d is not None:
                return addr(sk.ev(d))
            return addr(sk.lvalue(base))

        def unknown(e, sk):
            e0 = strip_casts(e)
            if e0 is None or e0["k"] != "DeclRefExpr":
                return None
            d = e0["ref"]["id"]
            pr = self.params.get(d)
            if world is not None and d == R.sd:
                return self.SD
            if pr is not None and d != R.iam and L.param_unchanged(d) and (pr.get("ty") or "").replace("const ", "").strip() in INT_TYPES:
                return self.OTHER_INT
            if world is not None:
                # a namespace-scope integer that is not const is a tunable: any value is possible, this world takes FREE_INT
                if e0["ref"].get("kind") == "global" and is_int_ty(e0.get("ty")) and not is_const_ty(e0.get("ty")) and const_int(e0) is None:
                    return self.FREE_INT
                return None
            v = L.decl.get(d)
            if v is None or not kids(v) or kids(v)[0] is None or d in busy:
                return None
            ws = L.writes.get(d, [])
            if not (L.frozen(d) or (d not in L.exposed and ws and all(w["id"] in inside for w in ws) and v["id"] not in inside)):
                return None
            # the initialiser is evaluated where the local is used: its own operands must keep their values
            for y in ir.walk(kids(v)[0]):
                if y["k"] == "DeclRefExpr" and y["ref"]["id"] != d:
                    yd = y["ref"]["id"]
                    if (yd in L.decl and not L.frozen(yd)) or (yd in self.params and not L.param_unchanged(yd) and not is_ref_ty(self.params[yd].get("ty"))):
                        return None
            busy.add(d)
            try:
                init = kids(v)[0]
                if is_ref_ty(v.get("ty")):
                    key = sk.lvalue(init)
                    if key is not None:
                        sk.alias[d] = key
                        return sk.load(key)
                val = sk.ev(init)
                sk.env[d] = val
                return val
            finally:
                busy.discard(d)

        def is_index(v):
            return isinstance(v, int) and not isinstance(v, bool)

        def piece_loc(e, sk):
            """('pieces', i, j, member) if e is sd->pieces[i][j].member"""
            f = match.field_of(e) if e is not None and strip_casts(e)["k"] == "MemberExpr" else None
            p2 = R.elem_parts(f[0]) if f else None
            s_ = R.slot(p2[0]) if p2 else None
            if not s_ or s_[0] != "pieces":
                return None
            i, j = sk.ev(s_[1]), sk.ev(p2[1])
            if not is_index(i) or not is_index(j):
                raise und(fn, e, "sd->pieces[..][..]: index depends on data")
            return "pieces", i, j, f[1]

        def written(e):
            """(op, target, value expression or None) if e assigns / steps something"""
            if e["k"] in ("BinaryOperator", "CompoundAssignOperator", "CXXOperatorCallExpr"):
                b_ = match.binop(e, ASSIGN_OPS)
                if b_:
                    return b_
            u_ = match.unop(e, ("++", "--")) if e["k"] in ("UnaryOperator", "CXXOperatorCallExpr") else None
            return (u_[0], u_[1], None) if u_ else None

        def sd_valued(base, sk):
            """the expression names the sorting data (by value of a parameter of an entered function)"""
            d_ = match.deref_of(base)
            b0 = strip_casts(d_ if d_ is not None else base)
            if b0 is None or b0["k"] != "DeclRefExpr":
                return False
            return sk.env.get(sk.alias.get(b0["ref"]["id"], b0["ref"]["id"])) == self.SD

        def forget_args(e, args, sk, handed):
            """after a call that is not entered: the locals it may have changed are data"""
            for d_ in handed:
                sk.store(sk.alias.get(d_, d_), None)
            for a in args:
                a0 = strip_casts(a)
                if a0 is not None and a0["k"] == "UnaryOperator" and a0.get("op") == "&":
                    sk.store(sk.lvalue(kids(a0)[0]), None)
                elif a0 is not None and a0["k"] == "DeclRefExpr":
                    v_ = sk.env.get(sk.alias.get(a0["ref"]["id"], a0["ref"]["id"]))
                    if isinstance(v_, tuple) and len(v_) == 2 and v_[0] == "ptr":
                        sk.store(v_[1], None)

        def enterable(e):
            cal = tu.by_did.get(e["callee"].get("did")) if tu is not None else None
            return cal if cal is not None and cal.body is not None and cal.kind not in ("ctor", "dtor", "lambda") and e["k"] == "CallExpr" else None

        def callee_event(e, sk):
            """inside a function that was entered from the worker: it may read the partition, everything else of the sorting
            data is data; it does not construct, destroy, allocate or write the fields the evaluation stands on"""
            k = e["k"]
            cf = sk.fn
            if k in ("DeclRefExpr", "IntegerLiteral", "ImplicitCastExpr"):
                return NotImplemented
            if is_dtor_op(e) or k in ("CXXNewExpr", "CXXDeleteExpr") or ("callee" in e and (e["callee"]["name"] in ("operator new", "operator delete") or
                                                                                           e["callee"]["name"] in CONSTRUCTS)):
                raise und(cf, e, "a function entered from the worker constructs / destroys / allocates")
            w = written(e)
            if w:
                for y in ir.walk(w[1]):
                    f_ = match.field_of(y) if y["k"] == "MemberExpr" else None
                    if f_ and sd_valued(f_[0], sk) and f_[1] in ("starts", "temporary", "pieces"):
                        raise und(cf, e, "a function entered from the worker writes sd->%s" % f_[1])
                    if f_ and sd_valued(f_[0], sk) and f_[1] == "source" and strip_casts(w[1]) is y:
                        raise und(cf, e, "a function entered from the worker writes sd->source")
                return NotImplemented
            if k == "MemberExpr":
                f_ = match.field_of(e)
                if f_ and sd_valued(f_[0], sk):
                    return self.SRC if f_[1] == "source" else None
                return NotImplemented
            ip = match.index_parts(e) if k in SLOT_KINDS else None
            f_ = match.field_of(ip[0]) if ip and strip_casts(ip[0])["k"] == "MemberExpr" else None
            if f_ and sd_valued(f_[0], sk):
                kx = sk.ev(ip[1])
                if f_[1] == "pieces":
                    raise und(cf, e, "a function entered from the worker uses sd->pieces")
                if not is_index(kx):
                    return None
                if f_[1] == "starts":
                    return self.starts(kx, length)
                if f_[1] == "temporary" and kx != self.IAM:
                    return self.OTHER + 1000 * kx
                return None
            if "callee" not in e:
                return NotImplemented
            name = e["callee"]["name"]
            if k == "CXXOperatorCallExpr" or std_call(e, ("min", "max")):
                return NotImplemented
            args = [a for a in kids(e) if a is not None and a["k"] != "DefaultArg"]
            if enterable(e) is not None:
                r = sk.inline(e, args)
                if r is not NotImplemented:
                    return r
            vals = [sk.ev(a) for a in args]
            if any(v_ == self.SD for v_ in vals):
                raise und(cf, e, "%s() receives the sorting data and is not followed" % name)
            if not Locals.harmless_call(e):
                forget_args(e, args, sk, [strip_casts(a)["ref"]["id"] for a in args[(1 if e.get("member_call") else 0):]
                                          if strip_casts(a) is not None and strip_casts(a)["k"] == "DeclRefExpr"])
            return None

        def event(e, sk):
            k = e["k"]
            if world is not None:
                if sk.fn is not fn:
                    return callee_event(e, sk)
                if k == "DeclRefExpr" and e["ref"]["id"] in tainted:
                    return None
                if k == "MemberExpr":
                    pl = piece_loc(e, sk)
                    if pl:
                        return pieces.get(pl)
                w = written(e) if k in ("BinaryOperator", "CompoundAssignOperator", "CXXOperatorCallExpr", "UnaryOperator") else None
                pl = piece_loc(w[1], sk) if w and strip_casts(w[1]) is not None and strip_casts(w[1])["k"] == "MemberExpr" else None
                if pl:
                    if pl[1] != self.IAM:
                        raise und(fn, e, "the thread writes sd->pieces[%d][..], another thread's row: what the others write to this thread's row is not known" % pl[1])
                    v_ = sk.ev(w[2]) if w[2] is not None else None
                    pieces[pl] = v_ if w[0] == "=" and is_index(v_) else None
                    return pieces[pl]
                if std_call(e, ("lower_bound", "upper_bound")):
                    args = [a for a in kids(e) if a is not None and a["k"] != "DefaultArg"]
                    if len(args) in (3, 4):
                        a0, a1 = addr(sk.ev(args[0])), addr(sk.ev(args[1]))
                        in_buf = a0 is not None and a1 is not None and a1 >= a0 and (self.BUF <= a0 <= self.BUF + max(length, 0) or
                                                                                      self.OTHER <= a0 < self.OTHER + 1000 * 64)
                        roots = [R.sd_field(y) for y in ir.walk(args[2]) if y["k"] == "MemberExpr"]
                        elem = any(r_ in ("samples", "source", "temporary") for r_ in roots)
                        cmp_ok = len(args) == 3 or (len(comp_params) == 1 and ref_of(L.resolve(args[3])) == comp_params[0])
                        if in_buf and elem and cmp_ok:
                            return a0 if e["callee"]["name"] == "lower_bound" else a1
                    return None
            if k in ("DeclRefExpr", "IntegerLiteral", "ImplicitCastExpr"):
                return NotImplemented
            if k == "MemberExpr":
                if R.sd_field(e) == "source":
                    return self.SRC
                return NotImplemented
            s = R.slot(e) if k in SLOT_KINDS and (k != "UnaryOperator" or e.get("op") == "*") else None
            if s:
                kx = sk.ev(s[1])
                if world is not None and s[0] == "pieces":
                    raise und(fn, e, "sd->pieces[..] is used in a form other than sd->pieces[i][j].member")
                if not isinstance(kx, int) or isinstance(kx, bool):
                    return None
                if s[0] == "starts":
                    return self.starts(kx, length)
                if s[0] == "temporary":
                    if kx != self.IAM:
                        return self.OTHER + 1000 * kx
                    pe = g.pos_deep(e)
                    for (st, _, rhs) in own_store:
                        ps = g.pos_deep(st)
                        if ps is not None and pe is not None and g.dominates(ps, pe) and addr(sk.ev(rhs)) == self.BUF:
                            return self.BUF
                    return None
                return None
            b = match.binop(e, ("=",)) if k in ("BinaryOperator", "CXXOperatorCallExpr") else None
            if b and R.slot(b[1]):
                sk.ev(b[2])
                return None
            if k == "CallExpr" and "callee" not in e and kids(e) and kids(e)[0] is not None and kids(e)[0]["k"] == "CXXPseudoDestructorExpr":
                return event(kids(e)[0], sk)
            if k == "CXXPseudoDestructorExpr" or ("callee" in e and e["callee"]["name"].startswith("~")):
                events.append(("dtor", obj_addr(kids(e)[0], sk) if kids(e) else None, e))
                return None
            if "callee" not in e:
                return NotImplemented
            name = e["callee"]["name"]
            args = [a for a in kids(e) if a is not None and a["k"] != "DefaultArg"]
            if k == "CXXNewExpr":
                if e.get("placement") and not e.get("array") and kids(e):
                    a0 = addr(sk.ev(kids(e)[0]))
                    events.append(("construct", a0, 1, e))
                    return a0
                return None
            if name == "operator new":
                return self.BUF if self.news and e is self.news[0] else None
            if name == "operator delete":
                events.append(("free", addr(sk.ev(args[0])) if args else None, e))
                return None
            if name in ("destroy", "destroy_n", "destroy_at"):
                a = [addr(sk.ev(x)) if i == 0 or name == "destroy" else sk.ev(x) for i, x in enumerate(args)]
                if name == "destroy" and len(a) == 2 and all(isinstance(x, int) for x in a):
                    events.extend(("dtor", z, e) for z in range(a[0], a[1]))
                elif name == "destroy_n" and len(a) == 2 and all(isinstance(x, int) for x in a):
                    events.extend(("dtor", z, e) for z in range(a[0], a[0] + a[1]))
                elif name == "destroy_at" and len(a) == 1 and isinstance(a[0], int):
                    events.append(("dtor", a[0], e))
                else:
                    events.append(("dtor", None, e))
                return None
            if name in CONSTRUCTS:
                a = [sk.ev(x) for x in args]
                if name in ("uninitialized_copy", "uninitialized_move") and len(a) >= 3:
                    dest, cnt = addr(a[2]), (addr(a[1]) - addr(a[0]) if addr(a[0]) is not None and addr(a[1]) is not None else None)
                elif name in ("uninitialized_copy_n", "uninitialized_move_n") and len(a) >= 3:
                    dest, cnt = addr(a[2]), a[1] if isinstance(a[1], int) else None
                elif name == "uninitialized_fill" and len(a) >= 2:
                    dest, cnt = addr(a[0]), (addr(a[1]) - addr(a[0]) if addr(a[0]) is not None and addr(a[1]) is not None else None)
                elif name == "uninitialized_fill_n" and len(a) >= 2:
                    dest, cnt = addr(a[0]), a[1] if isinstance(a[1], int) else None
                else:
                    dest, cnt = None, None
                events.append(("construct", dest, cnt, e))
                return (dest + cnt) if dest is not None and cnt is not None else None
            if name in ("next", "prev") and std_call(e, ("next", "prev")) and args:
                a0 = addr(sk.ev(args[0]))
                n_ = sk.ev(args[1]) if len(args) > 1 else 1
                if a0 is None or not isinstance(n_, int):
                    return None
                return a0 + n_ if name == "next" else a0 - n_
            if name == "distance" and std_call(e, ("distance",)) and len(args) == 2:
                a0, a1 = addr(sk.ev(args[0])), addr(sk.ev(args[1]))
                return a1 - a0 if a0 is not None and a1 is not None else None
            if name == "addressof" and args:
                return addr(sk.lvalue(args[0]))
            if e["k"] == "CXXOperatorCallExpr" or name in ("min", "max"):
                return NotImplemented
            # any other call: its arguments are evaluated, its body is not entered; a call that receives a pointer into the
            # raw buffer and is not known to leave the elements alive makes the life cycle undecidable
            handed = L.handed_out(e) if world is not None else ()
            if world is not None and enterable(e) is not None and any(is_int_ty((L.decl.get(d_) or self.params.get(d_) or {}).get("ty")) for d_ in handed):
                r = sk.inline(e, args)      # sets an integer local of the worker through a reference: entered
                if r is not NotImplemented:
                    return r
            vals = [addr(sk.ev(a)) for a in args]
            if any(isinstance(v, int) and self.BUF <= v <= self.BUF + max(length, 0) + 1 for v in vals) and not Locals.harmless_call(e):
                raise und(fn, e, "%s() receives a pointer into the raw buffer: effect on the temporaries not known" % name)
            if world is not None:
                forget_args(e, args, sk, handed)
            return None

        env = {R.iam: self.IAM}
        if world is not None:
            env[R.mwmsa] = world
        sk = skel.Skel(fn, env, unknown, event, max_iter=24)
        for u in units:
            try:
                sk.stmt(u)
            except skel.Return:
                raise und(fn, u, "return inside the statement that destroys the temporaries")
        vals = [sk.ev(x) for x in exprs]
        return events, [addr(v) if not isinstance(v, bool) else v for v in vals]

    def value(self, e, length=3):
        """address / integer value of an expression for a chunk of `length` elements (None: data)"""
        try:
            return self.run(length, (), (e,))[1][0]
        except dtable.Undecidable:
            return None


def foreign_field_uses(tu, R, fields):
    """uses of sd->temporary / sd->pieces that the rules of this file do not follow: in callees that receive sd, in lambdas
    that capture it, and in the worker itself outside a subscript -> list of (node, text)"""
    fn, out = R.fn, []

    def mentions(f, depth=0):
        bad = [y for y in f.nodes() if y["k"] == "MemberExpr" and y.get("member") in fields and SD_RECORD in (y.get("owner") or "")]
        if bad:
            return bad[0]
        if depth < 4:
            for c in f.nodes():
                if "callee" in c and any(a is not None and SD_RECORD in (a.get("ty") or "") for a in kids(c)):
                    cal = tu.by_did.get(c["callee"].get("did"))
                    if cal is not None and cal.body is not None and cal is not f:
                        m = mentions(cal, depth + 1)
                        if m is not None:
                            return m
        return None
    for x in fn.nodes():
        if x["k"] == "LambdaExpr" and any(c.get("id") == R.sd for c in x.get("captures", [])):
            lf = tu.by_did.get(x.get("fn"))
            if lf is None:
                out.append((x, "a lambda captures the sorting data and its body is not available"))
            elif mentions(lf) is not None:
                out.append((x, "a lambda that captures the sorting data accesses sd->%s" % mentions(lf)["member"]))
        if "callee" in x and x["k"] != "CXXOperatorCallExpr":
            args = kids(x)
            if any(a is not None and ref_of(R.L.resolve(a)) == R.sd for a in args):
                cal = tu.by_did.get(x["callee"].get("did"))
                if cal is None or cal.body is None:
                    out.append((x, "%s() receives the sorting data and its body is not available" % x["callee"]["name"]))
                elif mentions(cal) is not None:
                    out.append((x, "%s() receives the sorting data and accesses sd->%s" % (x["callee"]["name"], mentions(cal)["member"])))
        if x["k"] == "MemberExpr" and R.sd_field(x) in fields:
            # the use is the container of an element access (one of the spellings of Roles.elem_parts) a few levels up
            par, ok = fn.parent(x), False
            for _ in range(8):
                if par is None or par["k"] in ("CompoundStmt", "DeclStmt", "IfStmt") + LOOPS:
                    break
                ep = R.elem_parts(par) if par["k"] in SLOT_KINDS else None
                if ep and contains(ep[0], x) and R.sd_field(ep[0]) == x["member"]:
                    ok = True
                    break
                par = fn.parent(par)
            if not ok:
                out.append((x, "sd->%s is used as a whole (not through a subscript)" % x["member"]))
    return out


def unknown_buffer_use(fn, R, life):
    """a use of the raw buffer pointer (sd->temporary[...] or a local that holds a pointer into the buffer) whose effect on the
    elements is not known: an argument of a call that is not listed in BYVALUE_CALLS, a store into an object other than the
    slot, a pointer variable that is modified -> (node, text) or None"""
    L = R.L
    alias = set()
    for d, v in L.decl.items():
        if kids(v) and kids(v)[0] is not None and is_ptr_ty(v.get("ty")):
            a = life.value(kids(v)[0])
            if a is not None and life.BUF <= a <= life.BUF + 4:
                if not L.frozen(d):
                    return v, "the pointer variable %s into the raw buffer is modified" % v.get("name")
                alias.add(d)
    for x in fn.nodes():
        if x["k"] == "DeclRefExpr":
            if x["ref"]["id"] not in alias:
                continue
        elif x["k"] in SLOT_KINDS and (x["k"] != "UnaryOperator" or x.get("op") == "*"):
            sl = R.slot(x)
            if not sl or sl[0] != "temporary":
                continue
        else:
            continue
        n, par = x, fn.parent(x)
        while par is not None:
            k = par["k"]
            ip = match.index_parts(par)
            if (ip and strip_casts(ip[0]) is strip_casts(n) and is_ptr_ty(strip_casts(n).get("ty"))) or match.deref_of(par) is not None:
                break                    # an element of the buffer: its life ends only through the destructor operations
            if k in ("BinaryOperator", "UnaryOperator", "ConditionalOperator") and par.get("op") not in ASSIGN_OPS and not is_ptr_ty(par.get("ty")):
                break                    # a difference / comparison of pointers
            if k == "VarDecl":
                if par.get("did") not in alias and is_ptr_ty(par.get("ty")) or is_ref_ty(par.get("ty")):
                    return par, "the buffer pointer is stored in %s" % par.get("name")
                break
            b = match.binop(par, ASSIGN_OPS) if k in ("BinaryOperator", "CompoundAssignOperator", "CXXOperatorCallExpr") else None
            if b:
                if contains(b[2], x):
                    sl = R.slot(b[1])
                    if not (sl and sl[0] == "temporary"):
                        return par, "the buffer pointer is stored in %s" % dtable.describe(b[1])[:60]
                break
            if "callee" in par or k in ("CallExpr", "CXXConstructExpr", "CXXTemporaryObjectExpr", "LambdaExpr", "ReturnStmt", "CXXNewExpr", "CXXDeleteExpr"):
                if k == "CXXNewExpr" and par.get("placement") and strip_casts(kids(par)[0]) is strip_casts(n):
                    break                # constructs an element in place
                if k in ("LambdaExpr", "ReturnStmt", "CXXNewExpr", "CXXDeleteExpr") or "callee" not in par:
                    return par, "the buffer pointer is used in a %s" % k
                if is_dtor_op(par) or Locals.harmless_call(par):
                    break
                if k in ("CXXConstructExpr", "CXXTemporaryObjectExpr") and (par["callee"].get("qname") or "").startswith("std::pair"):
                    break
                return par, "%s() receives the buffer pointer" % par["callee"]["name"]
            if k in ("CompoundStmt", "IfStmt", "ForStmt", "WhileStmt", "DoStmt", "DeclStmt", "SwitchStmt"):
                break
            n, par = par, fn.parent(par)
    return None


def check_temp_destroy(ck, tu, fn, tag, R, life):
    g = life.g
    news, dels, constructs = life.news, life.dels, life.constructs
    ck.require(len(news) == 1 and len(dels) == 1 and len(constructs) >= 1, "%s: raw buffer life cycle not recognised" % fn.loc)
    for x in fn.nodes():
        w = match.unop(x, ("++", "--")) or (match.binop(x, ASSIGN_OPS) if x["k"] in ("BinaryOperator", "CompoundAssignOperator", "CXXOperatorCallExpr") else None)
        if w and any(R.sd_field(y) in ("starts", "source") for y in ir.walk(w[1]) if y["k"] == "MemberExpr"):
            raise und(fn, x, "the worker modifies sd->starts / sd->source: chunk length not evaluated")
    units, allunits = [], []
    for d in life.dtor_ops + constructs:
        u = life.unit_of(d)
        if u is None:
            raise und(fn, d, "construction / destruction outside the statements of the function body")
        if d in life.dtor_ops and not any(u is v for v in units):
            units.append(u)
        if not any(u is v for v in allunits):
            allunits.append(u)
    allunits = [u for u in kids(fn.body) if any(u is v for v in allunits)]
    # destructor calls in lambdas of the worker are not followed
    for x in fn.nodes():
        if x["k"] == "LambdaExpr":
            lf = tu.by_did.get(x.get("fn"))
            if lf is None or any(is_dtor_op(y) or ("callee" in y and y["callee"]["name"] in ("operator delete",)) for y in lf.nodes()):
                raise und(fn, x, "a lambda of the worker destroys / releases objects: not followed")
    def analyse(ev):
        """-> (number constructed, constructed offsets, destroyed offsets) of one evaluation; Undecidable if an address / a
        count is data or the events are not construct* -> dtor* -> one free of the buffer"""
        cons = [e for e in ev if e[0] == "construct"]
        if any(e[1] is None or e[2] is None or e[2] < 0 for e in cons):
            raise und(fn, constructs[0], "target / number of the elements constructed into the raw buffer not evaluated")
        built = sorted(a for e in cons for a in range(e[1], e[1] + e[2]))
        if any(not (life.BUF <= a < life.BUF + 64) for a in built):
            raise und(fn, constructs[0], "elements are constructed outside the buffer obtained from operator new")
        frees = [e for e in ev if e[0] == "free"]
        if len(frees) != 1 or frees[0][1] != life.BUF:
            raise und(fn, dels[0], "released buffer is not the buffer obtained from operator new")
        hits = [e[1] for e in ev if e[0] == "dtor"]
        if None in hits:
            raise und(fn, [e[2] for e in ev if e[0] == "dtor" and e[1] is None][0], "object of an explicit destructor call not understood")
        order = [e[0] for e in ev if e[0] in ("dtor", "free")]
        if "free" in order and "dtor" in order[order.index("free"):]:
            raise und(fn, dels[0], "destructor calls after operator delete in the same statement")
        return len(built), [a - life.BUF for a in built], sorted(h - life.BUF for h in hits)

    def world_counterexample():
        """the statements that construct / destroy do not determine the counts by themselves (a bound computed elsewhere in the
        function, from data): the whole body is evaluated in fully specified worlds (Life.run, world); a world in which
        every step evaluates and the destroyed elements are not the constructed ones is a counterexample -> text"""
        try:
            life.world_ready(tu)
        except dtable.Undecidable:
            return None
        for v in VALID_MWMSA:
            names = sorted({y["ref"]["name"] for y in fn.nodes() if y["k"] == "DeclRefExpr" and y["ref"].get("kind") == "enumconst" and const_int(y) == v and
                            "MultiwayMergeSplittingAlgorithm" in (y.get("ty") or "")})
            for length in (3, 2, 1):
                try:
                    r = analyse(life.run(length, kids(fn.body), (), world=v)[0])
                except (dtable.Undecidable, skel.Diverges):
                    continue
                if r[1] != r[2]:
                    return r, ("whole function evaluated for thread %d of %d with a chunk of %d elements, splitting algorithm %s, all elements equal"
                               % (life.IAM, life.OTHER_INT, length, names[0] if len(names) == 1 else v))
        return None
    bad = None
    try:
        for length in range(4):
            ev, vals = life.run(length, allunits, [] if any(contains(u, dels[0]) for u in allunits) else [dels[0]])
            r = analyse(ev)
            if r[1] != r[2] and bad is None:
                bad = r
    except dtable.Undecidable:
        w = world_counterexample() if life.dtor_ops else None
        if w is None:
            raise
        ck.violation("TEMP-DESTROY", fn.qname, tag + ":count", "the number of destroyed temporaries differs from the number constructed: %d elements %s are constructed, "
                     "the elements %s are destroyed" % w[0] + " (%s)" % w[1], fn.nloc(life.dtor_ops[0]))
        return [dels[0]] + life.dtor_ops
    free_nodes = [dels[0]] + life.dtor_ops
    if not life.dtor_ops:
        # absence in a closed world: every use of the buffer in the worker was evaluated above or is listed in BYVALUE_CALLS;
        # the sorting data is not handed to code that touches sd->temporary
        foreign = foreign_field_uses(tu, R, ("temporary",))
        if foreign:
            raise und(fn, foreign[0][0], foreign[0][1] + ": destruction of the temporaries not decided")
        unk = unknown_buffer_use(fn, R, life)
        if unk:
            raise und(fn, unk[0], unk[1] + ": destruction of the temporaries not decided")
        ck.violation("TEMP-DESTROY", fn.qname, tag, "elements are copy-constructed into a raw buffer (uninitialized_copy) but the buffer is released with operator delete "
                     "without destroying them: every temporary copy leaks its resources", fn.nloc(dels[0]))
        return free_nodes
    if bad:
        ck.violation("TEMP-DESTROY", fn.qname, tag + ":count", "the number of destroyed temporaries differs from the number constructed: %d elements %s are constructed, "
                     "the elements %s are destroyed" % bad, fn.nloc(life.dtor_ops[0]))
        return free_nodes
    pc, pd = g.pos(constructs[0]), g.pos(dels[0])
    if pc is None or pd is None:
        raise und(fn, dels[0], "construction / release not found in the control-flow graph")
    for u in units:
        pu = entry_pos(fn, g, u)
        if pu is None:
            raise und(fn, u, "entry of the destroying statement not found in the control-flow graph")
        if contains(u, dels[0]):
            continue                      # evaluated as a whole above
        path = find_path(g, pc, pd, [pu])
        if path is not None:
            ck.violation("TEMP-DESTROY", fn.qname, tag + ":path", "the temporaries are not destroyed on every path to operator delete (blocks %s)" % path, fn.nloc(dels[0]))
            return free_nodes
    ck.ok("TEMP-DESTROY", tag, "every element constructed into temporary[iam] is destroyed before operator delete")
    return free_nodes


# ------------------------------------------------------------------------------------------------ barriers
def barrier_waits(fn, R):
    """the barrier crossings of the worker; every other use of the barrier object is not understood"""
    waits, recv = [], set()
    for x in fn.nodes():
        if "callee" in x and x.get("member_call") and "ThreadBarrier" in (x["callee"].get("record") or x["callee"].get("qname") or ""):
            if x["callee"]["name"] not in ("wait", "wait_yield"):
                raise und(fn, x, "barrier operation %s() not understood" % x["callee"]["name"])
            if ref_of(R.L.resolve(kids(x)[0])) != R.barrier:
                raise und(fn, x, "wait on a barrier that is not the worker's barrier parameter")
            waits.append(x)
            recv |= {y["id"] for y in ir.walk(kids(x)[0])}
    aliases = {d for d, v in R.L.decl.items() if R.L.frozen(d) and ref_of(R.L.resolve(kids(v)[0])) == R.barrier}
    for x in fn.nodes():
        if x["k"] == "DeclRefExpr" and (x["ref"]["id"] == R.barrier or x["ref"]["id"] in aliases) and x["id"] not in recv:
            par = fn.parent(x)
            if par is not None and par["k"] == "VarDecl" and par.get("did") in aliases:
                continue
            raise und(fn, x, "the barrier is used in an operation that is not understood")
        if x["k"] == "LambdaExpr" and any(c.get("id") == R.barrier or c.get("id") in aliases for c in x.get("captures", [])):
            raise und(fn, x, "a lambda captures the barrier")
    return waits


def check_barrier_balance(ck, fn, tag, R, waits):
    """BARRIER-BALANCE: all threads cross the same number of barriers.  The number of waits is computed over the statement
    tree; a choice on a thread-independent condition may change it (all threads choose alike), the two sides of a
    thread-dependent condition must cross equally many, a loop around a wait needs a thread-independent trip count"""
    dep = Dep(R)
    wait_ids = {w["id"] for w in waits}
    bad = []

    def expr_waits(e):
        n = 0
        for y in ir.walk(e):
            if y["id"] in wait_ids:
                n += 1
                p, c = fn.parent(y), y
                while p is not None and p is not e and c is not e:
                    if p["k"] == "ConditionalOperator" and c is not kids(p)[0]:
                        raise und(fn, y, "barrier wait inside a conditional expression")
                    if p["k"] == "BinaryOperator" and p.get("op") in ("&&", "||") and c is kids(p)[1]:
                        raise und(fn, y, "barrier wait inside a short-circuit expression")
                    c, p = p, fn.parent(p)
        return n

    def seq(parts):
        total, forms = 0, []
        for p in parts:
            if isinstance(p, int):
                total += p
            elif p[0] == "seq":
                total += p[1]
                forms += list(p[2])
            else:
                forms.append(p)
        return total if not forms else ("seq", total, tuple(forms))

    def show(f):
        if isinstance(f, int):
            return str(f)
        if f[0] == "seq":
            return " + ".join(([str(f[1])] if f[1] else []) + [show(x) for x in f[2]])
        if f[0] == "if":
            return "(line %s ? %s : %s)" % (f[1], show(f[3]), show(f[4]))
        if f[0] == "switch":
            return "(switch at line %s: up to %s)" % (f[1], f[3])
        return "loop at line %s of %s" % (f[1], show(f[3]))

    def has_wait(s):
        return s is not None and any(y["id"] in wait_ids for y in ir.walk(s))

    def wform(s):
        if s is None:
            return 0
        k = s["k"]
        if not has_wait(s):
            return 0
        if k in ("CompoundStmt", "AttributedStmt"):
            return seq([wform(c) for c in kids(s)])
        if k == "IfStmt":
            ch = kids(s) + [None, None]
            pre = expr_waits(ch[0]) + (expr_waits(s["init"]) if isinstance(s.get("init"), dict) else 0)
            ft, fe = wform(ch[1]), wform(ch[2])
            if ft == fe:
                return seq([pre, ft])
            c = dep.cls(ch[0])
            c = max(c, INDEP)
            if c == INDEP:
                return seq([pre, ("if", s.get("l"), s["id"], ft, fe)])
            if c == DEP and isinstance(ft, int) and isinstance(fe, int):
                bad.append((s, "the thread index", "the branches of the condition at line %s cross %s and %s barriers" % (s.get("l"), show(ft), show(fe))))
                return seq([pre, ft])
            if c == DEP:
                raise und(fn, s, "the branches of a thread-dependent condition cross %s and %s barriers: equality not decided" % (show(ft), show(fe)))
            raise und(fn, s, "barrier wait under a condition whose dependence on the thread is not known: %s" % dtable.describe(ch[0])[:80])
        if k in LOOPS:
            init, cond, inc, body = match.loop_parts(s)
            pre = wform(init) if init is not None and init["k"] in ("DeclStmt", "CompoundStmt") else (expr_waits(init) if init is not None else 0)
            fb = seq([wform(body), expr_waits(cond) if cond is not None else 0, expr_waits(inc) if inc is not None else 0])
            if fb == 0:
                return pre
            if cond is None:
                raise und(fn, s, "barrier wait in an endless loop")
            c = dep.cls(cond)
            if c == INDEP:
                return seq([pre, ("loop", s.get("l"), s["id"], fb)])
            if c == DEP:
                bad.append((s, "a loop", "the trip count of the loop at line %s depends on the thread index" % s.get("l")))
                return pre
            raise und(fn, s, "barrier wait in a loop whose trip count is not known to be the same for all threads: %s" % dtable.describe(cond)[:80])
        if k in ("SwitchStmt", "CXXForRangeStmt", "CXXTryStmt", "LabelStmt", "CaseStmt", "DefaultStmt"):
            # no count over this statement kind; but if every wait and every jump in it is controlled by thread-independent
            # conditions only, all threads walk the same way through it
            inner = [w for w in waits if contains(s, w)] + [y for y in ir.walk(s) if y["k"] in ("ReturnStmt", "BreakStmt", "ContinueStmt", "GotoStmt")]
            if k == "SwitchStmt" and all(y["k"] != "GotoStmt" and dep.ctrl(y) == INDEP for y in inner):
                return ("switch", s.get("l"), s["id"], len([w for w in waits if contains(s, w)]))
            raise und(fn, s, "barrier wait inside %s" % k)
        return expr_waits(s)

    def early_return_evidence(y):
        """`if (<thread-dependent>) return;` directly under thread-independent control, with a barrier on every path that
        the other threads take from there to the end of the function -> text, else None"""
        P, n = fn.parent(y), y
        while P is not None and P["k"] == "CompoundStmt" and kids(P) and kids(P)[-1] is n and P is not fn.body:
            n, P = P, fn.parent(P)
        if P is None or P["k"] != "IfStmt" or n is kids(P)[0] or has_wait(n) or dep.cls(kids(P)[0]) != DEP or dep.ctrl(P) != INDEP:
            return None
        if any(z["k"] in ("ReturnStmt", "BreakStmt", "ContinueStmt", "GotoStmt") and z is not y for z in ir.walk(n)):
            return None
        g = cfgm.CFG(fn)
        blocks = [b for b in g.blocks.values() if b.get("term") == P["id"] and len(b.get("succ", [])) == 2 and None not in b["succ"]]
        if len(blocks) != 1:
            return None
        other = blocks[0]["succ"][1] if n is kids(P)[1] else blocks[0]["succ"][0]
        wp = [g.pos(w) for w in waits]
        if None in wp or g.path_avoiding((other, -1), wp) is not None:
            return None
        return "the thread that returns at line %s crosses no further barrier, every other thread crosses at least one more" % y.get("l")

    # jumps: a return (or a break / continue of a loop that holds a wait) must not depend on the thread
    body_stmts = kids(fn.body)
    for y in fn.nodes():
        if y["k"] in ("ReturnStmt", "BreakStmt", "ContinueStmt", "GotoStmt"):
            if y["k"] == "ReturnStmt" and body_stmts and y is body_stmts[-1]:
                continue
            if y["k"] in ("BreakStmt", "ContinueStmt"):
                lp = fn.parent(y)
                while lp is not None and lp["k"] not in LOOPS + ("SwitchStmt",):
                    lp = fn.parent(lp)
                if lp is None or not has_wait(lp):
                    continue
            if y["k"] == "GotoStmt" or dep.ctrl(y) != INDEP:
                ev = early_return_evidence(y) if y["k"] == "ReturnStmt" else None
                if ev is not None:
                    ck.violation("BARRIER-BALANCE", fn.qname, "%s:%s" % (tag, fn.nloc(y)), "barrier.wait() depends on the thread index: threads cross a different number of "
                                 "barriers (deadlock); %s" % ev, fn.nloc(y))
                    return
                raise und(fn, y, "%s under a condition that is not known to be the same for all threads: barrier crossings not counted" % y["k"])
    total = wform(fn.body)
    for s, why, detail in bad:
        ws = [w for w in waits if contains(s, w)]
        w = ws[0] if ws else s
        ck.violation("BARRIER-BALANCE", fn.qname, "%s:%s" % (tag, fn.nloc(w)), "barrier.wait() depends on %s: threads cross a different number of barriers (deadlock); %s"
                     % (why, detail), fn.nloc(w))
    if not bad:
        ck.ok("BARRIER-BALANCE", tag, "%d barrier waits, every thread crosses %s" % (len(waits), show(total)))


class Access:
    def __init__(self, node, field, idx, own, kind, member):
        self.node, self.field, self.idx, self.own, self.kind, self.member = node, field, idx, own, kind, member


def slot_accesses(fn, R, dep, field):
    """the accesses to sd->field[idx] in the worker; own: 'own' (idx is the thread index) / 'cross' (provably another or
    every thread's slot) / 'maybe'; kind: 'r' / 'w' / 'rw' / '?' (address taken, bound to a reference, unknown call)"""
    out = []
    CASTS = ("ImplicitCastExpr", "CXXStaticCastExpr", "CStyleCastExpr", "CXXFunctionalCastExpr", "CXXConstCastExpr", "CXXReinterpretCastExpr", "ParenExpr")
    alias_inits = set()
    for d, v in R.L.decl.items():
        if is_ref_ty(v.get("ty")) and kids(v) and kids(v)[0] is not None:
            alias_inits |= {y["id"] for y in ir.walk(kids(v)[0])}
    for x in fn.nodes():
        if x["id"] in alias_inits:
            continue                     # binding a reference is not an access; the uses of the reference are
        if x["k"] == "DeclRefExpr":
            d = x["ref"]["id"]
            v = R.L.decl.get(d)
            if v is None or not is_ref_ty(v.get("ty")) or not kids(v):
                continue
            chain = strip_casts(kids(v)[0])
        elif x["k"] in SLOT_KINDS and (x["k"] != "UnaryOperator" or x.get("op") == "*"):
            chain = x
        else:
            continue
        # innermost slot of the field on the lvalue chain
        s, e, member = None, chain, None
        for _ in range(8):
            if e is None:
                break
            if e is not x and e is not chain and x["k"] != "DeclRefExpr":
                break
            sl = R.slot(e)
            if sl and sl[0] == field:
                s = sl
                break
            if x["k"] != "DeclRefExpr":
                break
            f = match.field_of(e)
            ip = match.index_parts(e)
            if f:
                member = member or f[1]
                e = strip_casts(f[0])
                chain = e
            elif ip:
                e = strip_casts(ip[0])
                chain = e
            else:
                break
        if not s:
            continue
        idx = s[1]
        lin = R.lin_iam(idx)
        if lin == (1, 0):
            own = "own"
        elif lin is not None and lin[0] == 1 and lin[1] != 0:
            own = "cross"
        elif dep.cls(idx) == INDEP:
            own = "cross"
        else:
            own = "maybe"
        # climb the lvalue chain: member selection, further subscripts, casts
        top, par = x, fn.parent(x)
        while par is not None:
            if par["k"] in CASTS:
                par = fn.parent(par)
                continue
            if par["k"] == "MemberExpr" and kids(par) and strip_casts(kids(par)[0]) is top:
                member = member or par.get("member")
                top, par = par, fn.parent(par)
                continue
            ip = match.index_parts(par)
            if ip and strip_casts(ip[0]) is top:
                top, par = par, fn.parent(par)
                continue
            break
        kind = "r"
        if par is not None:
            b = match.binop(par, ASSIGN_OPS) if par["k"] in ("BinaryOperator", "CompoundAssignOperator", "CXXOperatorCallExpr") else None
            u = match.unop(par, ("++", "--"))
            if b and strip_casts(b[1]) is top:
                kind = "w" if b[0] == "=" else "rw"
            elif u and strip_casts(u[1]) is top:
                kind = "rw"
            elif par["k"] == "UnaryOperator" and par.get("op") == "&":
                kind = "?"
            elif par["k"] == "VarDecl":
                kind = "?" if is_ref_ty(par.get("ty")) and not is_const_ty(par.get("ty")) else "r"
            elif par["k"] == "LambdaExpr":
                kind = "?"
            elif "callee" in par:
                if par["k"] == "CXXOperatorCallExpr":
                    kind = "r" if par.get("op") in READ_OPS else "?"
                elif par.get("member_call") and kids(par) and strip_casts(kids(par)[0]) is top:
                    kind = "r" if par["callee"].get("const") else "?"
                elif par["k"] in ("CXXConstructExpr", "CXXTemporaryObjectExpr") or Locals.harmless_call(par):
                    kind = "r"
                else:
                    kind = "?"
        out.append(Access(x, field, idx, own, kind, member))
    return out


def check_barrier_phases(ck, tu, fn, tag, R, g, waits, free_nodes):
    """BARRIER-PHASES: own-slot write -> barrier -> cross-slot read ; cross reads -> barrier -> release.  Every finding is a
    path of the CFG that is feasible for one of the valid splitting algorithms and passes no barrier"""
    dep = Dep(R)
    wpos = [g.pos(w) for w in waits]
    if any(p is None for p in wpos):
        raise und(fn, waits[wpos.index(None)], "barrier wait not found in the control-flow graph")
    blocked = {v: infeasible_edges(fn, g, R.L, {R.mwmsa: v}) for v in VALID_MWMSA}
    # a path that leaves a loop holding a wait without entering it is not known to be feasible (the first test of the loop
    # condition may always succeed): evidence must also avoid the heads of such loops
    # (a loop whose first test is true on constants alone is entered: find_path sends a path that arrives at its head from
    # outside into the body)
    wait_loops = [lp for lp in fn.nodes() if lp["k"] in ("ForStmt", "WhileStmt") and any(contains(lp, w) for w in waits)]
    entered, skipped = entered_loops(fn, g, R.L, wait_loops)
    blocked = {v: (blocked[v][0] + skipped, blocked[v][1]) for v in blocked}
    heads = []
    for lp in wait_loops:
        cond = match.loop_parts(lp)[1]
        pc = g.pos_deep(cond) if cond is not None else None
        if pc is not None and pc[0] not in entered and pc[0] not in [h for h, _ in skipped]:
            heads.append(pc)

    def path(a, b):
        """-> (value of mwmsa, blocks) of a feasible barrier-free path a -> b; raises Undecidable for a barrier-free path whose
        feasibility is not known; None if every path passes a barrier"""
        doubt = None
        for v in VALID_MWMSA:
            p = find_path(g, a, b, wpos, blocked[v][0], entered)
            if p is None:
                continue
            q = find_path(g, a, b, wpos + heads, blocked[v][0], entered) if heads else p
            if q is not None and not (set(q) & blocked[v][1]):
                return v, q
            doubt = p
        if doubt is not None:
            raise dtable.Undecidable("%s: a barrier-free path (blocks %s) exists only through a loop that holds a barrier wait or through a test of the "
                                     "splitting algorithm that is not evaluated: feasibility not known" % (fn.loc, doubt))
        return None
    foreign = foreign_field_uses(tu, R, ("temporary", "pieces"))
    viol, undecided = False, []
    if foreign:
        undecided.append(und(fn, foreign[0][0], foreign[0][1] + ": accesses to the shared slots not classified"))
    merges = [x for x in fn.nodes() if "callee" in x and x["k"] == "CallExpr" and "multiway_merge" in x["callee"]["name"] and
              (x["callee"].get("qname") or "").startswith("tlx::")]
    frees = [f for f in free_nodes if f is not None]
    fpos = {}
    for f in frees:
        fpos[f["id"]] = g.pos_deep(f)
        if fpos[f["id"]] is None:
            raise und(fn, f, "release of the temporaries not found in the control-flow graph")
    for field in ("temporary", "pieces"):
        acc = slot_accesses(fn, R, dep, field)
        for a in acc:
            a.pos = g.pos_deep(a.node)
            if a.pos is None:
                raise und(fn, a.node, "access to sd->%s not found in the control-flow graph" % field)
        writes_own = [a for a in acc if a.own != "cross" and a.kind != "r"]
        cross = [a for a in acc if a.own != "own"]
        for x in cross:
            idx = dtable.describe(x.idx)
            p = path(None, x.pos)
            if p is not None:
                if x.own == "cross":
                    ck.violation("BARRIER-PHASES", fn.qname, "%s:%s[%s]" % (tag, field, idx), "sd->%s[%s] (another thread's slot) is accessed without a preceding barrier"
                                 % (field, idx), fn.nloc(x.node))
                    viol = True
                else:
                    undecided.append(und(fn, x.node, "sd->%s[%s]: not decided whether this is the thread's own slot, and no barrier precedes the access" % (field, idx)))
                continue
            # every own write of this field that can reach x must be separated from it by a barrier
            for y in writes_own:
                if x.member is not None and y.member is not None and x.member != y.member:
                    continue
                p = path(y.pos, x.pos)
                if p is None:
                    continue
                if x.own == "cross" and y.own == "own" and y.kind in ("w", "rw"):
                    ck.violation("BARRIER-PHASES", fn.qname, "%s:%s[%s]:write" % (tag, field, idx), "a thread's own write to sd->%s and another thread's read of that slot "
                                 "are not separated by a barrier" % field, fn.nloc(x.node))
                    viol = True
                else:
                    undecided.append(und(fn, y.node, "sd->%s[%s] at line %s and sd->%s[%s] are not separated by a barrier: kind of access / owner of the slot not decided"
                                         % (field, dtable.describe(y.idx), y.node.get("l"), field, idx)))
        if field == "temporary":
            # release after the last cross read: a barrier between
            for f in frees:
                for x in cross:
                    if path(x.pos, fpos[f["id"]]) is not None:
                        if x.own == "cross":
                            ck.violation("BARRIER-PHASES", fn.qname, "%s:release" % tag, "temporary[iam] is destroyed / released while other threads may still read it "
                                         "(no barrier after the merge)", fn.nloc(f))
                            viol = True
                        else:
                            undecided.append(und(fn, x.node, "sd->temporary[%s] is followed by the release without a barrier: owner of the slot not decided" % dtable.describe(x.idx)))
                        break
    # the merge itself reads all temporaries: the final barrier must lie between the merge call and the release
    if not merges:
        undecided.append(und(fn, None, "merge step not found: release of the temporaries after the merge not decided"))
    for f in frees:
        for m in merges:
            pm = g.pos_deep(m)
            if pm is None:
                raise und(fn, m, "merge call not found in the control-flow graph")
            if path(pm, fpos[f["id"]]) is not None:
                ck.violation("BARRIER-PHASES", fn.qname, "%s:release-after-merge" % tag, "a thread destroys / frees its temporary buffer without waiting for the other threads' "
                             "merges to finish", fn.nloc(f))
                viol = True
                break
    if viol:
        return
    if undecided:
        raise undecided[0]
    ck.ok("BARRIER-PHASES", tag, "own-slot writes -> barrier -> cross-slot reads -> barrier -> release, for temporary[] and pieces[][]")


# ------------------------------------------------------------------------------------------------ stability
def liveness(fn, L, node):
    """'live' / 'dead' / 'cond': whether the node sits in a branch selected by compile-time constants"""
    res = "live"
    n, par = node, fn.parent(node)
    while par is not None:
        c = None
        if par["k"] in ("IfStmt", "ConditionalOperator") and n is not kids(par)[0]:
            c = kids(par)[0]
            in_then = n is kids(par)[1]
        elif par["k"] in LOOPS:
            init, cond, inc, body = match.loop_parts(par)
            if n is body or n is inc:
                res = "cond" if res == "live" else res
        elif par["k"] in ("SwitchStmt", "CXXForRangeStmt", "CXXTryStmt", "CaseStmt", "DefaultStmt") and n is not kids(par)[0]:
            res = "cond" if res == "live" else res
        elif par["k"] == "BinaryOperator" and par.get("op") in ("&&", "||") and n is kids(par)[1]:
            res = "cond" if res == "live" else res
        if c is not None:
            v = const_int(c)
            if v is None:
                try:
                    v = skel.Skel(fn, {}, lazy_locals(L), None).ev(c)
                except dtable.Undecidable:
                    v = None
            if isinstance(v, (bool, int)):
                if bool(v) != in_then:
                    return "dead"
            elif res == "live":
                res = "cond"
        n, par = par, fn.parent(par)
    return res


def merge_stability(m):
    """True / False / None (not known) for a call of one of the multiway merge entry points"""
    nm = m["callee"]["name"]
    targs = m["callee"].get("targs") or []
    if nm.endswith("multiway_merge_base") and targs and targs[0] in ("true", "false"):
        return targs[0] == "true"
    if nm.startswith("stable_") and nm.endswith(("multiway_merge", "multiway_merge_sentinels")):
        return True
    if nm in ("multiway_merge", "multiway_merge_sentinels", "parallel_multiway_merge"):
        return False
    return None


def check_stable(ck, tu, fn, tag, R, life):
    st = fn.targs[0]
    L = R.L
    sorts = []
    for x in fn.nodes():
        if not std_call(x, UNSTABLE_SORTS + STABLE_SORTS) or not kids(x):
            continue
        a = life.value(kids(x)[0])
        if a is not None and a != life.BUF:
            continue                      # sorts something else (an address outside this thread's buffer)
        if a is None:
            # not the chunk if the range is rooted in another field of the sorting data or in a local container
            roots = [R.sd_field(y) for y in ir.walk(kids(x)[0]) if y["k"] == "MemberExpr"]
            if any(r is not None and r != "temporary" for r in roots) and "temporary" not in roots:
                continue
        sorts.append((x, a == life.BUF, liveness(fn, L, x)))
    merges = [x for x in fn.nodes() if "callee" in x and x["k"] == "CallExpr" and "multiway_merge" in x["callee"]["name"] and
              (x["callee"].get("qname") or "").startswith("tlx::")]
    merges = [(m, liveness(fn, L, m)) for m in merges]
    if not [m for m in merges if m[1] != "dead"]:
        raise dtable.Undecidable("%s: merge step not found" % fn.loc)
    livesorts = [s for s in sorts if s[2] != "dead"]
    if not livesorts and st == "true":
        raise dtable.Undecidable("%s: local sort of the chunk not found" % fn.loc)
    names = sorted(set(s[0]["callee"]["name"] for s in livesorts))
    bad = False
    undecided = None
    if st == "true":
        for x, own, lv in livesorts:
            if x["callee"]["name"] in STABLE_SORTS:
                continue
            if own and lv == "live":
                ck.violation("STABLE-PROPAGATE", fn.qname, tag + ":local-sort", "the stable variant sorts its chunk with %s" % [x["callee"]["name"]], fn.nloc(x))
                bad = True
            else:
                undecided = und(fn, x, "std::%s in the stable variant: %s" % (x["callee"]["name"], "reached under a condition that is not a compile-time constant"
                                                                                  if own else "sorted range not identified"))
        for m, lv in merges:
            if lv == "dead":
                continue
            nm = m["callee"]["name"]
            sm = merge_stability(m)
            if sm is None:
                undecided = und(fn, m, "stability of %s not known" % nm)
            elif not sm and lv == "live":
                ck.violation("STABLE-PROPAGATE", fn.qname, tag + ":merge", "the stable variant merges the sorted chunks with the unstable %s" %
                             (nm + ("<%s>" % m["callee"]["targs"][0] if nm.endswith("_base") else "")), fn.nloc(m))
                bad = True
            elif not sm:
                undecided = und(fn, m, "unstable %s in the stable variant under a condition that is not a compile-time constant" % nm)
    if bad:
        return
    if undecided is not None:
        raise undecided
    ck.ok("STABLE-PROPAGATE", tag, "local sort %s, merge %s" % (names, [m["callee"]["name"] + "<" + ",".join(m["callee"].get("targs", [])[:2]) + ">"
                                                                          for m, lv in merges if lv != "dead"]))


def calls_reaching(tu, f, name, depth=0, seen=None):
    """calls of `name` in f and in the project functions / lambdas f hands control to"""
    seen = seen if seen is not None else set()
    if f is None or f.did in seen or depth > 4:
        return []
    seen.add(f.did)
    out = []
    for c in f.nodes():
        if "callee" in c and c["callee"]["name"] == name:
            out.append((f, c))
        elif "callee" in c and (c["callee"].get("qname") or "").startswith("tlx::") and c["k"] in ("CallExpr", "CXXMemberCallExpr"):
            cal = tu.by_did.get(c["callee"].get("did"))
            if cal is not None and cal.body is not None:
                out += calls_reaching(tu, cal, name, depth + 1, seen)
        if c["k"] == "LambdaExpr":
            out += calls_reaching(tu, tu.by_did.get(c.get("fn")), name, depth + 1, seen)
    return out


def is_int_ty(ty):
    return (ty or "").replace("const ", "").replace("volatile ", "").strip() in INT_TYPES


def check_fork_join(ck, tu, fn, tag):
    """FORK-JOIN / INDEX-BY-COPY.  slot[i] = std::thread(lambda) and slot[j].join() (or `for (std::thread& t : slots) t.join()`):
    the loops that hold the two statements are evaluated on the integer skeleton for 1..4 threads and the started slots are
    compared with the joined ones, in the order of the events (a slot joined before it is started is the `order` finding).
    The thread count is whatever integer the loops read and do not change (one symbol; it must keep its value from the
    first loop - from the declaration of the container, if its size is read - to the end).  A variable that the spawn loop
    steps and the worker lambda reads through a by-reference capture is the INDEX-BY-COPY finding.  Every shape that is
    not read this way is Undecidable."""
    L = Locals(tu, fn)
    g = cfgm.CFG(fn)

    def through_refs(e):
        """the expression with reference locals replaced by what they are bound to (the object, not its value)"""
        e = strip_casts(e)
        for _ in range(8):
            v = L.decl.get(ref_of(e)) if e is not None else None
            if v is None or not is_ref_ty(v.get("ty")) or not kids(v) or kids(v)[0] is None:
                break
            e = strip_casts(kids(v)[0])
        return e

    def named(e):
        """declaration id of the object e names (looking through reference locals)"""
        return ref_of(through_refs(e)) if e is not None else None

    def lambdas_in(e):
        """lambda expressions that e runs: written in place, or a closure variable (a closure object cannot be reassigned)"""
        out = []
        for y in ir.walk(e):
            if y["k"] == "LambdaExpr":
                out.append(y)
            elif y["k"] == "DeclRefExpr" and y["ref"]["id"] in L.decl and kids(L.decl[y["ref"]["id"]]):
                i0 = strip_casts(kids(L.decl[y["ref"]["id"]])[0])
                if i0 is not None and i0["k"] == "LambdaExpr":
                    out.append(i0)
        return out
    spawns, seen = [], set()
    for x in fn.nodes():
        x0 = strip_casts(x)
        b = match.binop(x0, ("=",)) if x0 is not None and "callee" in x0 else None
        if b and x0["id"] not in seen and "thread" in (strip_casts(b[2]).get("ty") or "") and lambdas_in(b[2]):
            seen.add(x0["id"])
            spawns.append(x0)
    joins = [x for x in fn.nodes() if "callee" in x and x["callee"]["name"] == "join" and "thread" in (x["callee"].get("record") or "")]
    if len(spawns) != 1 or len(joins) != 1:
        raise dtable.Undecidable("%s: fork/join skeleton not recognised (%d spawns, %d joins)" % (fn.loc, len(spawns), len(joins)))
    sp, jn = spawns[0], joins[0]
    sip = match.index_parts(through_refs(match.binop(sp, ("=",))[1]))
    if not sip or named(sip[0]) is None:
        raise und(fn, sp, "the started thread is not stored in an element of a named container")
    tvec, idx = named(sip[0]), sip[1]
    lams = lambdas_in(match.binop(sp, ("=",))[2])
    lf = tu.by_did.get(lams[0].get("fn")) if len(lams) == 1 else None
    if lf is None:
        raise und(fn, sp, "worker of the started thread is not one lambda whose body is available")

    def ancestors(n):
        out, par = [], fn.parent(n)
        while par is not None:
            out.append(par)
            par = fn.parent(par)
        return out
    # ---- the joined slot: container[j] / the reference variable of a range-for over the container
    join_all, jobj = None, kids(jn)[0] if kids(jn) else None
    if jn.get("arrow") or jobj is None:
        raise und(fn, jn, "the joined thread is reached through a pointer / iterator")
    rfs = [a for a in ancestors(jn) if a["k"] == "CXXForRangeStmt"]
    if rfs and len(kids(rfs[0])) >= 3 and kids(rfs[0])[1] is not None and ref_of(jobj) is not None and kids(rfs[0])[1].get("did") == ref_of(jobj):
        rf = rfs[0]
        if not is_ref_ty(kids(rf)[1].get("ty")) or named(kids(rf)[0]) is None:
            raise und(fn, rf, "range-for that joins the threads: range / loop variable not understood")
        body = kids(rf)[2]
        inner = [a for a in ancestors(jn) if contains(body, a) or a is body]
        if any(a["k"] in LOOPS + ("IfStmt", "SwitchStmt", "ConditionalOperator", "CXXTryStmt", "CXXForRangeStmt") for a in inner) or \
                any(y["k"] in ("BreakStmt", "ContinueStmt", "ReturnStmt", "GotoStmt", "CXXThrowExpr") for y in ir.walk(body)):
            raise und(fn, rf, "the join inside the range-for is conditional / the loop may be left early")
        join_all, jvec, jidx = rf, named(kids(rf)[0]), None
    else:
        jip = match.index_parts(through_refs(jobj))
        if not jip or named(jip[0]) is None:
            raise und(fn, jn, "the joined thread is not an element of a named container")
        jvec, jidx = named(jip[0]), jip[1]
    params = {p["did"]: p for p in fn.params}
    bad = []
    if jvec != tvec:
        for d in (tvec, jvec):
            ty = (L.decl.get(d) or params.get(d) or {}).get("ty")
            if d not in L.decl or is_ref_ty(ty) or is_ptr_ty(ty):
                raise und(fn, jn, "the joined container may be another name of the one the threads are started in")
        bad.append(("range", "the threads that are started are not exactly the threads that are joined (they live in different containers)"))

    def outer_loop(n):
        ls = [a for a in ancestors(n) if a["k"] in LOOPS]
        return ls[-1] if ls else None
    ls = outer_loop(sp)
    lj = outer_loop(jn) if join_all is None else (join_all if ls is None or not contains(ls, join_all) else ls)
    if ls is None or lj is None:
        raise und(fn, sp if ls is None else jn, "threads are not started / joined in a loop")
    if [a for a in ancestors(ls) + ancestors(lj) if a["k"] == "CXXForRangeStmt"]:
        raise und(fn, ls, "spawn / join loop inside a range-for")
    loops = [ls] if ls is lj else [ls, lj]
    if len(loops) == 2:
        ps, pj = entry_pos(fn, g, ls), (entry_pos(fn, g, lj) if lj is not join_all else g.pos_deep(kids(join_all)[0]))
        if ps is None or pj is None:
            raise und(fn, ls if ps is None else lj, "spawn / join loop not found in the control-flow graph")
        if g.dominates(pj, ps):
            loops = [lj, ls]
        elif not g.dominates(ps, pj):
            raise und(fn, lj, "neither of the spawn loop and the join loop is passed on every path to the other: order not decided")

    def inside_loops(n):
        return any(contains(lp, n) for lp in loops)

    def modified_in_loops(d):
        return any(inside_loops(w) for w in L.writes.get(d, []))
    # ---- size of the container: the argument of its constructor, if nothing but element access is done to it
    size_used = []

    def container_size(sk, at):
        v = L.decl.get(tvec)
        ty = (v or {}).get("ty") or ""
        init = strip_casts(kids(v)[0]) if v is not None and kids(v) else None
        args = [a for a in kids(init) if a is not None and a["k"] != "DefaultArg"] if init is not None and init["k"] == "CXXConstructExpr" else None
        if v is None or is_ref_ty(ty) or is_ptr_ty(ty) or not ty.replace("const ", "").startswith(("tlx::SimpleVector<", "std::vector<")) or \
                args is None or len(args) != 1 or not is_int_ty(strip_casts(args[0]).get("ty")):
            raise und(fn, at, "size of the thread container not understood")
        for m in fn.nodes():
            if "callee" in m and m.get("member_call") and kids(m) and named(kids(m)[0]) == tvec and \
                    m["callee"]["name"] not in ("size", "operator[]", "at", "begin", "end", "data", "empty"):
                raise und(fn, m, "%s() on the thread container: its size is not understood" % m["callee"]["name"])
        if tvec in L.writes or tvec in L.exposed:
            raise und(fn, at, "the thread container is assigned / handed out: its size is not understood")
        size_used.append(v)
        return sk.ev(args[0])
    syms = {}
    detail = None
    for T in ((1, 2, 3, 4) if not bad else ()):
        started, joined, early = [], [], []

        def event(e, sk):
            if e["id"] == sp["id"]:
                v = sk.ev(idx)
                if not isinstance(v, int) or isinstance(v, bool):
                    raise und(fn, sp, "slot of the started thread depends on data")
                started.append(v)
                return None
            if e["id"] == jn["id"]:
                v = sk.ev(jidx)
                if not isinstance(v, int) or isinstance(v, bool):
                    raise und(fn, jn, "slot of the joined thread depends on data")
                if v not in started:
                    early.append(v)
                joined.append(v)
                return None
            if "callee" in e and e.get("member_call") and e["callee"]["name"] == "size" and len(kids(e)) == 1 and named(kids(e)[0]) == tvec:
                return container_size(sk, e)
            return NotImplemented

        def unknown(e, sk):
            e0 = strip_casts(e)
            if e0 is None or e0["k"] != "DeclRefExpr":
                return None
            d = e0["ref"]["id"]
            v = L.decl.get(d)
            if v is not None and not is_ref_ty(v.get("ty")) and L.frozen(d) and not inside_loops(v):
                if not any(v is a for a in size_used):
                    size_used.append(v)          # the thread count is read where this local is declared
                return sk.ev(kids(v)[0])
            ty = (v or params.get(d) or {}).get("ty")
            if (v is not None or d in params) and is_int_ty(ty) and not modified_in_loops(d) and not (v is not None and inside_loops(v)):
                syms[d] = e0["ref"]["name"]
                return T
            return None
        sk = skel.Skel(fn, {}, unknown, event, tu=tu)
        # a counter declared outside the loops and changed only inside them has its initial value at the head of the first
        # loop (and, at the head of the second one, the value the first one left)
        for d, v in L.decl.items():
            ws = L.writes.get(d, [])
            if ws and not inside_loops(v) and all(inside_loops(w) for w in ws) and d not in L.exposed and kids(v) and kids(v)[0] is not None \
                    and not is_ref_ty(v.get("ty")):
                sk.env[d] = sk.ev(kids(v)[0])
        for loop in loops:
            if loop is join_all:
                n = container_size(sk, join_all)
                if not isinstance(n, int) or isinstance(n, bool) or n < 0:
                    raise und(fn, join_all, "size of the thread container not understood")
                early += [v for v in range(n) if v not in started]
                joined.extend(range(n))
                continue
            try:
                sk.stmt(loop)
            except skel.Return:
                raise und(fn, loop, "return inside the spawn / join loop")
            except dtable.Undecidable as ex:
                raise dtable.Undecidable(str(ex).replace(fn.full, fn.loc))
        if len(syms) > 1:
            raise dtable.Undecidable("%s: the spawn and the join loop are bounded by different variables (%s): whether they are equal is not decided"
                                     % (fn.loc, ", ".join(sorted(syms.values()))))
        sym = next(iter(syms.values()), "the bound")
        if sorted(started) != sorted(joined) or len(set(started)) != len(started):
            bad.append(("range", "the threads that are started are not exactly the threads that are joined"))
            detail = "with %s = %d: started %s, joined %s" % (sym, T, sorted(started), sorted(joined))
            break
        if early:
            bad.append(("order", "threads are joined before all of them were started"))
            detail = "with %s = %d: slot %d is joined before it is started" % (sym, T, early[0])
            break
    # the thread count must mean the same wherever it was read
    anchors = [g.pos_deep(a) for a in size_used] + [entry_pos(fn, g, loops[0]) if loops[0] is not join_all else g.pos_deep(kids(join_all)[0])]
    for d in syms:
        if d in L.exposed and not is_const_ty((L.decl.get(d) or params.get(d) or {}).get("ty")):
            raise und(fn, loops[0], "%s (the thread count) may change through a reference / pointer" % syms[d])
        for m in L.writes.get(d, []):
            pm = g.pos_deep(m)
            if pm is None or any(a is None or g.reachable(a, pm) for a in anchors):
                raise und(fn, m, "%s (the thread count) changes after the threads were started / the container was sized" % syms[d])
    # ---- the worker's view of the loop variables
    variant = {d for d in list(L.decl) + list(params) if any(contains(ls, w) for w in L.writes.get(d, []))}
    used = {y["ref"]["id"] for y in lf.nodes() if y["k"] == "DeclRefExpr"}
    caps = lams[0].get("captures", [])
    byref = [c for c in caps if c.get("byref") and c.get("id") in variant and c.get("id") in used]
    if byref and ls is lj:
        raise und(fn, sp, "%s is captured by reference and stepped by the loop that also joins the thread: whether the thread still runs when it is stepped is not decided"
                  % byref[0].get("name"))
    if byref:
        bad.append(("index-capture", "the loop index is captured by reference: the thread reads it after the loop has advanced"))
    for sig, msg in bad:
        ck.violation("FORK-JOIN" if sig != "index-capture" else "INDEX-BY-COPY", fn.qname, "%s:%s" % (tag, sig),
                     msg + (" (%s)" % detail if detail and sig != "index-capture" else ""), fn.nloc(sp))
    if not bad:
        ck.ok("FORK-JOIN", tag, "threads[i] started for i in [0, %s) and all joined before the result is used" % next(iter(syms.values()), "n"))
        ck.ok("INDEX-BY-COPY", tag, "worker lambda captures the loop index by copy")
    return lf


def check_worker_variant(ck, tu, fn, tag):
    lam_calls = []
    for x in fn.nodes():
        if x["k"] == "LambdaExpr":
            lam_calls += [c for _, c in calls_reaching(tu, tu.by_did.get(x.get("fn")), "parallel_sort_mwms_pu")]
    if not lam_calls:
        raise dtable.Undecidable("%s: no call of parallel_sort_mwms_pu found in the worker lambdas" % fn.loc)
    wrong = [c for c in lam_calls if (c["callee"].get("targs") or [None])[0] != fn.targs[0]]
    if wrong and (wrong[0]["callee"].get("targs") or [None])[0] not in ("true", "false"):
        raise und(fn, wrong[0], "Stable flag of the worker call not read")
    if not wrong:
        ck.ok("STABLE-PROPAGATE", tag, "workers run parallel_sort_mwms_pu<%s>" % fn.targs[0], nontrivial=False)
    else:
        ck.violation("STABLE-PROPAGATE", fn.qname, tag + ":worker", "workers do not run the variant with the same Stable flag", fn.loc)


def check_front(ck, tu, q, st):
    fn = tu.one(qname=q)
    L = Locals(tu, fn)
    c = [x for _, x in calls_reaching(tu, fn, "parallel_mergesort_base") if _ is fn]
    if len(c) != 1:
        raise dtable.Undecidable("%s: %d direct calls of parallel_mergesort_base in %s" % (fn.loc, len(c), q))
    c = c[0]
    flag = (c["callee"].get("targs") or [None])[0]
    if flag not in ("true", "false"):
        raise und(fn, c, "Stable flag of the call not read")
    pdids = [p["did"] for p in fn.params]

    def arg_param(a):
        a = L.resolve(match.strip_conv(a))
        for _ in range(4):
            if a is not None and std_call(a, ("move", "forward")) and kids(a):
                a = L.resolve(match.strip_conv(kids(a)[0]))
        return ref_of(a)
    args = [arg_param(a) for a in kids(c)]
    swapped = [i for i, d in enumerate(args) if d in pdids and i < len(pdids) and d != pdids[i]]
    if flag != st or swapped:
        ck.violation("STABLE-PROPAGATE", q, "front", "%s must call parallel_mergesort_base<%s> with its parameters" % (q, st), fn.loc)
    elif args != pdids:
        raise und(fn, c, "arguments of parallel_mergesort_base are not the parameters of %s one by one" % q)
    else:
        ck.ok("STABLE-PROPAGATE", q, "-> parallel_mergesort_base<%s>, parameters forwarded" % st, nontrivial=False)


# ------------------------------------------------------------------------------------------------ split positions
def check_equally_split(ck, tu):
    """SPLIT-INDEX-BOUND: equally_split() is pure integer code; it is evaluated for n = 1..12, p = 1..6: the p + 1 positions
    written are 0, ..., n with the interior ones equal to the even split clamped to n - 1 (determine_samples() uses them as
    element indices)"""
    for fn in tu.some(qname="tlx::multiway_merge_detail::equally_split"):
        ck.require(len(fn.params) == 3, "%s: equally_split(n, p, s) expected" % fn.loc)
        BASE_ = 1000
        bad = None
        for n in range(1, 13):
            for p in range(1, 7):
                sk = skel.Skel(fn, {fn.params[0]["did"]: n, fn.params[1]["did"]: p, fn.params[2]["did"]: BASE_}, None, None, max_iter=32)
                try:
                    sk.run(kids(fn.body))
                    ret = None
                except skel.Return as r_:
                    ret = r_.v
                got = [sk.env.get(("mem", BASE_ + i)) for i in range(p + 1)]
                extra = [k_ for k_ in sk.env if isinstance(k_, tuple) and k_[0] == "mem" and not (BASE_ <= k_[1] <= BASE_ + p)]
                if any(not isinstance(v, int) or isinstance(v, bool) for v in got) or not isinstance(ret, int) or \
                        any(not isinstance(sk.env[k_], int) for k_ in extra):
                    raise dtable.Undecidable("%s: equally_split(n = %d, p = %d) not evaluated on the integer skeleton (positions %s, returns %s)" % (fn.loc, n, p, got, ret))
                want = [min(i * (n // p) + min(i, n % p), n - 1) for i in range(p)] + [n]
                if (got != want or extra or ret != BASE_ + p + 1) and bad is None:
                    bad = (n, p, got, want, ret, extra)
        if bad:
            n, p, got, want, ret, extra = bad
            over = [v for v in got[:-1] if isinstance(v, int) and v >= n]
            ck.violation("SPLIT-INDEX-BOUND", fn.qname, "clamp",
                         ("interior split positions can reach n (n = %d, p = %d gives %s): determine_samples() reads source[start + split], one past the thread's chunk"
                          % (n, p, got)) if over else
                         "equally_split(n = %d, p = %d) writes %s%s, the even split clamped to n - 1 is %s" % (n, p, got, " and positions outside [s, s + p]" if extra else "", want),
                         fn.loc)
        else:
            ck.ok("SPLIT-INDEX-BOUND", "equally_split<%s>" % fn.targs[0], "n = 1..12, p = 1..6: positions 0 .. n, interior ones the even split clamped to n - 1")
    for fn in tu.some(qname="tlx::parallel_mergesort_detail::determine_samples"):
        check_sample_reads(ck, fn)


def check_sample_reads(ck, fn):
    """determine_samples() is evaluated on its integer skeleton (every free integer = 2): the split positions it reads as
    element indices are es[0 .. p - 1] of the p + 1 positions equally_split() wrote; es[p] holds n, one past the chunk"""
    state = {"p": None, "es": None, "reads": []}

    def unknown(e, sk):
        e0 = strip_casts(e)
        ty = (e0.get("ty") or "").replace("const ", "").strip() if e0 is not None else ""
        if e0 is not None and e0["k"] == "DeclRefExpr" and ty in ("unsigned long", "long", "int", "unsigned int", "size_t", "unsigned long long", "long long"):
            return 2
        return None

    def event(e, sk):
        if "callee" in e and e["callee"]["name"] == "equally_split":
            args = [a for a in kids(e) if a is not None]
            if len(args) != 3 or state["p"] is not None:
                raise und(fn, e, "call of equally_split not understood")
            state["p"] = sk.ev(args[1])
            a2 = match.strip_conv(args[2])
            b = match.call_named(a2, ("begin", "data"))
            state["es"] = ref_of(kids(b)[0]) if b is not None and kids(b) else (ref_of(a2) if a2 is not None else None)
            if state["es"] is None and a2 is not None and a2["k"] == "UnaryOperator" and a2.get("op") == "&":
                ip = match.index_parts(kids(a2)[0])
                state["es"] = ref_of(ip[0]) if ip and const_int(ip[1]) == 0 else None
            return None
        if state["es"] is not None and e["k"] in ("ArraySubscriptExpr", "CXXOperatorCallExpr", "CXXMemberCallExpr"):
            ip = match.index_parts(e)
            if ip and ref_of(ip[0]) == state["es"]:
                state["reads"].append((sk.ev(ip[1]), e))
                return None
        if state["es"] is not None and e["k"] == "DeclRefExpr" and e["ref"]["id"] == state["es"]:
            par = fn.parent(e)
            while par is not None and par["k"] in ("ImplicitCastExpr",):
                par = fn.parent(par)
            ip = match.index_parts(par) if par is not None else None
            if not (ip and ref_of(ip[0]) == state["es"]) and not (par is not None and "callee" in par and par["callee"]["name"] == "equally_split") \
                    and not (par is not None and "callee" in par and par["callee"]["name"] in ("begin", "data") and "callee" in (fn.parent(par) or {}) and
                             fn.parent(par)["callee"]["name"] == "equally_split"):
                raise und(fn, e, "the split positions are read in a way that is not understood")
        return NotImplemented
    sk = skel.Skel(fn, {}, unknown, event, max_iter=32)
    try:
        sk.run(kids(fn.body))
    except skel.Return:
        pass
    p = state["p"]
    if not isinstance(p, int) or state["es"] is None:
        raise dtable.Undecidable("%s: call of equally_split / its output range not found" % fn.loc)
    if not state["reads"]:
        raise dtable.Undecidable("%s: no read of the split positions found" % fn.loc)
    if any(not isinstance(k_, int) for k_, _ in state["reads"]):
        raise und(fn, [e for k_, e in state["reads"] if not isinstance(k_, int)][0], "index of a split position not evaluated")
    over = [(k_, e) for k_, e in state["reads"] if k_ >= p or k_ < 0]
    if over:
        ck.violation("SPLIT-INDEX-BOUND", fn.qname, "index", "determine_samples does not read the interior split positions: with %d parts it reads position %d "
                     "(the end of the chunk) as an element index" % (p, over[0][0]), fn.nloc(over[0][1]))
    else:
        ks = sorted(set(k_ for k_, _ in state["reads"]))
        ck.ok("SPLIT-INDEX-BOUND", "determine_samples", "reads split positions %s of 0..%d as element indices, never the end position" % (ks, p), nontrivial=False)


# ------------------------------------------------------------------------------------------------ driver
def run(ck):
    ck.explanation = (
        "Sortedness / permutation depend on values and on C05, C08. Decided here: TEMP-DESTROY (every element copy-constructed into the raw "
        "temporary buffer is destroyed on every path before operator delete - found and fixed), BARRIER-PHASES (a thread's writes to its own "
        "slot of temporary[] / pieces[][] and other threads' reads of that slot are separated by a barrier, and the buffer is released only after "
        "a barrier following the merge), BARRIER-BALANCE (no barrier under a thread-dependent condition), FORK-JOIN / INDEX-BY-COPY, "
        "STABLE-PROPAGATE (stable entry point -> stable_sort and stable merge), SPLIT-INDEX-BOUND (the split positions used as sample indices stay "
        "inside the chunk).")
    types = ["std::string"] if ck.tier == "quick" else ["std::string", "int"]
    for t in types:
        tu = ir.extract("witness/C06_parallel_mergesort.cpp", defines=["WITNESS_T=" + t])
        for fn in tu.some(qname=PU):
            tag = "parallel_sort_mwms_pu<%s>" % fn.targs[0]
            ctx = {}

            def prepare(fn=fn, ctx=ctx):
                ctx["R"] = Roles(tu, fn)
                ctx["g"] = cfgm.CFG(fn)
                ctx["life"] = Life(ctx["R"], ctx["g"])
                ctx["waits"] = None
            ck.guarded(prepare)
            if "life" not in ctx:
                continue
            ctx["free"] = ctx["life"].dels + ctx["life"].dtor_ops

            def temp(fn=fn, tag=tag, ctx=ctx):
                ctx["free"] = check_temp_destroy(ck, tu, fn, tag, ctx["R"], ctx["life"])
            ck.guarded(temp)

            def waits(fn=fn, ctx=ctx):
                ctx["waits"] = barrier_waits(fn, ctx["R"])
                ck.require(len(ctx["waits"]) >= 3, "%s: barrier waits not found" % fn.loc)
            ck.guarded(waits)
            if ctx["waits"] is not None:
                ck.guarded(lambda fn=fn, tag=tag, ctx=ctx: check_barrier_balance(ck, fn, tag, ctx["R"], ctx["waits"]))
                ck.guarded(lambda fn=fn, tag=tag, ctx=ctx: check_barrier_phases(ck, tu, fn, tag, ctx["R"], ctx["g"], ctx["waits"], ctx["free"]))
            ck.guarded(lambda fn=fn, tag=tag, ctx=ctx: check_stable(ck, tu, fn, tag, ctx["R"], ctx["life"]))
        for fn in tu.some(qname=BASE):
            tag = "parallel_mergesort_base<%s>" % fn.targs[0]
            ck.guarded(lambda fn=fn, tag=tag: check_fork_join(ck, tu, fn, tag))
            ck.guarded(lambda fn=fn, tag=tag: check_worker_variant(ck, tu, fn, tag))
        for q, st in (("tlx::parallel_mergesort", "false"), ("tlx::stable_parallel_mergesort", "true")):
            ck.guarded(lambda q=q, st=st: check_front(ck, tu, q, st))
        ck.guarded(lambda: check_equally_split(ck, tu))
        from rules import c09
        from rules.parcommon import check_comp_threaded_all
        nct = check_comp_threaded_all(ck, tu, ("tlx::parallel_mergesort_detail::", "tlx::multiway_merge_detail::", "tlx::parallel_"))
        ck.require(nct >= 2, "no standard ordering algorithm found below the expected namespaces")
        # exact splitting stands on multisequence_partition: the C08 rules for the instantiation this translation unit holds.
        # Guarded: a construct those rules cannot read is deferred (exit 2) and does not hide what the rules above found.
        def partition(tu=tu):
            from rules import c08
            ck.require(c08.check_partition_in(ck, tu) >= 1, "exact splitting must reach multisequence_partition")
        ck.guarded(partition)
        nt = c09.check_trees_in(ck, tu)
        ck.require(nt >= 4, "the k >= 5 merge of the sorted runs uses loser trees; expected 4 instantiated classes, found %d" % nt)
    m = len(types)
    ck.floor("TEMP-DESTROY", 2 * m)
    ck.floor("BARRIER-PHASES", 2 * m)
    ck.floor("BARRIER-BALANCE", 2 * m)
    ck.floor("FORK-JOIN", 2 * m)
    ck.floor("STABLE-PROPAGATE", 6 * m)
    ck.floor("SPLIT-INDEX-BOUND", 2 * m)
