"""C06 — parallel mergesort: temporaries destroyed, barrier phases / balance, fork/join,
Stable propagation, sample index bound (equally_split clamp)."""
from engine import ir, dtable, match, cfg as cfgm
from engine.ir import kids, strip_casts, const_int, ref_of
from rules.parcommon import check_fork_join

PU = "tlx::parallel_mergesort_detail::parallel_sort_mwms_pu"
BASE = "tlx::parallel_mergesort_base"


def slot_index(e, field):
    """index expression X if e is sd->field[X] (any depth of further indexing below)"""
    e = strip_casts(e)
    p = match.index_parts(e)
    while p:
        f = match.field_of(p[0])
        if f and f[1] == field and ir.ref_name(f[0]) == "sd":
            return p[1]
        e = strip_casts(p[0])
        p = match.index_parts(e)
    return None


def check_temp_destroy(ck, fn, tag):
    g = cfgm.CFG(fn)
    news = [x for x in fn.nodes() if "callee" in x and x["callee"]["name"] == "operator new" and x["k"] == "CallExpr"]
    dels = [x for x in fn.nodes() if "callee" in x and x["callee"]["name"] == "operator delete" and x["k"] == "CallExpr"]
    constructs = [x for x in fn.nodes() if "callee" in x and x["callee"]["name"] in ("uninitialized_copy", "uninitialized_copy_n", "uninitialized_move", "uninitialized_fill")]
    ck.require(len(news) == 1 and len(dels) == 1 and len(constructs) == 1, "%s: raw buffer life cycle not recognised" % fn.loc)
    buf = slot_index(kids(dels[0])[0], "temporary")
    ck.require(buf is not None and ir.ref_name(buf) == "iam", "%s: released buffer is not temporary[iam]" % fn.loc)
    # number of constructed elements
    src_b, src_e = kids(constructs[0])[0], kids(constructs[0])[1]
    # destruction: explicit destructor loop over [0, length) on temporary[iam], or std::destroy / destroy_n
    destroyed = None
    for x in fn.nodes():
        if "callee" in x and x["callee"]["name"] in ("destroy", "destroy_n") and "std" in x["callee"]["qname"]:
            if slot_index(kids(x)[0], "temporary") is not None:
                destroyed = (x, None)
        if x["k"] in ("ForStmt", "WhileStmt"):
            init, cond, inc, body = match.loop_parts(x)
            for y in ir.walk(body):
                isd = (("callee" in y and y["callee"]["name"].startswith("~")) or y["k"] == "CXXPseudoDestructorExpr") and kids(y)
                if isd:
                    tgt = kids(y)[0] if y["k"] != "CXXPseudoDestructorExpr" else kids(y)[0]
                    if slot_index(tgt, "temporary") is not None:
                        b = match.binop(cond, ("<", "!="))
                        var = [z["did"] for z in ir.walk(init) if z["k"] == "VarDecl" and kids(z) and const_int(kids(z)[0]) == 0]
                        if b and var and ref_of(b[1]) == var[0]:
                            destroyed = (x, b[2])
    T = (fn.rtargs or fn.targs)
    trivially = False
    if destroyed is None:
        ck.violation("TEMP-DESTROY", fn.qname, tag, "elements are copy-constructed into a raw buffer (uninitialized_copy) but the buffer is released with operator delete "
                     "without destroying them: every temporary copy leaks its resources", fn.nloc(dels[0]))
        return
    x, bound = destroyed
    # bound must be the number of constructed elements: length_local
    okb = True
    if bound is not None:
        ln = [y for y in ir.walk(src_e) if y["k"] == "DeclRefExpr" and y["ref"]["kind"] == "local"]
        okb = bool(ln) and ref_of(bound) == ln[-1]["ref"]["id"]
    pd, px = g.pos(dels[0]), g.pos_deep(x)
    if not okb:
        ck.violation("TEMP-DESTROY", fn.qname, tag + ":count", "the number of destroyed temporaries differs from the number constructed", fn.nloc(x))
    elif not (px and pd and g.dominates(px, pd)):
        ck.violation("TEMP-DESTROY", fn.qname, tag + ":path", "the temporaries are not destroyed on every path to operator delete", fn.nloc(dels[0]))
    else:
        ck.ok("TEMP-DESTROY", tag, "every element constructed into temporary[iam] is destroyed before operator delete")
    return dels[0], x


def check_barriers(ck, fn, tag, free_nodes):
    g = cfgm.CFG(fn)
    waits = [x for x in fn.nodes() if "callee" in x and x["callee"]["name"] in ("wait", "wait_yield") and x.get("member_call") and ir.ref_name(kids(x)[0]) == "barrier"]
    ck.require(len(waits) >= 3, "%s: barrier waits not found" % fn.loc)
    # ---- BARRIER-BALANCE: no wait under a thread-dependent condition
    bad = False
    for w in waits:
        par = fn.parent(w)
        while par is not None:
            if par["k"] in ("IfStmt", "ForStmt", "WhileStmt"):
                c = kids(par)[0] if par["k"] != "ForStmt" else kids(par)[1]
                names = set(ir.ref_name(y) for y in ir.walk(c) if y["k"] == "DeclRefExpr") if c is not None else set()
                if "iam" in names or par["k"] != "IfStmt":
                    ck.violation("BARRIER-BALANCE", fn.qname, "%s:%s" % (tag, fn.nloc(w)), "barrier.wait() depends on %s: threads cross a different number of barriers (deadlock)"
                                 % ("the thread index" if "iam" in names else "a loop"), fn.nloc(w))
                    bad = True
            par = fn.parent(par)
    if not bad:
        ck.ok("BARRIER-BALANCE", tag, "%d barrier waits, none under a thread-dependent condition or in a loop" % len(waits))
    # ---- BARRIER-PHASES: own-slot write -> barrier -> cross-slot read ; cross reads -> barrier -> release
    def accesses(field):
        out = []
        for x in fn.nodes():
            if x["k"] not in ("ArraySubscriptExpr", "CXXOperatorCallExpr"):
                continue
            p = match.index_parts(x)
            if not p:
                continue
            f = match.field_of(p[0])
            if f and f[1] == field and ir.ref_name(f[0]) == "sd":
                idx = strip_casts(p[1])
                names = set(ir.ref_name(y) for y in ir.walk(idx) if y["k"] == "DeclRefExpr")
                own = names == {"iam"} and not match.binop(idx, ("-", "+"))
                if field == "samples":
                    own = "iam" in names and not any(n in names for n in ("s", "seq"))
                # written?
                node, par = x, fn.parent(x)
                written = False
                while par is not None and par["k"] in ("MemberExpr", "ArraySubscriptExpr", "CXXOperatorCallExpr", "ImplicitCastExpr") and par.get("op") != "=":
                    node, par = par, fn.parent(par)
                if par is not None:
                    b = match.binop(par, ("=",))
                    if b and (strip_casts(b[1]) is node or any(y is x for y in ir.walk(b[1]))):
                        written = True
                member = node.get("member") if node.get("k") == "MemberExpr" else None
                # node is the outermost lvalue; find the member directly selected on the slot element
                mm = None
                q = fn.parent(x)
                while q is not None and q["k"] in ("ArraySubscriptExpr", "CXXOperatorCallExpr", "ImplicitCastExpr"):
                    q = fn.parent(q)
                if q is not None and q["k"] == "MemberExpr":
                    mm = q.get("member")
                out.append((x, own, written, dtable.describe(idx), mm))
        return out
    viol = False
    for field in ("temporary", "pieces"):
        acc = accesses(field)
        writes_own = [a for a in acc if a[1] and a[2]]
        cross = [a for a in acc if not a[1]]
        blocked = []
        for top in kids(fn.body):
            if top["k"] == "IfStmt":
                vals, node, lastif = set(), top, None
                while node is not None and node["k"] == "IfStmt":
                    b = match.binop(kids(node)[0], ("==",))
                    if b and ir.ref_name(b[1]) == "mwmsa" and const_int(b[2]) is not None:
                        vals.add(const_int(b[2]))
                    lastif = node
                    node = kids(node)[2]
                if node is None and vals >= {0, 1} and lastif is not None:
                    e = g.false_edge_of(lastif["id"])
                    if e:
                        blocked.append(e)          # no valid splitting algorithm takes this edge
        # in the sampling branch pieces[iam][s] is only ever own; cross = index not exactly iam
        for (x, own, wr, idx, mem) in cross:
            px = g.pos_deep(x)
            ws = [w for w in waits if g.pos(w) and g.dominates(g.pos(w), px)]
            if not ws:
                ws = chain_waits(fn, g, waits, x)
            if not ws:
                ck.violation("BARRIER-PHASES", fn.qname, "%s:%s[%s]" % (tag, field, idx), "sd->%s[%s] (another thread's slot) is accessed without a preceding barrier" % (field, idx), fn.nloc(x))
                viol = True
                continue
            # every own write of this field that can reach x must be separated from it by a barrier
            for (y, _, _, _, ymem) in writes_own:
                if mem is not None and ymem is not None and mem != ymem:
                    continue
                py = g.pos_deep(y)
                if py and g.path_between_avoiding(py, px, [g.pos(w) for w in waits if g.pos(w)], blocked) is not None:
                    if True:
                        ck.violation("BARRIER-PHASES", fn.qname, "%s:%s[%s]:write" % (tag, field, idx), "a thread's own write to sd->%s and another thread's read of that slot are not separated by a barrier" % field, fn.nloc(x))
                        viol = True
        if field == "temporary":
            # release after the last cross read: a barrier between
            for fnode in free_nodes:
                if fnode is None:
                    continue
                pf = g.pos_deep(fnode)
                for (x, own, wr, idx, mem) in cross:
                    px = g.pos_deep(x)
                    if not any(g.pos(w) and g.dominates(px, g.pos(w)) is not None and g.dominates(g.pos(w), pf) and not g.dominates(g.pos(w), px) for w in waits):
                        ck.violation("BARRIER-PHASES", fn.qname, "%s:release" % tag, "temporary[iam] is destroyed / released while other threads may still read it (no barrier after the merge)", fn.nloc(fnode))
                        viol = True
                        break
    # the merge itself reads all temporaries: the final barrier must lie between the merge call and the release
    merges = [x for x in fn.nodes() if "callee" in x and x["callee"]["name"] in ("multiway_merge_base", "multiway_merge", "stable_multiway_merge")]
    for fnode in free_nodes:
        if fnode is None or not merges:
            continue
        pm, pf = g.pos(merges[0]), g.pos_deep(fnode)
        if not any(g.pos(w) and g.dominates(pm, g.pos(w)) and g.dominates(g.pos(w), pf) for w in waits):
            ck.violation("BARRIER-PHASES", fn.qname, "%s:release-after-merge" % tag, "a thread destroys / frees its temporary buffer without waiting for the other threads' merges to finish", fn.nloc(fnode))
            viol = True
    if not viol:
        ck.ok("BARRIER-PHASES", tag, "own-slot writes -> barrier -> cross-slot reads -> barrier -> release, for temporary[] and pieces[][]")


def chain_waits(fn, g, waits, x):
    """x is preceded by an if / else-if chain over the splitting algorithm whose every branch waits unconditionally and which
    covers all valid enumerators (MWMSA_SAMPLING, MWMSA_EXACT): the waits of the branches act as one barrier before x"""
    px = g.pos_deep(x)
    for top in kids(fn.body):
        if top["k"] != "IfStmt":
            continue
        pt = g.pos_deep(kids(top)[0])
        if not (pt and g.dominates(pt, px)) or any(y is x for y in ir.walk(top)):
            continue
        vals, branch_waits, node = set(), [], top
        okc = True
        while node is not None and node["k"] == "IfStmt":
            b = match.binop(kids(node)[0], ("==",))
            if not (b and ir.ref_name(b[1]) == "mwmsa" and const_int(b[2]) is not None):
                okc = False
                break
            vals.add(const_int(b[2]))
            direct = [w for w in waits if any(c is w or (c["k"] not in ("IfStmt", "ForStmt", "WhileStmt") and any(y is w for y in ir.walk(c))) for c in kids(kids(node)[1]) if c)]
            if not direct:
                okc = False
                break
            branch_waits += direct
            node = kids(node)[2]
        if okc and node is None and vals >= {0, 1}:
            return branch_waits
    return []


def check_stable(ck, tu, fn, tag):
    st = fn.targs[0]
    sorts = [x for x in fn.nodes() if "callee" in x and x["callee"]["name"] in ("sort", "stable_sort") and "std" in x["callee"]["qname"] and
             any(slot_index(a, "temporary") is not None for a in kids(x)[:1])]
    live = []
    for x in sorts:
        par = fn.parent(x)
        n = x
        dead = False
        while par is not None:
            if par["k"] == "IfStmt" and const_int(kids(par)[0]) is not None:
                in_then = kids(par)[1] is not None and any(y is n for y in ir.walk(kids(par)[1]))
                if in_then != bool(const_int(kids(par)[0])):
                    dead = True
            n, par = par, fn.parent(par)
        if not dead:
            live.append(x["callee"]["name"])
    merges = [x for x in fn.nodes() if "callee" in x and x["k"] == "CallExpr" and x["callee"]["name"] in ("multiway_merge_base", "multiway_merge", "stable_multiway_merge",
                                                                                                 "multiway_merge_sentinels", "stable_multiway_merge_sentinels")]
    bad = False
    if st == "true":
        if live != ["stable_sort"]:
            ck.violation("STABLE-PROPAGATE", fn.qname, tag + ":local-sort", "the stable variant sorts its chunk with %s" % live, fn.loc)
            bad = True
        for m in merges:
            nm = m["callee"]["name"]
            stable_merge = (nm == "multiway_merge_base" and m["callee"]["targs"][0] == "true") or nm.startswith("stable_")
            if not stable_merge:
                ck.violation("STABLE-PROPAGATE", fn.qname, tag + ":merge", "the stable variant merges the sorted chunks with the unstable %s" %
                             (nm + ("<%s>" % m["callee"]["targs"][0] if nm == "multiway_merge_base" else "")), fn.nloc(m))
                bad = True
    if not merges:
        raise dtable.Undecidable("%s: merge step not found" % fn.loc)
    if not bad:
        ck.ok("STABLE-PROPAGATE", tag, "local sort %s, merge %s" % (live, [m["callee"]["name"] + "<" + ",".join(m["callee"].get("targs", [])[:2]) + ">" for m in merges]))


def check_equally_split(ck, tu):
    """SPLIT-INDEX-BOUND: equally_split() is pure integer code; it is evaluated for n = 1..12, p = 1..6: the p + 1 positions
    written are 0, ..., n with the interior ones equal to the even split clamped to n - 1 (determine_samples() uses them as
    element indices)"""
    from engine import skel
    for fn in tu.some(qname="tlx::multiway_merge_detail::equally_split"):
        BASE = 1000
        bad = None
        for n in range(1, 13):
            for p in range(1, 7):
                sk = skel.Skel(fn, {fn.params[0]["did"]: n, fn.params[1]["did"]: p, fn.params[2]["did"]: BASE}, None, None, max_iter=32)
                try:
                    sk.run(kids(fn.body))
                    ret = None
                except skel.Return as r_:
                    ret = r_.v
                got = [sk.env.get(("mem", BASE + i)) for i in range(p + 1)]
                extra = [k_ for k_ in sk.env if isinstance(k_, tuple) and k_[0] == "mem" and not (BASE <= k_[1] <= BASE + p)]
                want = [min(i * (n // p) + min(i, n % p), n - 1) for i in range(p)] + [n]
                if (got != want or extra or ret != BASE + p + 1) and bad is None:
                    bad = (n, p, got, want, ret, extra)
        if bad:
            n, p, got, want, ret, extra = bad
            over = [v for v in got[:-1] if isinstance(v, int) and v >= n]
            ck.violation("SPLIT-INDEX-BOUND", fn.qname, "clamp",
                         ("interior split positions can reach n (n = %d, p = %d gives %s): determine_samples() reads source[start + split], one past the thread's chunk"
                          % (n, p, got)) if over else
                         "equally_split(n = %d, p = %d) writes %s%s, the even split clamped to n - 1 is %s" % (n, p, got, " and positions outside [s, s + p]" if extra else "", want),
                         fn.loc)
        else:
            ck.ok("SPLIT-INDEX-BOUND", "equally_split<%s>" % fn.targs[0], "n = 1..12, p = 1..6: positions 0 .. n, interior ones the even split clamped to n - 1")
    for fn in tu.some(qname="tlx::parallel_mergesort_detail::determine_samples"):
        # the samples read es[i + 1] for i < num_samples, i.e. interior positions only
        rd = [x for x in fn.nodes() if match.index_parts(x) and ir.ref_name(match.index_parts(x)[0]) == "es" and x["k"] in ("CXXOperatorCallExpr", "ArraySubscriptExpr")]
        okk = False
        for x in rd:
            b = match.binop(match.index_parts(x)[1], ("+",))
            if b and const_int(b[2]) == 1:
                okk = True
        if okk:
            ck.ok("SPLIT-INDEX-BOUND", "determine_samples", "reads interior split positions es[i + 1], i < num_samples", nontrivial=False)
        else:
            ck.violation("SPLIT-INDEX-BOUND", fn.qname, "index", "determine_samples does not read the interior split positions", fn.loc)


def run(ck):
    ck.explanation = (
        "Sortedness / permutation depend on values and on C05, C08. Decided here: TEMP-DESTROY (every element copy-constructed into the raw "
        "temporary buffer is destroyed on every path before operator delete - found and fixed), BARRIER-PHASES (a thread's writes to its own "
        "slot of temporary[] / pieces[][] and other threads' reads of that slot are separated by a barrier, and the buffer is released only after "
        "a barrier following the merge), BARRIER-BALANCE (no barrier under a thread-dependent condition), FORK-JOIN / INDEX-BY-COPY, "
        "STABLE-PROPAGATE (stable entry point -> stable_sort and stable merge), SPLIT-INDEX-BOUND (the split positions used as sample indices stay "
        "inside the chunk).")
    types = ["std::string"] if ck.tier == "quick" else ["std::string", "int"]
    for t in types:
        tu = ir.extract("witness/C06_parallel_mergesort.cpp", defines=["WITNESS_T=" + t])
        for fn in tu.some(qname=PU):
            tag = "parallel_sort_mwms_pu<%s>" % fn.targs[0]
            r = check_temp_destroy(ck, fn, tag)
            check_barriers(ck, fn, tag, list(r) if r else [None])
            check_stable(ck, tu, fn, tag)
        for fn in tu.some(qname=BASE):
            tag = "parallel_mergesort_base<%s>" % fn.targs[0]
            check_fork_join(ck, tu, fn, tag)
            pus = [c for c in tu.by_did.values() if False]
            lam_calls = []
            for x in fn.nodes():
                if x["k"] == "LambdaExpr":
                    lf = tu.by_did.get(x.get("fn"))
                    if lf:
                        lam_calls += [c for c in lf.nodes() if "callee" in c and c["callee"]["name"] == "parallel_sort_mwms_pu"]
            if lam_calls and all(c["callee"]["targs"][0] == fn.targs[0] for c in lam_calls):
                ck.ok("STABLE-PROPAGATE", tag, "workers run parallel_sort_mwms_pu<%s>" % fn.targs[0], nontrivial=False)
            else:
                ck.violation("STABLE-PROPAGATE", fn.qname, tag + ":worker", "workers do not run the variant with the same Stable flag", fn.loc)
        for q, st in (("tlx::parallel_mergesort", "false"), ("tlx::stable_parallel_mergesort", "true")):
            fn = tu.one(qname=q)
            c = [x for x in fn.nodes() if "callee" in x and x["callee"]["name"] == "parallel_mergesort_base"]
            if len(c) == 1 and c[0]["callee"]["targs"][0] == st and [ref_of(a) for a in kids(c[0])] == [p["did"] for p in fn.params]:
                ck.ok("STABLE-PROPAGATE", q, "-> parallel_mergesort_base<%s>, parameters forwarded" % st, nontrivial=False)
            else:
                ck.violation("STABLE-PROPAGATE", q, "front", "%s must call parallel_mergesort_base<%s> with its parameters" % (q, st), fn.loc)
        check_equally_split(ck, tu)
        from rules import c09
        from rules.parcommon import check_comp_threaded_all
        nct = check_comp_threaded_all(ck, tu, ("tlx::parallel_mergesort_detail::", "tlx::multiway_merge_detail::", "tlx::parallel_"))
        ck.require(nct >= 2, "no standard ordering algorithm found below the expected namespaces")
        nt = c09.check_trees_in(ck, tu)
        ck.require(nt >= 4, "the k >= 5 merge of the sorted runs uses loser trees; expected 4 instantiated classes, found %d" % nt)
    m = len(types)
    ck.floor("TEMP-DESTROY", 2 * m)
    ck.floor("BARRIER-PHASES", 2 * m)
    ck.floor("BARRIER-BALANCE", 2 * m)
    ck.floor("FORK-JOIN", 2 * m)
    ck.floor("STABLE-PROPAGATE", 6 * m)
    ck.floor("SPLIT-INDEX-BOUND", 2 * m)
