"""shared rules for the fork/join based parallel algorithms (C06, C07)"""
from engine import ir, dtable, match, cfg as cfgm
from engine.ir import kids, strip_casts, const_int, ref_of


def check_fork_join(ck, tu, fn, tag):
    """threads[i] = std::thread(lambda) for i in [0,T); threads[i].join() for the same range; loop index captured by copy"""
    spawns = []
    for x in fn.nodes():
        b = match.binop(x, ("=",))
        if b and "callee" in strip_casts(x) and any(y["k"] == "LambdaExpr" for y in ir.walk(b[2])):
            p = match.index_parts(b[1])
            if p and ref_of(p[0]) is not None and "thread" in (strip_casts(b[2]).get("ty") or ""):
                spawns.append((x, p))
    joins = [x for x in fn.nodes() if "callee" in x and x["callee"]["name"] == "join" and "thread" in (x["callee"].get("record") or "")]
    if len(spawns) != 1 or len(joins) != 1:
        raise dtable.Undecidable("%s: fork/join skeleton not recognised (%d spawns, %d joins)" % (fn.loc, len(spawns), len(joins)))
    sp, (arr, idx) = spawns[0][0], spawns[0][1]
    g = cfgm.CFG(fn)

    def loop_range(node):
        lp = fn.parent(node)
        while lp is not None and lp["k"] != "ForStmt":
            lp = fn.parent(lp)
        if lp is None:
            return None
        init, cond, inc, body = match.loop_parts(lp)
        var = [y for y in ir.walk(init) if y["k"] == "VarDecl"]
        b = match.binop(cond, ("<", "!="))
        if not var or not b or ref_of(b[1]) != var[0]["did"] or strip_casts(b[1])["k"] != "DeclRefExpr":
            return None
        return var[0]["did"], const_int(kids(var[0])[0]), dtable.describe(b[2]), lp
    rs, rj = loop_range(sp), loop_range(joins[0])
    jidx = match.index_parts(kids(joins[0])[0])
    bad = []
    if not rs or not rj or rs[1] != 0 or rj[1] != 0 or rs[2] != rj[2] or ref_of(idx) != rs[0] or not jidx or ref_of(jidx[1]) != rj[0] or ref_of(jidx[0]) != ref_of(arr):
        bad.append(("range", "the threads that are started are not exactly the threads that are joined"))
    if rs and rj and not g.dominates(g.pos_deep(kids(rs[3])[1]), g.pos_deep(kids(rj[3])[1])):
        bad.append(("order", "threads are joined before all of them were started"))
    # every return after the spawn loop is preceded by the join loop
    lam = [y for y in ir.walk(sp) if y["k"] == "LambdaExpr"][0]
    caps = lam.get("captures", [])
    byref_idx = [c for c in caps if c.get("id") == rs[0] and c.get("byref")] if rs else []
    implicit_ref = any(c.get("implicit") and c.get("byref") for c in caps)
    explicit_copy = [c for c in caps if rs and c.get("id") == rs[0] and not c.get("byref")]
    if byref_idx or not explicit_copy:
        bad.append(("index-capture", "the loop index is captured by reference: the thread reads it after the loop has advanced"))
    for sig, msg in bad:
        ck.violation("FORK-JOIN" if sig != "index-capture" else "INDEX-BY-COPY", fn.qname, "%s:%s" % (tag, sig), msg, fn.nloc(sp))
    if not bad:
        ck.ok("FORK-JOIN", tag, "threads[i] started for i in [0, %s) and all joined before the result is used" % rs[2])
        ck.ok("INDEX-BY-COPY", tag, "worker lambda captures the loop index by copy")
    return tu.by_did.get(lam.get("fn")), rs[0] if rs else None


STD_ORDER_ALGOS = ("lower_bound", "upper_bound", "equal_range", "binary_search", "sort", "stable_sort", "partial_sort", "nth_element",
                   "merge", "inplace_merge", "min_element", "max_element", "minmax_element", "is_sorted", "includes",
                   "push_heap", "pop_heap", "make_heap", "sort_heap", "min", "max", "lexicographical_compare")


def comparator_sources(fn, comp_did):
    """declaration ids that carry the caller's order: the comparator parameter and locals constructed from it"""
    src = {comp_did}
    changed = True
    while changed:
        changed = False
        for v in fn.nodes():
            if v["k"] == "VarDecl" and v.get("did") not in src and kids(v):
                if any(x["k"] == "DeclRefExpr" and x["ref"]["id"] in src for x in ir.walk(kids(v)[0])):
                    src.add(v["did"])
                    changed = True
    return src


def check_comp_threaded_all(ck, tu, prefixes):
    """COMP-THREADED for every function (and lambda) below the given namespaces that has the caller's comparator in scope"""
    n = 0
    for fn in tu.functions:
        if fn.body is None or not any(fn.qname.startswith(p) for p in prefixes):
            continue
        has = [p for p in fn.params if p["name"] == "comp"] or \
            [x for x in fn.nodes() if x["k"] == "DeclRefExpr" and x["ref"]["name"] == "comp"]
        if not has:
            continue
        tag = "%s<%s>" % (fn.name if fn.kind != "lambda" else "lambda in " + fn.qname.split("::")[-2 if "::" in fn.qname else 0],
                          ",".join(a[:18] for a in (fn.targs or [])[:2]))
        n += check_comp_threaded(ck, fn, tag)
    return n


def check_comp_threaded(ck, fn, tag):
    """every ordering algorithm of the standard library called on the user's elements receives the user's order"""
    comp = [p["did"] for p in fn.params if p["name"] == "comp"]
    if not comp:
        comp = list({x["ref"]["id"] for x in fn.nodes() if x["k"] == "DeclRefExpr" and x["ref"]["name"] == "comp"})
    if not comp:
        raise ir.AnalysisBroken("%s: comparator not found" % fn.full)
    src = set()
    for c in comp:
        src |= comparator_sources(fn, c)
    n = 0
    for z in fn.nodes():
        if "callee" not in z or not z["callee"]["qname"].startswith("std::") or z["callee"]["name"] not in STD_ORDER_ALGOS:
            continue
        if z.get("member_call"):
            continue
        # calls on plain integers (std::min of two sizes) do not order user elements
        argtys = [(a.get("ty") or "") for a in kids(z)]
        if z["callee"]["name"] in ("min", "max") and all(("long" in t or "int" in t) and "iterator" not in t for t in argtys):
            continue
        n += 1
        uses = any(x["k"] == "DeclRefExpr" and x["ref"]["id"] in src for a in kids(z) for x in ir.walk(a))
        if not uses:
            ck.violation("COMP-THREADED", fn.qname, "%s:%s" % (tag, z["callee"]["name"]),
                         "std::%s() is called without the caller's comparator and falls back to operator<: with any other order (std::greater, "
                         "key projections) the position it returns is meaningless" % z["callee"]["name"], fn.nloc(z))
        else:
            ck.ok("COMP-THREADED", "%s std::%s" % (tag, z["callee"]["name"]), "receives the caller's order", nontrivial=False)
    return n


