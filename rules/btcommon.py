"""Shared B+ tree analysis for C01 and C02: witness configurations, per-instantiation function
lookup, local-variable role resolution, the underflow decision table, node capacity predicates."""
from engine import ir, dtable, match
from engine.ir import kids, walk, strip_casts, const_int, ref_of

BT = "tlx::BTree"

# (leaf_slots, inner_slots, binsearch_threshold, key type)
QUICK = [(8, 5, 256, "int")]
THOROUGH = [(8, 5, 256, "int"), (4, 9, 0, "std::string"), (5, 4, 1 << 20, "int"), (16, 16, 64, "int")]

# positional contract of erase_*_descend(key|iter, curr, left, right, left_parent, right_parent, parent, parentslot)
P_CURR, P_LEFT, P_RIGHT, P_LP, P_RP, P_PARENT, P_PSLOT = 1, 2, 3, 4, 5, 6, 7


def configs(tier):
    return QUICK if tier == "quick" else THOROUGH


def load(tier):
    out = []
    for leaf, inner, bs, kt in configs(tier):
        tu = ir.extract("witness/C01_btree.cpp",
                        defines=["WITNESS_LEAF=%d" % leaf, "WITNESS_INNER=%d" % inner,
                                 "WITNESS_BINSEARCH=%d" % bs, "WITNESS_K=" + kt])
        out.append((dict(leaf=leaf, inner=inner, binsearch=bs, key=kt), tu))
    return out


class Tree:
    """all functions of one BTree instantiation"""

    def __init__(self, targs, fns):
        self.targs = targs
        self.fns = fns
        self.small = any("small_traits" in a for a in targs)
        self.dup = targs[5] == "true" if len(targs) > 5 else None
        cmp_ = "greater" if "greater" in targs[3] else "less"
        kind = ("multi" if self.dup else "") + ("map" if "pair<" in targs[1] else "set")
        self.label = "%s/%s/%s" % (kind, cmp_, "small" if self.small else "default")

    def find(self, name, record=BT):
        return [f for f in self.fns if f.name == name and f.record == record]

    @property
    def by_did(self):
        if not hasattr(self, "_by_did"):
            self._by_did = {f.did: f for f in self.fns}
        return self._by_did

    def one(self, name, record=BT):
        r = self.find(name, record)
        if len(r) != 1:
            raise ir.AnalysisBroken("expected one %s::%s in BTree<%s>, found %d" % (record, name, self.label, len(r)))
        return r[0]

    def where(self, fn, extra=""):
        return "%s [%s]%s" % (fn.qname, self.label, (" " + extra) if extra else "")


def trees(tu):
    groups = {}
    for f in tu.functions:
        if f.record and (f.record == BT or f.record.startswith(BT + "::")):
            groups.setdefault(tuple(f.rtargs), []).append(f)
    out = [Tree(list(k), v) for k, v in groups.items()]
    if not out:
        raise ir.AnalysisBroken("no BTree instantiation found in %s" % tu.src)
    return out


# ------------------------------------------------------------------ roles of locals
def local_inits(fn):
    """did -> init expression for locals with an initialiser; did -> [assigned exprs]"""
    inits, assigns = {}, {}
    for n in walk(fn.body):
        if n["k"] == "VarDecl" and kids(n) and kids(n)[0] is not None:
            inits[n["did"]] = kids(n)[0]
        b = match.binop(n, ("=",)) if n["k"] == "BinaryOperator" else None
        if b and ref_of(b[1]) is not None:
            assigns.setdefault(ref_of(b[1]), []).append(b[2])
    return inits, assigns


class Roles:
    """maps a pointer expression of erase_*_descend to the parameter it denotes (through the
    static_cast'ed typed copies left_leaf / right_inner / leaf / inner)"""

    def __init__(self, fn):
        self.fn = fn
        self.inits, self.assigns = local_inits(fn)
        self.pidx = {p["did"]: i for i, p in enumerate(fn.params)}

    def param_of(self, e, depth=0):
        e = strip_casts(e)
        if e is None or depth > 4:
            return None
        d = ref_of(e)
        if d is None:
            return None
        if d in self.pidx:
            return self.pidx[d]
        if d in self.inits and d not in self.assigns_nonnull():
            return self.param_of(self.inits[d], depth + 1)
        if d in self.inits:
            return self.param_of(self.inits[d], depth + 1)
        return None

    def assigns_nonnull(self):
        return {d for d, es in self.assigns.items()
                if any(strip_casts(e)["k"] not in ("NullPtr", "CXXNullPtrLiteralExpr", "GNUNullExpr") for e in es)}


def is_null(e):
    e = strip_casts(e)
    return e is not None and (e["k"] in ("NullPtr", "CXXNullPtrLiteralExpr", "GNUNullExpr") or
                              (const_int(e) == 0 and e["k"] == "IntegerLiteral"))


NAMES = {P_CURR: "curr", P_LEFT: "left", P_RIGHT: "right", P_LP: "left_parent", P_RP: "right_parent",
         P_PARENT: "parent", P_PSLOT: "parentslot"}


_READ_BINOPS = ("==", "!=", "<", "<=", ">", ">=", "+", "-", "*", "/", "%", "&&", "||", "&", "|", "^", "<<", ">>")
_CASTS = ("ImplicitCastExpr", "ParenExpr", "CStyleCastExpr", "CXXStaticCastExpr", "CXXFunctionalCastExpr", "CXXConstCastExpr",
          "CXXReinterpretCastExpr", "ExprWithCleanups", "MaterializeTemporaryExpr")


def _only_read(fn, did, also=()):
    """closed world: every mention of the declaration sits in a position that is known to read its value (operand of a
    comparison / arithmetic / logical operator, right side of an assignment, p->member, p[i], *p, by-value argument of a
    known function, initialiser of a non-reference local, returned value, condition).  Any other position (left side of
    an assignment, ++/--, &x, reference binding, argument of an unknown callee, x.member, ...) counts as a possible write"""
    tu = fn.tu
    also_fns = tuple(also)
    for root in (fn.body,) + tuple(g.body for g in also_fns):
        parent = {}
        for x, p in ir.walk_with_parent(root):
            parent[id(x)] = p
        for x in walk(root):
            if x["k"] != "DeclRefExpr" or x["ref"]["id"] != did:
                continue
            c, p = x, parent.get(id(x))
            while p is not None and p["k"] in _CASTS:
                if p["k"] in ("CXXConstCastExpr", "CXXReinterpretCastExpr"):
                    return False
                c, p = p, parent.get(id(p))
            if p is None:
                return False
            k = p["k"]
            if k == "BinaryOperator" and p.get("op") in _READ_BINOPS:
                continue
            if k == "BinaryOperator" and p.get("op") == "=" and len(kids(p)) == 2 and kids(p)[1] is c:
                lhs = strip_casts(kids(p)[0])
                if lhs is not None and not (lhs.get("ty") or "").rstrip().endswith("&"):
                    continue
                return False
            if k == "UnaryOperator" and p.get("op") in ("!", "-", "+", "~", "*"):
                continue
            if k == "MemberExpr" and p.get("arrow"):
                continue
            if k == "ArraySubscriptExpr":
                continue
            if k == "ConditionalOperator":
                if kids(p)[0] is c or not x.get("lv") or not p.get("lv"):
                    continue
                return False
            if k in ("IfStmt", "WhileStmt", "DoStmt", "ForStmt") :
                continue
            if k == "ReturnStmt":
                owner = fn if root is fn.body else next((g for g in also_fns if g.body is root), None)
                ret = ((getattr(owner, "d", None) or {}).get("ret") or "&") if owner is not None else "&"
                if not ret.rstrip().endswith("&") and ret.strip() not in ("auto", "decltype(auto)"):
                    continue
                return False
            if k == "VarDecl":
                if p.get("isref") or (p.get("ty") or "").rstrip().endswith("&"):
                    return False
                continue
            if "callee" in p and k in ("CallExpr", "CXXMemberCallExpr", "CXXOperatorCallExpr"):
                args = kids(p)
                i = next((j for j, a in enumerate(args) if a is c), None)
                if i is None:
                    return False
                if k == "CXXMemberCallExpr" or p.get("member_call"):
                    if i == 0:
                        if p.get("arrow"):
                            continue          # p->f(): the pointer is read
                        return False
                    i -= 1
                elif k == "CXXOperatorCallExpr":
                    return False
                callee = tu.by_did.get(p["callee"].get("did")) if tu is not None else None
                if callee is None or i >= len(callee.params):
                    return False
                pty = (callee.params[i].get("ty") or "").rstrip()
                if pty.endswith("&"):
                    return False
                continue
            return False
    return True


def _pure_arg(e):
    """an argument that may be substituted for a parameter any number of times: no calls, no writes"""
    for x in walk(e):
        if "callee" in x or x["k"] in ("CompoundAssignOperator", "CXXNewExpr", "CXXDeleteExpr", "LambdaExpr", "CXXThrowExpr", "StmtExpr"):
            return False
        if x["k"] == "BinaryOperator" and x.get("op") in ("=", ","):
            return False
        if x["k"] == "UnaryOperator" and x.get("op") in ("++", "--"):
            return False
    return True


def local_lambda_value(roles, n):
    """n (casts stripped) is f(args) with f an object that has operator().  If f is a local closure declared in the same
    function (`const auto f = [..](T a, ..) { decl* (if (c) return e;)* return e; }`) whose captures cannot differ from
    the variables at the call, the returned expression with the parameters replaced by the arguments; everything else is
    Undecidable (the generic helper inlining of the decision table does not know that the first operand of an
    operator() call is the object)"""
    fn = roles.fn
    fc = match.functor_call(n)
    here = "%s" % fn.nloc(n) if hasattr(fn, "nloc") else "line %s" % n.get("l")

    def und(what):
        return dtable.Undecidable("%s: %s: %s" % (here, what, dtable.describe(n)[:120]))
    obj = strip_casts(fc[0])
    d = ref_of(obj)
    if d is None or d not in roles.inits or d in roles.assigns:
        raise und("call of a function object that is not a local closure")
    lam = match.strip_conv(roles.inits[d])
    if lam is None or lam["k"] != "LambdaExpr" or "fn" not in lam or lam["fn"] != n["callee"].get("did"):
        raise und("call of a function object that is not a local closure")
    callee = fn.tu.by_did.get(lam["fn"])
    if callee is None or callee.body is None:
        raise und("body of the closure not available")
    args = [a for a in fc[1]]
    if len(args) != len(callee.params) or any(a is None or a["k"] == "DefaultArg" or not _pure_arg(a) for a in args):
        raise und("arguments of the closure call not understood")
    for c in lam.get("captures") or []:
        if c.get("name") == "this":
            if not c.get("byref"):
                raise und("closure with a copy of *this")
            continue
        if "id" not in c:
            raise und("closure capture not understood")
        # a by-reference capture names the variable itself; a by-value capture equals it as long as nobody writes it
        if not c.get("byref") and not _only_read(fn, c["id"], (callee,)):
            raise und("closure captures a copy of a variable that is written")
    for p_ in callee.params:
        if not _only_read(callee, p_["did"]):
            raise und("closure modifies its parameter")
    sub = dtable.stmts_as_expr(kids(callee.body), {p_["did"]: a for p_, a in zip(callee.params, args)})
    if sub is None:
        raise und("body of the closure is not a chain of returns")
    return sub


def with_local_lambdas(atomize, roles):
    """atomizer that evaluates the call of a local closure (a predicate written as a lambda in the same function) by the
    value of its body; other calls of function objects that the rule's atomizer does not know are Undecidable"""
    def wrapped(n, run):
        r = atomize(n, run)
        if r is not None:
            return r
        m = strip_casts(n)
        if m is not None and m["k"] == "CXXOperatorCallExpr" and match.functor_call(m) is not None:
            return bool(run.truth(local_lambda_value(roles, m)))
        return None
    return wrapped


def underflow_atomize(roles):
    """atoms: ('null', side) ('few', side) ('eq', a, b) for parent pointers, ('le', a, b) for fill levels"""
    def atomize(n, run):
        if match.functor_call(n) is not None:
            # sibling predicate written as a local lambda: its value is the value of its body at the call
            return bool(run.truth(local_lambda_value(roles, strip_casts(n))))
        # `if (p)` / `!p`: the pointer-to-bool conversion sits in the cast layers that strip_casts removes
        pt, m = None, n
        while m is not None and pt is None and m["k"] in ("ImplicitCastExpr", "ParenExpr") and kids(m):
            pt = match.ptr_truth(m)
            m = kids(m)[0]
        n = strip_casts(n)
        if pt is not None:
            p = roles.param_of(pt)
            if p in (P_LEFT, P_RIGHT, P_PARENT, P_LP, P_RP):
                return ("null", p), True
        b = match.binop(n, ("==", "!="))
        if b:
            op, l, r = b
            for x, y in ((l, r), (r, l)):
                if is_null(y):
                    p = roles.param_of(x)
                    if p in (P_LEFT, P_RIGHT, P_PARENT, P_LP, P_RP):
                        return ("null", p), op == "!="
            pl, pr = roles.param_of(l), roles.param_of(r)
            if pl is not None and pr is not None and {pl, pr} <= {P_LP, P_RP, P_PARENT} and pl != pr:
                return ("eq",) + tuple(sorted((pl, pr))), op == "!="
        if "callee" in n and n["callee"]["name"] == "is_few" and n.get("member_call"):
            p = roles.param_of(kids(n)[0])
            if p in (P_LEFT, P_RIGHT):
                return ("few", p), False
        b = match.binop(n, ("<=", "<", ">", ">="))
        if b:
            op, l, r = b
            fl, fr = match.field_of(l), match.field_of(r)
            if fl and fr and fl[1] == "slotuse" and fr[1] == "slotuse":
                pl, pr = roles.param_of(fl[0]), roles.param_of(fr[0])
                if {pl, pr} == {P_LEFT, P_RIGHT}:
                    # canonical atom: left.slotuse <= right.slotuse
                    if pl == P_LEFT:
                        return {"<=": (("le",), False), ">": (("le",), True),
                                "<": (("lt",), False), ">=": (("lt",), True)}[op]
                    return {">=": (("le",), False), "<": (("le",), True),
                            ">": (("lt",), False), "<=": (("lt",), True)}[op]
        return None
    return atomize


def underflow_consistent(v):
    """structural facts about a node that reached the rebalancing code (listed as assumptions in the
    evidence): the root is the only node without neighbours; the outermost node of a level has a null
    neighbour and a null neighbour-parent while its own parent exists; every inner node has at least two
    children, so one neighbour hangs below the same parent; left_parent == right_parent exactly when both do"""
    a, b = v.get(("null", P_LEFT)), v.get(("null", P_RIGHT))
    e, f = v.get(("eq", P_LP, P_PARENT)), v.get(("eq", P_RP, P_PARENT))
    g = v.get(("eq", P_LP, P_RP))
    if a and b:
        return True
    if a and e:
        return False
    if b and f:
        return False
    if e is False and f is False:
        return False
    if g is not None and e is not None and f is not None and g != (e and f):
        return False
    if g is True and (e is False or f is False):
        return False
    le, lt = v.get(("le",)), v.get(("lt",))
    if le is False and lt is True:
        return False
    return True


def find_underflow_ifs(fn):
    out = []
    for n in walk(fn.body):
        if n["k"] == "IfStmt" and any("callee" in z and z["callee"]["name"] == "is_underflow"
                                      for z in walk(kids(n)[0])):
            out.append(n)
    return out


REBAL = ("merge_leaves", "merge_inner", "shift_left_leaf", "shift_left_inner",
         "shift_right_leaf", "shift_right_inner")


def slot_arg_kind(e, roles):
    """'ps' for parentslot, 'ps-1' for parentslot - 1, else a description"""
    e = strip_casts(e)
    if roles.param_of(e) == P_PSLOT:
        return "ps"
    b = match.binop(e, ("-",))
    if b and roles.param_of(b[1]) == P_PSLOT and const_int(b[2]) == 1:
        return "ps-1"
    b = match.binop(e, ("+",))
    if b and roles.param_of(b[1]) == P_PSLOT and const_int(b[2]) == -1:
        return "ps-1"
    return dtable.describe(e)


def check_underflow(ck, tree, fn, rule="UNDERFLOW-LEGAL"):
    """every one of the consistent sibling situations must be resolved by a legal action"""
    roles = Roles(fn)
    ifs = find_underflow_ifs(fn)
    if len(ifs) != 2:
        raise ir.AnalysisBroken("%s: expected a leaf and an inner underflow region, found %d" % (fn.full, len(ifs)))
    for region in ifs:
        then = kids(region)[1]
        leaves = dtable.explore(then, underflow_atomize(roles), fn)
        atoms = dtable.atoms_of(leaves)
        # the structural atoms always take part, whether or not this region happens to test them
        for k in (("null", P_LEFT), ("null", P_RIGHT), ("eq", P_LP, P_PARENT), ("eq", P_RP, P_PARENT), ("eq", P_LP, P_RP)):
            if k not in atoms:
                atoms.append(k)
        # which node kind: the receiver of is_underflow
        rec = [z for z in walk(kids(region)[0]) if "callee" in z and z["callee"]["name"] == "is_underflow"][0]
        kind = "leaf" if "LeafNode" in rec["callee"]["record"] else "inner"
        n_val = 0
        bad = {}     # call site / situation class -> (first message, loc, count)

        def report(key, msg, loc):
            if key in bad:
                bad[key][2] += 1
            else:
                bad[key] = [msg, loc, 1]
        for v, lf in dtable.table(leaves, underflow_consistent, atoms):
            n_val += 1
            a, b = v.get(("null", P_LEFT)), v.get(("null", P_RIGHT))
            calls = []
            for ev in lf["events"]:
                if ev[0] != "expr":
                    continue
                for z in walk(ev[1]):
                    if "callee" in z and z["callee"]["name"] in REBAL:
                        calls.append(z)
            sit = dtable.fmt_val({_aname(k): x for k, x in v.items()})
            loc = fn.nloc(region)
            if a and b:
                # the root lost its last entry / last separator: handled by C02 ROOT-COLLAPSE; no rebalancing here
                if calls:
                    report(kind + ":root", "a node without neighbours (the root) is rebalanced with %s"
                           % calls[0]["callee"]["name"], loc)
                continue
            if len(calls) != 1:
                report("%s:%d-actions" % (kind, len(calls)),
                       "underflowing %s node: %d rebalancing actions in situation {%s} (exactly one required)"
                       % (kind, len(calls), sit), loc)
                continue
            c = calls[0]
            name = c["callee"]["name"]
            args = kids(c)[1:] if c.get("member_call") else kids(c)
            problem = legal_action(name, args, v, roles, kind)
            if problem:
                shape = "%s(%s)" % (name, ",".join(dtable.describe(x) for x in args))
                report("%s:%s:%s" % (kind, shape, problem.split(";")[0][:60]),
                       "underflowing %s node in situation {%s}: %s — %s" % (kind, sit, shape, problem), fn.nloc(c))
        for key, (msg, loc, cnt) in bad.items():
            ck.violation(rule, fn.qname, key, msg + (" (and %d more situations)" % (cnt - 1) if cnt > 1 else ""), loc)
        if bad:
            continue
        ck.ok(rule, tree.where(fn, kind), "%d consistent situations over %d atoms, each resolved by one legal action"
              % (n_val, len(atoms)))
        ck.states += n_val


def _aname(k):
    if k[0] in ("null", "few"):
        return "%s(%s)" % (k[0], NAMES[k[1]])
    if k[0] == "eq":
        return "%s==%s" % (NAMES[k[1]], NAMES[k[2]])
    if k[0] == "le":
        return "left.fill<=right.fill"
    if k[0] == "lt":
        return "left.fill<right.fill"
    return str(k)


def legal_action(name, args, v, roles, kind):
    if name.endswith("_leaf") or name == "merge_leaves":
        akind = "leaf"
    else:
        akind = "inner"
    if akind != kind:
        return "a %s primitive is applied to %s nodes" % (akind, kind)
    if len(args) < 3:
        return "unexpected argument list"
    p0, p1, pp = roles.param_of(args[0]), roles.param_of(args[1]), roles.param_of(args[2])
    if (p0, p1) == (P_LEFT, P_CURR):
        side = P_LEFT
    elif (p0, p1) == (P_CURR, P_RIGHT):
        side = P_RIGHT
    else:
        return "arguments are not (left neighbour, node) or (node, right neighbour) in left-to-right order"
    sname = NAMES[side]
    if name.startswith("shift_left") and side != P_RIGHT:
        return "shift_left moves entries from the right argument into the left one; the underflowing node must be the left argument"
    if name.startswith("shift_right") and side != P_LEFT:
        return "shift_right moves entries from the left argument into the right one; the underflowing node must be the right argument"
    if v.get(("null", side)):
        return "the %s neighbour is null here" % sname
    same_parent = ("eq", P_LP, P_PARENT) if side == P_LEFT else ("eq", P_RP, P_PARENT)
    if v.get(same_parent) is not True:
        # not decided on this path: deduce from the consistency facts
        other = ("eq", P_RP, P_PARENT) if side == P_LEFT else ("eq", P_LP, P_PARENT)
        other_null = ("null", P_RIGHT) if side == P_LEFT else ("null", P_LEFT)
        if v.get(same_parent) is False:
            return "the %s neighbour hangs below a different parent" % sname
        if not (v.get(other) is False or v.get(other_null) is True):
            return "nothing on this path establishes that the %s neighbour has the same parent" % sname
    few = v.get(("few", side))
    if name.startswith("merge"):
        if few is not True:
            return "merging with a %s neighbour that is not known to be at most half full overflows the node" % sname
    else:
        if few is not False:
            return "entries are taken from a %s neighbour that may itself be only half full" % sname
    want_parent = P_LP if side == P_LEFT else P_RP
    if pp not in (want_parent, P_PARENT):
        return "the parent argument is %s, expected the common parent" % dtable.describe(args[2])
    if len(args) >= 4:
        sk = slot_arg_kind(args[3], roles)
        want = "ps-1" if side == P_LEFT else "ps"
        if sk != want:
            return ("the separator between the %s neighbour and the node is parent->slotkey[%s], but %s is passed"
                    % (sname, "parentslot - 1" if side == P_LEFT else "parentslot", dtable.describe(args[3])))
    return None


# ------------------------------------------------------------------ capacity predicates
def eval_int(n, env):
    """tiny evaluator for the capacity predicates: integers, comparisons, slotuse from env"""
    n0 = n
    c = const_int(n)
    if c is not None:
        return c
    n = strip_casts(n)
    c = const_int(n)
    if c is not None:
        return c
    if n["k"] == "MemberExpr" and n.get("member") in env:
        return env[n["member"]]
    if n["k"] == "DeclRefExpr" and n["ref"]["name"] in env:
        return env[n["ref"]["name"]]
    if n["k"] == "ParenExpr":
        return eval_int(kids(n)[0], env)
    if n["k"] == "UnaryOperator" and n.get("op") == "!":
        return int(not eval_int(kids(n)[0], env))
    if n["k"] == "BinaryOperator":
        op = n["op"]
        if op == "&&":
            return int(bool(eval_int(kids(n)[0], env)) and bool(eval_int(kids(n)[1], env)))
        if op == "||":
            return int(bool(eval_int(kids(n)[0], env)) or bool(eval_int(kids(n)[1], env)))
        a, b = eval_int(kids(n)[0], env), eval_int(kids(n)[1], env)
        f = {"==": lambda: int(a == b), "!=": lambda: int(a != b), "<": lambda: int(a < b),
             "<=": lambda: int(a <= b), ">": lambda: int(a > b), ">=": lambda: int(a >= b),
             "+": lambda: a + b, "-": lambda: a - b, "*": lambda: a * b,
             "/": lambda: a // b if b else None, ">>": lambda: a >> b, "<<": lambda: a << b}.get(op)
        if f is None:
            raise dtable.Undecidable("operator %s in a capacity predicate" % op)
        return f()
    raise dtable.Undecidable("capacity predicate not understood: %s" % dtable.describe(n0))


def single_return(fn):
    rets = [n for n in walk(fn.body) if n["k"] == "ReturnStmt"]
    if len(rets) != 1 or not kids(rets[0]):
        raise ir.AnalysisBroken("%s: expected a single return expression" % fn.full)
    return kids(rets[0])[0]


def check_capacity(ck, tree, cfg, rule="NODE-CAPACITY"):
    """only for the small_traits instantiations, whose capacities are the witness' own -D values"""
    for rec, cap, extra in ((BT + "::LeafNode", cfg["leaf"], 0), (BT + "::InnerNode", cfg["inner"], 1)):
        full = single_return(tree.one("is_full", rec))
        few = single_return(tree.one("is_few", rec))
        under = single_return(tree.one("is_underflow", rec))
        rng = range(0, 2 * max(cfg["leaf"], cfg["inner"]) + 3)
        fullv = [s for s in rng if eval_int(full, {"slotuse": s})]
        fewv = [s for s in rng if eval_int(few, {"slotuse": s})]
        undv = [s for s in rng if eval_int(under, {"slotuse": s})]
        fn = tree.one("is_few", rec)
        kind = rec.split("::")[-1]
        sig = "%s:%d" % (kind, cap)
        bad = None
        if fullv != [cap]:
            bad = ("is_full() holds for fill %s, the node array has %d slots" % (fullv, cap), tree.one("is_full", rec))
        elif undv != list(range(0, len(undv))) or fewv != list(range(0, len(fewv))):
            bad = ("is_few()/is_underflow() are not downward closed in the fill", fn)
        else:
            U = len(undv)          # smallest legal fill
            F = len(fewv) - 1      # largest fill still called few
            if U < cap // 2:
                bad = ("a node is accepted as not underflowing with %d < %d/2 entries" % (U, cap), tree.one("is_underflow", rec))
            elif F < U:
                bad = ("a neighbour with %d entries is not few, but giving one away leaves it below the minimum %d"
                       % (F + 1, U) if F + 1 <= U else
                       "is_few() (fill <= %d) is narrower than the minimum fill %d: a donor at the minimum would be shifted from" % (F, U), fn)
            elif (U - 1) + F + extra > cap:
                bad = ("merging an underflowing %s (fill %d) with a neighbour that is_few() (fill up to %d)%s needs %d slots, the node has %d"
                       % (kind, U - 1, F, " plus the separator" if extra else "", U - 1 + F + extra, cap), fn)
        if bad:
            ck.violation(rule, bad[1].qname, sig, bad[0], bad[1].loc)
        else:
            ck.ok(rule, tree.where(fn), "%s capacity %d: full at %d, minimum fill %d, few up to %d; merge needs %d <= %d"
                  % (kind, cap, cap, len(undv), len(fewv) - 1, len(undv) - 1 + len(fewv) - 1 + extra, cap))


# ------------------------------------------------------------------ finite alias model for the leaf chain
class ShapeState:
    def __init__(self):
        self.env = {}        # local/param decl id -> symbol
        self.tf = {}         # this->field -> symbol
        self.heap = {}       # (symbol, field) -> symbol
        self.null = {}       # symbol -> True / False (known), absent = unknown
        self.problems = []
        self.done = False
        self.n_new = 0
        self.news = []
        self.trace = []

    def clone(self):
        s = ShapeState()
        s.env, s.tf, s.heap, s.null = dict(self.env), dict(self.tf), dict(self.heap), dict(self.null)
        s.problems, s.done, s.n_new, s.news, s.trace = list(self.problems), self.done, self.n_new, list(self.news), list(self.trace)
        return s

    def is_null(self, sym):
        if sym == "NULL":
            return True
        return self.null.get(sym)


LINKS = ("next_leaf", "prev_leaf")
OWNERS = ("root_", "head_leaf_", "tail_leaf_")


class Shape:
    """executes a loop-free fragment that manipulates leaf-chain pointers on symbolic nodes; forks on the
    null-ness of pointers that the fragment tests; every other condition forks without knowledge"""

    def __init__(self, fn, alloc_names=("allocate_leaf",), tree=None):
        self.fn = fn
        self.alloc_names = alloc_names
        self.tree = tree
        self.depth = 0

    def helper_of(self, s):
        """a statement that is a call of a private helper of the same class which touches the chain -> callee"""
        e = strip_casts(s)
        while e is not None and e["k"] in ("ExprWithCleanups", "ParenExpr"):
            e = strip_casts(kids(e)[0])
        if e is None or "callee" not in e or not e.get("member_call") or self.tree is None or self.depth >= 3:
            return None
        if not kids(e) or strip_casts(kids(e)[0])["k"] != "This" or e["callee"]["name"] == self.fn.name:
            return None
        cal = self.tree.by_did.get(e["callee"]["did"])
        if cal is None or cal.body is None:
            return None
        if not any(x["k"] == "MemberExpr" and x.get("member") in LINKS + OWNERS for x in walk(cal.body)):
            return None
        return cal, kids(e)[1:]

    def ev(self, e, st):
        e = strip_casts(e)
        if e is None:
            return None
        k = e["k"]
        if is_null(e):
            return "NULL"
        if k == "ParenExpr":
            return self.ev(kids(e)[0], st)
        if k == "DeclRefExpr":
            d = e["ref"]["id"]
            if d not in st.env:
                if "*" not in (e.get("ty") or ""):
                    return None
                st.env[d] = "var:" + e["ref"]["name"]
            return st.env[d]
        if k == "MemberExpr" and kids(e):
            base = strip_casts(kids(e)[0])
            m = e["member"]
            if base["k"] == "This":
                if m in OWNERS:
                    return st.tf.setdefault(m, "old:" + m)
                return None
            if m in LINKS:
                b = self.ev(base, st)
                if b is None:
                    return None
                self.deref(b, st, e)
                return st.heap.setdefault((b, m), "%s.%s0" % (b, m))
            return None
        if k == "BinaryOperator" and e.get("op") == "=":
            v = self.ev(kids(e)[1], st)
            self.assign(kids(e)[0], v, st, e)
            return v
        if "callee" in e and e["callee"]["name"] in self.alloc_names:
            st.n_new += 1
            s = "new%d" % st.n_new
            st.news.append(s)
            st.null[s] = False
            st.heap[(s, "next_leaf")] = "NULL"     # LeafNode::initialize(), checked by INIT-NULL
            st.heap[(s, "prev_leaf")] = "NULL"
            return s
        if k == "ConditionalOperator":
            return None
        return None

    def deref(self, b, st, e):
        if b == "NULL" or st.null.get(b) is True:
            st.problems.append("null pointer dereferenced at line %s: %s" % (e.get("l"), dtable.describe(e)))
        elif b not in st.null:
            st.problems.append("possibly-null %s dereferenced without a test at line %s: %s" % (b, e.get("l"), dtable.describe(e)))

    def assign(self, lhs, v, st, e):
        lhs = strip_casts(lhs)
        if lhs["k"] == "DeclRefExpr":
            if v is not None or "*" in (lhs.get("ty") or ""):
                st.env[lhs["ref"]["id"]] = v if v is not None else "unknown:%s" % lhs["ref"]["name"]
            return
        if lhs["k"] == "MemberExpr" and kids(lhs):
            base = strip_casts(kids(lhs)[0])
            m = lhs["member"]
            if base["k"] == "This" and m in OWNERS:
                st.tf[m] = v if v is not None else "unknown"
                st.trace.append((m, v))
                return
            if m in LINKS:
                b = self.ev(base, st)
                if b is not None:
                    self.deref(b, st, lhs)
                    st.heap[(b, m)] = v if v is not None else "unknown"
                    st.trace.append(("%s.%s" % (b, m), v))

    def cond(self, c, st):
        """-> list of (state, truth)"""
        c0 = strip_casts(c)
        if c0["k"] == "ParenExpr":
            return self.cond(kids(c0)[0], st)
        if c0["k"] == "UnaryOperator" and c0.get("op") == "!":
            return [(s, not t) for s, t in self.cond(kids(c0)[0], st)]
        if c0["k"] == "BinaryOperator" and c0.get("op") in ("&&", "||"):
            out = []
            for s, t in self.cond(kids(c0)[0], st):
                if (c0["op"] == "&&") == t:
                    out += self.cond(kids(c0)[1], s)
                else:
                    out.append((s, t))
            return out
        sym = None
        neg = False
        pt = match.ptr_truth(c)
        if pt is None and c0 is not c:
            pt = match.ptr_truth(c0)
        if pt is not None:
            sym = self.ev(pt, st)
        else:
            b = match.binop(c0, ("==", "!="))
            if b:
                l, r = self.ev(b[1], st), self.ev(b[2], st)
                if l is not None and r is not None:
                    if r == "NULL" or l == "NULL":
                        sym = l if r == "NULL" else r
                        neg = b[0] == "=="
                    else:
                        # pointer equality between two symbols
                        if l == r:
                            return [(st, b[0] == "==")]
                        s1, s2 = st.clone(), st.clone()
                        return [(s1, True), (s2, False)]
        if sym is None:
            v = const_int(c0)
            if v is not None:
                return [(st, bool(v))]
            s1, s2 = st.clone(), st.clone()
            return [(s1, True), (s2, False)]
        n = st.is_null(sym)
        if n is not None:
            t = not n
            return [(st, (not t) if neg else t)]
        s1, s2 = st.clone(), st.clone()
        s1.null[sym] = False
        s2.null[sym] = True
        return [(s1, not neg), (s2, neg)]

    def run(self, stmts, st):
        states = [st]
        for s in stmts:
            nxt = []
            for x in states:
                if x.done:
                    nxt.append(x)
                else:
                    nxt += self.stmt(s, x)
            states = nxt
        return states

    def stmt(self, s, st):
        if s is None:
            return [st]
        k = s["k"]
        if k == "CompoundStmt":
            return self.run(kids(s), st)
        if k == "IfStmt":
            c, t, e = kids(s)
            out = []
            for x, truth in self.cond(c, st):
                out += self.stmt(t if truth else e, x)
            return out
        if k == "ReturnStmt":
            if kids(s):
                self.ev(kids(s)[0], st)
            st.done = True
            return [st]
        if k == "DeclStmt":
            for v in kids(s):
                if kids(v) and kids(v)[0] is not None:
                    val = self.ev(kids(v)[0], st)
                    if val is not None or "*" in (v.get("ty") or ""):
                        st.env[v["did"]] = val if val is not None else "unknown:%s" % v.get("name")
            return [st]
        if k in ("WhileStmt", "ForStmt", "DoStmt"):
            return [st]          # loops inside the fragments move elements, never chain pointers (checked by caller)
        h = self.helper_of(s)
        if h is not None:
            cal, actual = h
            for p, a in zip(cal.params, actual):
                v = self.ev(a, st)
                if v is not None or "*" in (p.get("ty") or ""):
                    st.env[p["did"]] = v if v is not None else "unknown:%s" % p.get("name")
            self.depth += 1
            try:
                out = self.run(kids(cal.body), st)
            finally:
                self.depth -= 1
            for x in out:
                x.done = False
            return out
        self.ev(s, st)
        return [st]
