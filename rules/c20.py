"""C20 — integer math helpers and Aggregate: family completeness, intrinsic guards and
widths, signed forwarding, bit provenance of the portable fall-backs, overflow before
narrowing, total predicates, Aggregate pre-state purity / twin formulas / guards."""
from fractions import Fraction

from engine import ir, dtable, match, cfg as cfgm
from engine.ir import kids, strip_casts, const_int, ref_of

INTS = ["int", "unsigned int", "long", "unsigned long", "long long", "unsigned long long"]
WIDTH = {"int": 32, "unsigned int": 32, "long": 64, "unsigned long": 64, "long long": 64, "unsigned long long": 64}
FAMILIES = ["clz", "ctz", "ffs", "popcount", "integer_log2_floor", "integer_log2_ceil", "is_power_of_two",
            "round_up_to_power_of_two", "round_down_to_power_of_two"]
BUILTIN_W = {"": 32, "l": 64, "ll": 64}


def ptype(fn, i=0):
    t = fn.params[i]["ty"]
    return t.replace("const ", "").replace(" &", "").replace("&", "").strip()


def check_families(ck, tu):
    for fam in FAMILIES:
        fns = [f for f in tu.find(qname="tlx::" + fam) if len(f.params) == 1]
        have = sorted(set(ptype(f) for f in fns))
        miss = [t for t in INTS if t not in have]
        if miss:
            ck.violation("FAMILY-COMPLETE", "tlx::" + fam, fam, "no overload / specialisation of %s for %s" % (fam, miss), "tlx/math")
        else:
            ck.ok("FAMILY-COMPLETE", fam, "defined for all six integer types", nontrivial=False)
        for fn in fns:
            t = ptype(fn)
            if t not in WIDTH:
                continue
            tag = "%s(%s)" % (fam, t)
            calls = [x for x in fn.nodes() if "callee" in x and x["k"] == "CallExpr"]
            builtins = [c for c in calls if c["callee"]["name"].startswith("__builtin_")]
            fwd = [c for c in calls if c["callee"]["qname"] == "tlx::" + fam]
            for b in builtins:
                name = b["callee"]["name"]
                base = name.rstrip("l")
                suf = name[len(base):]
                # width
                if BUILTIN_W[suf] != WIDTH[t]:
                    ck.violation("INTRINSIC-WIDTH", fn.qname, tag, "%s (%d-bit operand) is used for %s (%d bits)" % (name, BUILTIN_W[suf], t, WIDTH[t]), fn.nloc(b))
                else:
                    szs = [y for y in fn.nodes() if y["k"] == "UnaryExprOrTypeTraitExpr"]
                    bad_sz = [y for y in szs if const_int(y) is not None and const_int(y) * 8 != WIDTH[t]]
                    if bad_sz:
                        ck.violation("INTRINSIC-WIDTH", fn.qname, tag + ":sizeof", "sizeof(%s) does not name the %d-bit parameter type" % (bad_sz[0].get("argty"), WIDTH[t]), fn.nloc(bad_sz[0]))
                    else:
                        ck.ok("INTRINSIC-WIDTH", tag, "%s on a %d-bit operand" % (name, WIDTH[t]), nontrivial=False)
                # zero guard for clz/ctz (undefined for 0)
                if base in ("__builtin_clz", "__builtin_ctz"):
                    g = cfgm.CFG(fn)
                    guarded = False
                    for y in fn.nodes():
                        if y["k"] == "IfStmt":
                            c = match.binop(kids(y)[0], ("==",))
                            if c and ref_of(c[1]) == fn.params[0]["did"] and const_int(c[2]) == 0 and \
                                    any(z["k"] == "ReturnStmt" for z in ir.walk(kids(y)[1])) and g.dominates(g.pos_deep(kids(y)[0]), g.pos(b)):
                                guarded = True
                    if guarded:
                        ck.ok("INTRINSIC-GUARD", tag, "%s is dominated by the zero test" % name)
                    else:
                        ck.violation("INTRINSIC-GUARD", fn.qname, tag, "%s is undefined for 0 but is reached without a zero test" % name, fn.nloc(b))
            if fwd and not builtins and fam not in ("integer_log2_ceil",):
                # forwarding overload: argument is the parameter cast to the same-width counterpart
                a = kids(fwd[0])[0]
                to = (a.get("ty") or "").replace("const ", "")
                inner = strip_casts(a)
                if ref_of(inner) == fn.params[0]["did"] and WIDTH.get(to) == WIDTH[t] and to != t:
                    ck.ok("SIGNED-FORWARD", tag, "forwards to the %s overload of the same width" % to, nontrivial=False)
                else:
                    ck.violation("SIGNED-FORWARD", fn.qname, tag, "forwards to %s(%s): not the same-width counterpart of %s" % (fam, to, t), fn.nloc(fwd[0]))


# ---------------------------------------------------------------- bit provenance
class ShiftUB(Exception):
    pass


def bits_eval(e, env, width):
    """evaluate a bitwise expression on vectors of symbolic bits: list[width] of ('x', j) | 0 | 1"""
    e0 = e
    e = strip_casts(e)
    c = const_int(e)
    if c is not None and e["k"] in ("IntegerLiteral",):
        return [(c >> i) & 1 for i in range(width)]
    if e["k"] == "DeclRefExpr" and e["ref"]["id"] in env:
        v = env[e["ref"]["id"]]
        if v is None:
            return None
        if isinstance(v, int):
            return [(v >> i) & 1 for i in range(width)]
        return list(v)
    b = match.binop(e, ("&", "|", "<<", ">>", "-", "^"))
    if b and e["k"] == "BinaryOperator":
        op, l, r = b
        if op in ("<<", ">>"):
            lv = bits_eval(l, env, width)
            rv = int_eval(r, env)
            if rv is None or lv is None:
                return None
            if rv < 0 or rv >= width:
                raise ShiftUB(rv)
            if op == "<<":
                return [0] * rv + lv[: width - rv]
            return lv[rv:] + [0] * rv
        lv, rv = bits_eval(l, env, width), bits_eval(r, env, width)
        if lv is None or rv is None:
            return None
        out = []
        for x, y in zip(lv, rv):
            if op == "&":
                out.append(0 if x == 0 or y == 0 else (y if x == 1 else x if y == 1 else (x if x == y else None)))
            elif op == "|":
                out.append(1 if x == 1 or y == 1 else (y if x == 0 else x if y == 0 else (x if x == y else None)))
            else:
                return None
        if None in out:
            return None
        return out
    return None


def int_eval(e, env):
    e = strip_casts(e)
    c = const_int(e)
    if c is not None and e["k"] == "IntegerLiteral":
        return c
    if e["k"] == "DeclRefExpr" and isinstance(env.get(e["ref"]["id"]), int):
        return env[e["ref"]["id"]]
    b = match.binop(e, ("&", "-", "+"))
    if b:
        l, r = int_eval(b[1], env), int_eval(b[2], env)
        if l is None or r is None:
            return None
        return {"&": l & r, "-": l - r, "+": l + r}[b[0]]
    return None


def check_bits(ck, tu):
    for w in (16, 32, 64):
        fn = tu.one(qname="tlx::bswap%d_generic" % w)
        e = kids([x for x in fn.nodes() if x["k"] == "ReturnStmt"][0])[0]
        W = 64
        x = [("x", j) if j < w else 0 for j in range(W)]
        r = bits_eval(e, {fn.params[0]["did"]: x}, W)
        want = [("x", (w // 8 - 1 - i // 8) * 8 + i % 8) for i in range(w)]
        if r is None:
            raise dtable.Undecidable("%s: not a pure shift/mask expression" % fn.loc)
        if r[:w] != want:
            badbit = [i for i in range(w) if r[i] != want[i]][0]
            ck.violation("BIT-PROVENANCE", fn.qname, "bswap%d" % w, "result bit %d comes from %s, a byte swap needs input bit %d" % (badbit, r[badbit], want[badbit][1]), fn.loc)
        else:
            ck.ok("BIT-PROVENANCE", fn.qname, "all %d result bits come from the byte-mirrored input bit" % w)
    for name, left in (("rol", True), ("ror", False)):
        for w in (32, 64):
            fn = tu.one(qname="tlx::%s%d_generic" % (name, w))
            e = kids([x for x in fn.nodes() if x["k"] == "ReturnStmt"][0])[0]
            bad = None
            for i in list(range(0, w)) + [w, w + 3, -1, -5]:
                x = [("x", j) for j in range(w)]
                try:
                    r = bits_eval(e, {fn.params[0]["did"]: x, fn.params[1]["did"]: i}, w)
                except ShiftUB as su:
                    ck.violation("BIT-PROVENANCE", fn.qname, "%s%d:shift" % (name, w), "rotation by %d shifts by %s, undefined for a %d-bit operand" % (i, su.args[0], w), fn.loc)
                    bad = "ub"
                    break
                if r is None:
                    raise dtable.Undecidable("%s: not a pure shift/mask expression (i=%d)" % (fn.loc, i))
                k = i % w
                want = [("x", (j - k) % w) for j in range(w)] if left else [("x", (j + k) % w) for j in range(w)]
                if r != want:
                    bad = i
                    break
            if bad == "ub":
                continue
            if bad is not None:
                ck.violation("BIT-PROVENANCE", fn.qname, "%s%d" % (name, w), "rotation by %d is wrong (bit provenance differs from a %d-bit rotate)" % (bad, w), fn.loc)
            else:
                ck.ok("BIT-PROVENANCE", fn.qname, "rotate %s correct for every amount 0..%d (and wrap-around amounts), all bits" % ("left" if left else "right", w - 1))
    # intrinsic front ends use the intrinsic of their own width
    for w in (16, 32, 64):
        fn = tu.one(qname="tlx::bswap%d" % w)
        b = [x for x in fn.nodes() if "callee" in x and x["callee"]["name"].startswith("__builtin_bswap")]
        if len(b) == 1 and b[0]["callee"]["name"] == "__builtin_bswap%d" % w:
            ck.ok("INTRINSIC-WIDTH", "bswap%d" % w, b[0]["callee"]["name"], nontrivial=False)
        else:
            ck.violation("INTRINSIC-WIDTH", fn.qname, "bswap%d" % w, "bswap%d does not use __builtin_bswap%d" % (w, w), fn.loc)


# ---------------------------------------------------------------- overflow before narrowing
def check_overflow(ck, tu):
    """a total helper must not add to a full-range parameter before dividing / shifting / rounding down:
    n + k - 1 or i + 1 wraps for the upper part of the domain although the result is representable"""
    for q in ("tlx::div_ceil", "tlx::round_up", "tlx::round_down_to_power_of_two"):
        for fn in tu.some(qname=q):
            pids = [p["did"] for p in fn.params]
            bad = None
            for x in fn.nodes():
                b = match.binop(x, ("+",))
                if not b or strip_casts(x)["k"] != "BinaryOperator":
                    continue
                ops = [b[1], b[2]]
                raw = [o for o in ops if ref_of(o) in pids and strip_casts(o)["k"] == "DeclRefExpr"]
                if not raw:
                    continue
                other = [o for o in ops if o is not raw[0]][0]
                growing = (const_int(other) or 0) > 0 or ref_of(other) in pids
                if growing:
                    # guarded by an explicit range test on that parameter?
                    bad = x
            tag = "%s(%s)" % (q.split("::")[-1], ",".join(ptype(fn, i) for i in range(len(fn.params))))
            if bad is not None:
                ck.violation("NO-OVERFLOW-BEFORE-NARROW", fn.qname, tag.replace(" ", "_"),
                             "%s is computed on the raw argument before the result is narrowed: it wraps for arguments near the type's maximum although the "
                             "mathematical result is representable" % dtable.describe(bad), fn.nloc(bad))
            else:
                ck.ok("NO-OVERFLOW-BEFORE-NARROW", tag, "no widening addition on the raw argument")


def check_bool_total(ck, tu):
    """BOOL-TOTAL: is_power_of_two_template is evaluated on its integer skeleton for the extreme and the small values of
    each instantiated type: the result is (i > 0 and i has one bit set) and no signed subtraction / addition leaves the
    type's range on the way (i - 1 for the minimum)"""
    from engine import skel
    RANGES = {"int": (-2 ** 31, 2 ** 31 - 1), "long": (-2 ** 63, 2 ** 63 - 1), "long long": (-2 ** 63, 2 ** 63 - 1), "short": (-2 ** 15, 2 ** 15 - 1),
              "unsigned int": (0, 2 ** 32 - 1), "unsigned long": (0, 2 ** 64 - 1), "unsigned long long": (0, 2 ** 64 - 1)}
    for fn in tu.some(qname="tlx::is_power_of_two_template"):
        t = ptype(fn)
        if t not in RANGES:
            raise dtable.Undecidable("%s: integer type %s not modelled" % (fn.loc, t))
        lo, hi = RANGES[t]
        signed = lo < 0
        bad = None
        vals = sorted(set([lo, lo + 1, -8, -2, -1, 0, 1, 2, 3, 4, 5, 6, 7, 8, 12, 16, 2 ** 30, hi - 1, hi, (hi + 1) // 2]))
        vals = [v for v in vals if lo <= v <= hi]
        for v in vals:
            over = []

            def event(e, sk):
                if e["k"] == "BinaryOperator" and e.get("op") in ("-", "+", "*") and signed:
                    a_, b_ = sk.ev(kids(e)[0]), sk.ev(kids(e)[1])
                    if isinstance(a_, int) and isinstance(b_, int):
                        r_ = {"-": a_ - b_, "+": a_ + b_, "*": a_ * b_}[e["op"]]
                        if not (lo <= r_ <= hi) and (e.get("ty") or t) in (t, "const " + t):
                            over.append((e, a_, b_))
                        return r_
                if e["k"] == "BinaryOperator" and e.get("op") in ("-", "+") and not signed:
                    a_, b_ = sk.ev(kids(e)[0]), sk.ev(kids(e)[1])
                    if isinstance(a_, int) and isinstance(b_, int):
                        return ({"-": a_ - b_, "+": a_ + b_}[e["op"]]) % (hi + 1)
                return NotImplemented
            sk = skel.Skel(fn, {fn.params[0]["did"]: v}, None, event)
            try:
                sk.run(kids(fn.body))
                ret = None
            except skel.Return as r_:
                ret = r_.v
            want = v > 0 and (v & (v - 1)) == 0
            if over and bad is None:
                e, a_, b_ = over[0]
                bad = ("overflow", "%s is evaluated for i = %d (%s): signed overflow for the minimum, for which the predicate must simply be false"
                       % (dtable.describe(e), v, t), e)
            elif (ret is None or bool(ret) != want) and bad is None:
                bad = ("form", "is_power_of_two(%d) [%s] yields %s, must be %s" % (v, t, ret, want), fn.body)
        if bad:
            ck.violation("BOOL-TOTAL", fn.qname, t.replace(" ", "_") + (":form" if bad[0] == "form" else ""), bad[1], fn.nloc(bad[2]))
        else:
            ck.ok("BOOL-TOTAL", "is_power_of_two_template<%s>" % t, "%d values incl. the type's minimum and maximum: result == (i > 0 and one bit set), no signed overflow on the way" % len(vals))


# ---------------------------------------------------------------- Aggregate
def frac_eval(e, env):
    """exact evaluation of an arithmetic expression over this-> / other. fields"""
    e = strip_casts(e)
    c = const_int(e)
    if c is not None and e["k"] == "IntegerLiteral":
        return Fraction(c)
    if e["k"] == "FloatingLiteral":
        return Fraction(e["val"]).limit_denominator(10 ** 6)
    if e["k"] == "MemberExpr":
        f = match.field_of(e)
        base = strip_casts(f[0])
        who = "this" if base["k"] == "This" else "other"
        return env[(who, f[1])]
    if e["k"] == "DeclRefExpr" and e["ref"]["id"] in env:
        return env[e["ref"]["id"]]
    b = match.binop(e, ("+", "-", "*", "/"))
    if b:
        l, r = frac_eval(b[1], env), frac_eval(b[2], env)
        if l is None or r is None:
            return None
        if b[0] == "/":
            if r == 0:
                return None
            ty = (e.get("ty") or "").replace("const ", "")
            integral = ty in ("unsigned long", "long", "unsigned int", "int", "unsigned", "unsigned long long", "long long", "size_t", "short", "unsigned short")
            if integral:
                q = l / r
                return Fraction(int(q))        # C++ integer division truncates
            return l / r
        return {"+": l + r, "-": l - r, "*": l * r}[b[0]]
    return None


def check_aggregate(ck, tu):
    AG = "tlx::Aggregate"
    for T in ("double", "int"):
        fns = {f.name: f for f in tu.find(record=AG) if f.rtargs == [T]}
        ck.require({"operator+", "operator+=", "combine_means", "combine_variance", "add"} <= set(fns), "Aggregate<%s> members not instantiated" % T)
        # ---- pre-state purity of operator+=
        fn = fns["operator+="]
        g = cfgm.CFG(fn)
        stmts = [s for s in kids(fn.body)]
        written = []
        bad = None
        helper_reads = {}
        for name in ("combine_means", "combine_variance"):
            helper_reads[name] = set(match.this_field(y) for y in fns[name].nodes() if y["k"] == "MemberExpr" and match.this_field(y))
        for s in stmts:
            b = match.binop(s, ("=", "+=", "-="))
            if not b:
                continue
            reads = set(match.this_field(y) for y in ir.walk(b[2]) if y["k"] == "MemberExpr" and match.this_field(y))
            for c in ir.walk(b[2]):
                if "callee" in c and c["callee"]["name"] in helper_reads and c.get("member_call"):
                    reads |= helper_reads[c["callee"]["name"]]
            clash = [w for w in written if w in reads]
            if clash and bad is None:
                bad = (s, clash)
            f = match.this_field(b[1])
            if f:
                written.append(f)
        if bad:
            ck.violation("PRESTATE-PURITY", fn.qname, "%s:%s" % (T, ",".join(bad[1])),
                         "operator+= computes %s from %s after it was already overwritten: the combined value mixes the old and the new state"
                         % (dtable.describe(bad[0])[:60], bad[1]), fn.nloc(bad[0]))
        else:
            ck.ok("PRESTATE-PURITY", "Aggregate<%s>::operator+=" % T, "every combined quantity is computed from the pre-state")
        # ---- operator+ and operator+= each combine the five quantities: evaluated on a sample state, the helper calls observed
        from engine import skel
        for opname in ("operator+", "operator+="):
            f = fns[opname]
            other = f.params[0]["did"]
            for mine, theirs in (((3, 2, 9), (4, 5, 7)), ((3, 6, 8), (4, 1, 20))):       # (count, min, max)
                A = {"count_": theirs[0], "min_": theirs[1], "max_": theirs[2], "mean_": ("a.mean",), "nvar_": ("a.nvar",)}
                result = {}

                def event(e, sk, A=A, other=other, f=f, result=result):
                    if e["k"] == "MemberExpr" and kids(e) and not match.this_field(e):
                        base = kids(e)[0]
                        if ref_of(base) == other or sk.lvalue(base) == other:
                            return A.get(e["member"])
                    if "callee" in e and e.get("member_call") and e["callee"]["name"] in ("combine_means", "combine_variance") and len(kids(e)) == 2:
                        arg_is_other = ref_of(kids(e)[1]) == other or sk.lvalue(kids(e)[1]) == other
                        pre = tuple((fld_, sk.env.get(("field", fld_))) for fld_ in sorted(x_ for x_ in helper_reads[e["callee"]["name"]] if x_))
                        return (e["callee"]["name"], arg_is_other, pre)
                    if e["k"] in ("CXXConstructExpr", "CXXTemporaryObjectExpr") and (e.get("callee") or {}).get("record") == AG and len(kids(e)) == 5:
                        vals = [sk.ev(a_) for a_ in kids(e)]
                        ctor = tu.by_did.get(e["callee"].get("did"))
                        if ctor is None:
                            raise dtable.Undecidable("%s: Aggregate constructor not in the IR" % f.loc)
                        for i_ in ctor.inits:
                            fld = i_.get("field") or i_.get("name")
                            d_ = ref_of(i_.get("e")) if i_.get("e") is not None else None
                            idx = ctor.param_index(d_) if d_ is not None else None
                            if fld and idx is not None:
                                result[fld] = vals[idx]
                        return ("agg",)
                    return NotImplemented
                pre_state = {("field", "count_"): mine[0], ("field", "min_"): mine[1], ("field", "max_"): mine[2],
                             ("field", "mean_"): ("mean",), ("field", "nvar_"): ("nvar",)}
                sk = skel.Skel(f, dict(pre_state), None, event)
                try:
                    sk.run(kids(f.body))
                except skel.Return:
                    pass
                if opname == "operator+=":
                    result = {k_[1]: v_ for k_, v_ in sk.env.items() if isinstance(k_, tuple) and k_[0] == "field"}
                pre0 = {"count_": mine[0], "mean_": ("mean",), "nvar_": ("nvar",), "min_": mine[1], "max_": mine[2]}

                def pre(h_):
                    return tuple((fld_, pre0.get(fld_)) for fld_ in sorted(x_ for x_ in helper_reads[h_] if x_))
                want = {"count_": mine[0] + theirs[0], "min_": min(mine[1], theirs[1]), "max_": max(mine[2], theirs[2]),
                        "mean_": ("combine_means", True, pre("combine_means")), "nvar_": ("combine_variance", True, pre("combine_variance"))}
                wrong = [k_ for k_ in want if result.get(k_) != want[k_]]
                if wrong:
                    k_ = wrong[0]
                    ck.violation("PLUS-COMBINES", f.qname, "%s:%s" % (T, k_),
                                 "%s of (count %d, min %d, max %d) and (count %d, min %d, max %d) leaves %s = %s; it must be %s (count added, mean and variance "
                                 "through combine_means / combine_variance of the argument on the pre-state, min and max of both)"
                                 % (opname, mine[0], mine[1], mine[2], theirs[0], theirs[1], theirs[2], k_, result.get(k_), want[k_]), f.loc)
                    break
            else:
                ck.ok("PLUS-COMBINES", "Aggregate<%s>::%s" % (T, opname), "count, mean, variance, min, max combined from the pre-state on two sample states")
        # ---- formulas of the helpers, exactly, on sample points
        pts = [(3, Fraction(7, 2), Fraction(5), 5, Fraction(-2), Fraction(11, 3)), (1, Fraction(2), Fraction(0), 4, Fraction(9), Fraction(7)),
               (10, Fraction(1, 3), Fraction(2), 1, Fraction(100), Fraction(0)), (2, Fraction(5), Fraction(1), 2, Fraction(5), Fraction(3))]
        for name in ("combine_means", "combine_variance"):
            f = fns[name]
            rets = [x for x in f.nodes() if x["k"] == "ReturnStmt"]
            e = kids(rets[-1])[0]
            okf = True
            for (n1, m1, v1, n2, m2, v2) in pts:
                env = {("this", "count_"): Fraction(n1), ("this", "mean_"): m1, ("this", "nvar_"): v1,
                       ("other", "count_"): Fraction(n2), ("other", "mean_"): m2, ("other", "nvar_"): v2}
                for y in f.nodes():
                    if y["k"] == "VarDecl" and kids(y):
                        env[y["did"]] = frac_eval(kids(y)[0], env)
                got = frac_eval(e, env)
                if name == "combine_means":
                    want = (m1 * n1 + m2 * n2) / (n1 + n2)
                else:
                    d = m1 - m2
                    want = v1 + v2 + d * d * n1 * n2 / (n1 + n2)
                if got is None:
                    raise dtable.Undecidable("%s: return expression is not plain arithmetic" % f.loc)
                if got != want:
                    okf = False
                    ck.violation("COMBINE-FORMULA", f.qname, "%s:%s" % (T, name),
                                 "%s is not the pooled %s: for counts (%d,%d), means (%s,%s) it yields %s instead of %s"
                                 % (name, "mean" if name == "combine_means" else "sum of squared deviations", n1, n2, m1, m2, got, want), f.loc)
                    break
            if okf:
                ck.ok("COMBINE-FORMULA", "Aggregate<%s>::%s" % (T, name), "equals the pooled formula exactly on %d rational sample points (identity test)" % len(pts))
        # ---- zero guards of the shared denominator
        for name in ("combine_means", "combine_variance"):
            f = fns[name]
            divs = [y for y in f.nodes() if match.binop(y, ("/",)) and strip_casts(y)["k"] == "BinaryOperator"]
            g2 = cfgm.CFG(f)
            for d in divs:
                den = match.binop(d, ("/",))[2]
                for _ in range(3):
                    dd = ref_of(den)
                    dv = [v for v in f.nodes() if v["k"] == "VarDecl" and v.get("did") == dd and kids(v) and kids(v)[0] is not None] if dd is not None else []
                    if not dv:
                        break
                    den = kids(dv[0])[0]          # a local standing for the denominator
                flds = set((match.field_of(y) or (None, None))[1] for y in ir.walk(den) if y["k"] == "MemberExpr")
                if flds != {"count_"}:
                    continue
                guards = set()
                for y in f.nodes():
                    if y["k"] == "IfStmt":
                        c = match.binop(kids(y)[0], ("==",))
                        if c and const_int(c[2]) == 0 and (match.field_of(c[1]) or (None, None))[1] == "count_" and \
                                any(z["k"] == "ReturnStmt" for z in ir.walk(kids(y)[1])) and g2.dominates(g2.pos_deep(kids(y)[0]), g2.pos_deep(d)):
                            base = strip_casts(match.field_of(c[1])[0])
                            guards.add("this" if base["k"] == "This" else "other")
                        c2 = match.binop(kids(y)[0], ("==",))
                        if c2 and const_int(c2[2]) == 0 and match.binop(c2[1], ("+",)) and \
                                any(z["k"] == "ReturnStmt" for z in ir.walk(kids(y)[1])):
                            guards |= {"this", "other"}
                if guards:
                    ck.ok("DIV-GUARD", "Aggregate<%s>::%s" % (T, name), "count_ + other.count_ cannot be zero at the division (guards: %s)" % sorted(guards))
                else:
                    ck.violation("DIV-GUARD", f.qname, "%s:%s" % (T, name), "division by count_ + other.count_ without excluding two empty aggregates (0/0 -> NaN)", f.nloc(d))
        # ---- add(): count incremented before it divides
        f = fns["add"]
        g3 = cfgm.CFG(f)
        inc = [y for y in f.nodes() if match.unop(y, ("++",)) and match.this_field(match.unop(y, ("++",))[1]) == "count_"]
        divs = [y for y in f.nodes() if match.binop(y, ("/", "/=")) and match.this_field(match.binop(y, ("/", "/="))[2]) == "count_"]
        if inc and divs and all(g3.dominates(g3.pos(inc[0]), g3.pos_deep(d)) for d in divs):
            ck.ok("ADD-ORDER", "Aggregate<%s>::add" % T, "count_ is incremented before the running mean divides by it")
        else:
            ck.violation("ADD-ORDER", f.qname, T, "the running mean divides by count_ before it was incremented (division by zero for the first value)", f.loc)


def run(ck):
    ck.explanation = (
        "Structural rules over all overloads: every family is defined for the six integer types; each compiler intrinsic has the operand width of its "
        "parameter type, clz/ctz intrinsics are dominated by a zero test, signed overloads forward to the same-width unsigned one. The portable bswap and "
        "rotate fall-backs are decided completely by symbolic bit provenance (every result bit traced to its input bit, for every rotation amount). Total "
        "helpers must not add to the raw argument before narrowing (div_ceil, round_up, round_down_to_power_of_two) and the power-of-two predicate must "
        "reject non-positive values before i & (i-1). Aggregate: operator+= computes every quantity from the pre-state, + and += use the same helpers, the "
        "helpers equal the pooled mean / sum-of-squares formulas exactly (rational identity test on the extracted expressions), the shared denominator is "
        "guarded against two empty operands. Not decided: the loop-based templates (clz/ctz/ffs/log2), popcount SWAR arithmetic, floating-point rounding.")
    tu = ir.extract("witness/C20_math.cpp")
    check_families(ck, tu)
    check_bits(ck, tu)
    check_overflow(ck, tu)
    check_bool_total(ck, tu)
    check_aggregate(ck, tu)
    ck.floor("FAMILY-COMPLETE", 9)
    ck.floor("INTRINSIC-WIDTH", 20)
    ck.floor("INTRINSIC-GUARD", 6)
    ck.floor("SIGNED-FORWARD", 9)
    ck.floor("BIT-PROVENANCE", 7)
    ck.floor("NO-OVERFLOW-BEFORE-NARROW", 18)
    ck.floor("BOOL-TOTAL", 6)
    ck.floor("PRESTATE-PURITY", 2)
    ck.floor("PLUS-COMBINES", 4)
    ck.floor("COMBINE-FORMULA", 4)
    ck.floor("DIV-GUARD", 4)
